import sys, os; sys.path.insert(0, os.getcwd())

# Demonstration for property C03 ("data flags mean what the data-format page
# says").  Self-contained: drives sedfitter.models.Models / Source /
# fitting_routines directly and compares with an independent per-model
# reference (np.linalg.lstsq + explicit python loops).
#
# Run as:  cd /tmp/wtQ_C03 && /venv/bin/python _out/q<i>/demo.py

import io
import math
import pickle
import itertools
import warnings
import contextlib

import numpy as np

warnings.simplefilter('ignore')

from astropy import units as u

import sedfitter
assert os.path.dirname(os.path.abspath(sedfitter.__file__)) == os.path.join(os.getcwd(), 'sedfitter'), sedfitter.__file__

from sedfitter.models import Models
from sedfitter.source import Source
from sedfitter import fitting_routines as fr

LN10 = math.log(10.)
FLAGS = (0, 1, 2, 3, 4, 9)
GARBAGE = [np.nan, -999., 0., np.inf, -np.inf, 1.e300, -1.e-300, 3.7]

N_MODELS = 7
N_DIST = 3
AV_MIN, AV_MAX = 0., 4.

n_checked = {'ref': 0, 'ignored': 0, 'conf0': 0, 'conf1': 0, 'flag4': 0, 'repeat': 0}


def check(cond, msg):
    if not cond:
        print("FAILED:", msg)
        sys.exit(1)


# ----------------------------------------------------------------------------
# Building blocks
# ----------------------------------------------------------------------------

def make_models(rng, n_wav, aperture_dependent):
    m = Models()
    m.names = np.array(['model_%02i' % i for i in range(N_MODELS)])
    m.wavelengths = np.sort(rng.uniform(0.5, 100., n_wav)) * u.micron
    if aperture_dependent:
        m.distances = np.logspace(-0.3, 0.4, N_DIST) * u.kpc
        m.logd = np.log10(m.distances.to(u.kpc).value)
        base = 10. ** rng.uniform(-1., 3., (N_MODELS, 1, n_wav))
        wiggle = 10. ** rng.uniform(-0.2, 0.2, (N_MODELS, N_DIST, n_wav))
        fl = base * wiggle / (m.distances.value ** 2)[None, :, None]
        m.fluxes = fl * u.mJy
    else:
        m.fluxes = 10. ** rng.uniform(-1., 3., (N_MODELS, n_wav)) * u.mJy
    return m


def make_models_variant(rng, n_wav, aperture_dependent, variant):
    """Same as make_models, but the fluxes are stored in Jy / as float32 / with read-only memory"""
    m0 = make_models(rng, n_wav, aperture_dependent)
    m = Models()
    m.names = m0.names
    m.wavelengths = m0.wavelengths
    if aperture_dependent:
        m.distances = m0.distances
        m.logd = m0.logd
    if variant == 'Jy':
        m.fluxes = m0.fluxes.to(u.Jy)
    elif variant == 'float32':
        m.fluxes = m0.fluxes.value.astype(np.float32) * u.mJy
    elif variant == 'uJy_readonly':
        val = m0.fluxes.to(u.uJy).value
        val.flags.writeable = False
        m.fluxes = u.Quantity(val, u.uJy, copy=False)
    else:
        raise ValueError(variant)
    return m


class FitterAdapter(object):
    """Makes a sedfitter.fit.Fitter look like a Models instance for the checks below"""

    def __init__(self, fitter):
        self.fitter = fitter
        self.fluxes = fitter.models.fluxes
        self.logd = fitter.models.logd

    def fit(self, source, av_law, sc_law, av_min, av_max):
        assert av_law is self.fitter.av_law and sc_law is self.fitter.sc_law
        assert (av_min, av_max) == tuple(self.fitter.av_range)
        info = self.fitter.fit(source)
        assert info.meta.filters is self.fitter.filters
        return info


def make_source(valid, flux, error, form='array'):
    s = Source()
    s.name = 'src'
    s.x = 1.5
    s.y = -2.5
    if form == 'array':
        s.valid = np.array(valid, dtype=int)
        s.flux = np.array(flux, dtype=float)
        s.error = np.array(error, dtype=float)
    elif form == 'list':
        s.valid = [int(v) for v in valid]
        s.flux = [float(v) for v in flux]
        s.error = [float(v) for v in error]
    elif form == 'tuple_floatflags':
        s.valid = np.array(valid, dtype=float)
        s.flux = tuple(float(v) for v in flux)
        s.error = tuple(float(v) for v in error)
    elif form == 'pickle':
        s.valid = np.array(valid, dtype=int)
        s.flux = np.array(flux, dtype=float)
        s.error = np.array(error, dtype=float)
        s = pickle.loads(pickle.dumps(s, 2))
    else:
        raise ValueError(form)
    return s


def random_photometry(rng, flags, conf_mode):
    """conf_mode: 'mixed', 'zero', 'one'"""
    n = len(flags)
    flux = np.zeros(n)
    error = np.zeros(n)
    for j, v in enumerate(flags):
        f = 10. ** rng.uniform(-0.5, 2.5)
        if v in (1, 9):
            flux[j] = f
            error[j] = f * rng.uniform(0.03, 0.3)
        elif v in (2, 3):
            flux[j] = f
            if conf_mode == 'zero':
                error[j] = 0.
            elif conf_mode == 'one':
                error[j] = 1.
            else:
                error[j] = [0., 1., rng.uniform(0.01, 0.99), rng.uniform(0.01, 0.99)][rng.integers(4)]
        elif v == 4:
            flux[j] = np.log10(f)
            error[j] = rng.uniform(0.02, 0.15)
        else:  # 0
            flux[j] = f
            error[j] = f * 0.1
    return flux, error


DUMP = []


def lib_fit(models, source, av_law, sc_law):
    with contextlib.redirect_stdout(io.StringIO()):
        info = models.fit(source, av_law, sc_law, AV_MIN, AV_MAX)
    if len(sys.argv) > 1:
        DUMP.append([np.asarray(getattr(info, k)) for k in ('av', 'sc', 'chi2', 'model_id', 'model_name', 'model_fluxes')])
    order = np.asarray(info.model_id)
    out = {}
    for key in ('av', 'sc', 'chi2'):
        srt = np.asarray(getattr(info, key), float)
        uns = np.empty_like(srt)
        uns[order] = srt
        out[key] = uns
        out[key + '_sorted'] = srt
    out['order'] = order
    out['names'] = np.asarray(info.model_name)
    out['n_data'] = int(source.n_data)
    mf = np.asarray(info.model_fluxes, float)
    out['model_fluxes'] = mf
    return out


def same_fit(a, b):
    for key in ('av_sorted', 'sc_sorted', 'chi2_sorted', 'order', 'model_fluxes'):
        if not np.array_equal(a[key], b[key], equal_nan=True):
            return False
    return bool(np.all(a['names'] == b['names'])) and a['n_data'] == b['n_data']


# ----------------------------------------------------------------------------
# Independent reference
# ----------------------------------------------------------------------------

def ref_log(valid, flux, error):
    n = len(valid)
    w = np.zeros(n)
    lf = np.zeros(n)
    conf = np.zeros(n)
    for j in range(n):
        v = int(valid[j])
        if v == 1:
            lf[j] = math.log10(flux[j]) - 0.5 * (error[j] / flux[j]) ** 2 / LN10
            le = abs(error[j] / flux[j]) / LN10
            w[j] = 1. / le ** 2
        elif v == 4:
            lf[j] = flux[j]
            w[j] = 1. / error[j] ** 2
        elif v in (2, 3):
            lf[j] = math.log10(flux[j])
            conf[j] = error[j]
    return w, lf, conf


def ref_one(valid, w, lf, conf, logm, A, S, free_scale):
    n = len(valid)
    used = [j for j in range(n) if valid[j] in (1, 4)]
    r = lf - logm
    if free_scale:
        if len(used) < 2:
            return None
        sw = np.sqrt(w[used])
        X = np.column_stack([A[used], S[used]]) * sw[:, None]
        av, sc = np.linalg.lstsq(X, r[used] * sw, rcond=None)[0]
        if av < AV_MIN or av > AV_MAX:
            av = min(max(av, AV_MIN), AV_MAX)
            sc = sum(w[j] * (r[j] - av * A[j]) * S[j] for j in used) / sum(w[j] * S[j] ** 2 for j in used)
        pred = av * A + sc * S
    else:
        if len(used) < 1:
            return None
        av = sum(w[j] * r[j] * A[j] for j in used) / sum(w[j] * A[j] ** 2 for j in used)
        av = min(max(av, AV_MIN), AV_MAX)
        sc = np.nan
        pred = av * A
    chi2 = math.fsum(w[j] * (r[j] - pred[j]) ** 2 for j in used)
    margin = np.inf
    violated_any = False
    for j in range(n):
        if valid[j] in (2, 3):
            d = pred[j] - r[j]
            margin = min(margin, abs(d))
            bad = d < 0 if valid[j] == 2 else d > 0
            if bad:
                violated_any = True
                chi2 += 1.e30 if conf[j] >= 1. else -2. * math.log(1. - conf[j])
    return av, sc, chi2, margin, violated_any


def ref_fit(models, valid, flux, error, A, S):
    """Returns list (one per model) of None (undetermined) or
    (av, sc, chi2, safe, violated_any)."""
    A = np.asarray(A, float)
    S = np.asarray(S, float)
    w, lf, conf = ref_log(valid, flux, error)
    # (log10 taken in the precision the model fluxes are stored in, as documented for memory-mapped grids)
    logm = np.log10(models.fluxes.to(u.mJy).value).astype(float)
    results = []
    for i in range(logm.shape[0]):
        if logm.ndim == 2:
            res = ref_one(valid, w, lf, conf, logm[i], A, S, True)
            if res is None:
                results.append(None)
            else:
                av, sc, chi2, margin, viol = res
                results.append((av, sc, chi2, margin > 1e-7, viol))
        else:
            per_d = [ref_one(valid, w, lf, conf, logm[i, k], A, S, False) for k in range(logm.shape[1])]
            if per_d[0] is None:
                results.append(None)
                continue
            chi = np.array([p[2] for p in per_d])
            k = int(np.argmin(chi))
            others = np.delete(chi, k)
            unique = bool(np.all(others > chi[k] * (1 + 1e-7) + 1e-9))
            safe = unique and all(p[3] > 1e-7 for p in per_d)
            results.append((per_d[k][0], models.logd[k], chi[k], safe, per_d[k][4]))
    return results


def compare_with_ref(tag, lib, ref):
    for i, res in enumerate(ref):
        if res is None:
            continue
        av, sc, chi2, safe, viol = res
        if not safe:
            continue
        if chi2 >= 1.e30:
            check(lib['chi2'][i] >= 1.e30, "%s: model %i should have chi2>=1e30, has %r" % (tag, i, lib['chi2'][i]))
        else:
            check(np.isclose(lib['chi2'][i], chi2, rtol=1e-6, atol=1e-7), "%s: chi2 model %i: %r vs %r" % (tag, i, lib['chi2'][i], chi2))
        check(np.isclose(lib['av'][i], av, rtol=1e-6, atol=1e-7), "%s: av model %i: %r vs %r" % (tag, i, lib['av'][i], av))
        check(np.isclose(lib['sc'][i], sc, rtol=1e-6, atol=1e-7), "%s: sc model %i: %r vs %r" % (tag, i, lib['sc'][i], sc))
        n_checked['ref'] += 1


# ----------------------------------------------------------------------------
# The property, for one flag vector
# ----------------------------------------------------------------------------

def check_flag_vector(rng, models, flags, A, S, form='array'):
    flags = list(flags)
    n = len(flags)
    tag = "flags=%s ndim=%i" % (flags, models.fluxes.ndim)

    flux, error = random_photometry(rng, flags, 'mixed')
    src = make_source(flags, flux, error, form)
    keep = (np.array(src.valid).copy(), np.array(src.flux).copy(), np.array(src.error).copy())
    base = lib_fit(models, src, A, S)

    determined = sum(1 for v in flags if v in (1, 4)) >= (2 if models.fluxes.ndim == 2 else 1)

    # n_data counts 1 and 4 only
    check(base['n_data'] == sum(1 for v in flags if v in (1, 4)), tag + ": n_data")

    # independent computation
    compare_with_ref(tag + " base", base, ref_fit(models, flags, flux, error, A, S))

    # second call on the very same objects: same answer, inputs untouched
    again = lib_fit(models, src, A, S)
    check(same_fit(base, again), tag + ": second call on the same objects differs")
    check(np.array_equal(keep[0], src.valid) and np.array_equal(keep[1], src.flux, equal_nan=True)
          and np.array_equal(keep[2], src.error, equal_nan=True), tag + ": source was modified by fit")
    n_checked['repeat'] += 1

    # (1) flags 0 and 9: whatever values they carry
    if any(v in (0, 9) for v in flags):
        for trial in range(2):
            f2, e2 = flux.copy(), error.copy()
            for j, v in enumerate(flags):
                if v in (0, 9):
                    f2[j] = GARBAGE[rng.integers(len(GARBAGE))]
                    e2[j] = GARBAGE[rng.integers(len(GARBAGE))]
            other = lib_fit(models, make_source(flags, f2, e2, form), A, S)
            check(same_fit(base, other), tag + ": ignored content changed the fit (%s / %s)" % (f2, e2))
            n_checked['ignored'] += 1

    if any(v in (2, 3) for v in flags):

        # (2a) confidence 0 is equivalent to flag 0
        e0 = error.copy()
        fl0 = list(flags)
        for j, v in enumerate(flags):
            if v in (2, 3):
                e0[j] = 0.
                fl0[j] = 0
        with_conf0 = lib_fit(models, make_source(flags, flux, e0, form), A, S)
        with_flag0 = lib_fit(models, make_source(fl0, flux, e0, form), A, S)
        # (when the fit is under-determined everything is NaN and NaN * 0
        # weights make the comparison meaningless, so only determined fits)
        if determined:
            check(same_fit(with_conf0, with_flag0), tag + ": confidence 0 differs from flag 0")
        compare_with_ref(tag + " conf0", with_conf0, ref_fit(models, fl0, flux, e0, A, S))
        n_checked['conf0'] += 1

        # (2b) confidence 1: violating <=> chi2 >= 1e30; limits never enter the solution
        e1 = error.copy()
        for j, v in enumerate(flags):
            if v in (2, 3):
                e1[j] = 1.
        with_conf1 = lib_fit(models, make_source(flags, flux, e1, form), A, S)
        ref1 = ref_fit(models, flags, flux, e1, A, S)
        compare_with_ref(tag + " conf1", with_conf1, ref1)
        if models.fluxes.ndim == 2:
            # av and sc do not depend on the limits at all
            check(np.array_equal(with_conf1['av'], with_flag0['av'], equal_nan=True) and
                  np.array_equal(with_conf1['sc'], with_flag0['sc'], equal_nan=True),
                  tag + ": limits entered the least-squares solution")
            for i, res in enumerate(ref1):
                if res is not None and res[3]:
                    if res[4]:
                        check(with_conf1['chi2'][i] >= 1.e30, tag + ": violating model below 1e30")
                    else:
                        check(with_conf1['chi2'][i] == with_flag0['chi2'][i], tag + ": non-violating model penalised")
        n_checked['conf1'] += 1

    # (3) flag 4 carrying the transformed values of a flag-1 point
    if 1 in flags:
        f4, e4, fl4 = flux.copy(), error.copy(), list(flags)
        for j, v in enumerate(flags):
            if v == 1:
                f4[j] = np.log10(flux[j]) - 0.5 * (error[j] / flux[j]) ** 2 / np.log(10.)
                e4[j] = np.abs(error[j] / flux[j]) / np.log(10.)
                fl4[j] = 4
        as4 = lib_fit(models, make_source(fl4, f4, e4, form), A, S)
        check(same_fit(base, as4), tag + ": flag 4 with transformed values differs from flag 1")
        n_checked['flag4'] += 1


# ----------------------------------------------------------------------------
# Direct checks of chi_squared (boundary: model exactly on the limit)
# ----------------------------------------------------------------------------

def ref_chi_squared(valid, data, error, weight, model):
    out = np.zeros(data.shape[:-1])
    for idx in np.ndindex(*data.shape[:-1]):
        tot = 0.
        for j in range(len(valid)):
            d, m = data[idx + (j,)], model[idx + (j,)]
            v = valid[j]
            if v == 0:
                c = 0.
            elif v == 2 and m < d:
                c = np.inf if error[j] == 1 else -2. * math.log(1. - error[j])
            elif v == 3 and m > d:
                c = np.inf if error[j] == 1 else -2. * math.log(1. - error[j])
            else:
                c = (d - m) ** 2 * weight[j]
            if np.isinf(c):
                c = 1.e30
            tot += c
        out[idx] = tot
    return out


def check_chi_squared_direct(rng):
    for shape in [(5,), (4, 3)]:
        for flags in [(1, 2, 3, 4, 0, 9), (2, 2, 3, 3, 1, 1), (3, 2, 9, 0, 4, 1), (0, 0, 0, 0, 0, 0)]:
            valid = np.array(flags)
            n = len(valid)
            data = rng.normal(size=shape + (n,))
            model = rng.normal(size=shape + (n,))
            # boundary: model exactly on the limit -> not violated
            model[..., 0, :] = data[..., 0, :]
            error = np.array([0., 1., 0.5, 0.25, 0.999999, 1e-12])[rng.permutation(6)]
            # (non-zero weights everywhere: the flag-0 zeroing must not rely on the weight)
            weight = np.where((valid == 2) | (valid == 3), 0., rng.uniform(1., 50., n))
            d0, m0, e0, w0 = data.copy(), model.copy(), error.copy(), weight.copy()
            got = fr.chi_squared(valid, data, error, weight, model)
            exp = ref_chi_squared(valid, data, error, weight, model)
            check(got.shape == exp.shape, "chi_squared shape")
            check(np.allclose(got, exp, rtol=1e-10, atol=1e-12), "chi_squared direct: %r vs %r" % (got, exp))
            check(np.all((got >= 1e30) == (exp >= 1e30)), "chi_squared 1e30 pattern")
            check(np.array_equal(d0, data) and np.array_equal(m0, model) and np.array_equal(e0, error)
                  and np.array_equal(w0, weight), "chi_squared modified its inputs")
            got2 = fr.chi_squared(valid, data, error, weight, model)
            check(np.array_equal(got, got2), "chi_squared second call differs")
    try:
        fr.chi_squared(np.array([1, 1]), np.zeros(2), np.ones(2), np.ones(2), np.zeros(2))
    except Exception as exc:
        check("unexpected number of dimensions" in str(exc), "chi_squared 1-d message: %s" % exc)
    else:
        check(False, "chi_squared accepted 1-d input")


# ----------------------------------------------------------------------------
# Models.valid / Models.log_fluxes_mJy
# ----------------------------------------------------------------------------

def check_models_arrays(models):
    for repeat in range(2):
        val_mJy = models.fluxes.to(u.mJy).value
        valid = models.valid
        logf = models.log_fluxes_mJy
        check(type(valid) is np.ndarray and valid.dtype == bool and valid.shape == val_mJy.shape, "Models.valid type")
        check(np.array_equal(valid, val_mJy != 0), "Models.valid values")
        check(type(logf) is np.ndarray and logf.dtype == np.float64 and logf.shape == val_mJy.shape, "log_fluxes_mJy type")
        expected = np.where(val_mJy != 0, np.log10(np.where(val_mJy != 0, val_mJy, 1)), -np.inf)
        check(np.array_equal(logf, expected, equal_nan=True), "log_fluxes_mJy values")
        logf[...] = 0.  # the returned array is a fresh one: scribbling on it must not matter
    m = Models()
    check(m.valid is None and m.n_models is None and m.n_wav is None and m.n_distances is None and m.n_ap == 1, "empty Models")


def check_models_arrays_with_zeros(rng):
    for shape in [(6, 4), (6, 3, 4)]:
        for unit, dtype in [(u.mJy, float), (u.Jy, float), (u.mJy, np.float32), (u.erg / u.cm ** 2 / u.s / u.Hz, float)]:
            m = Models()
            m.names = np.array(['m%i' % i for i in range(6)])
            m.wavelengths = np.linspace(1., 4., 4) * u.micron
            if len(shape) == 3:
                m.distances = [1., 2., 3.] * u.kpc
            val = (10. ** rng.uniform(-30, 3, shape)).astype(dtype)
            val[rng.uniform(size=shape) < 0.3] = 0.
            val[0, ..., 0] = np.nan
            m.fluxes = val * unit
            check_models_arrays(m)
            check(m.fluxes.unit == unit and m.fluxes.dtype == dtype, "fluxes kept as given")


# ----------------------------------------------------------------------------
# Packages on disk
# ----------------------------------------------------------------------------

def write_package_v1(directory, rng, names, filters, aperture_dependent, gzip_one=True):
    import gzip
    import shutil
    from sedfitter.convolved_fluxes import ConvolvedFluxes
    os.makedirs(os.path.join(directory, 'convolved'))
    with open(os.path.join(directory, 'models.conf'), 'w') as f:
        f.write("name = demo\n")
        f.write("length_subdir = 0\n")
        f.write("aperture_dependent = %s\n" % ('yes' if aperture_dependent else 'no'))
        f.write("logd_step = 0.1\n")
    for k, (name, wav) in enumerate(filters):
        c = ConvolvedFluxes()
        c.model_names = np.array(names)
        c.central_wavelength = wav * u.micron
        if aperture_dependent:
            c.apertures = np.logspace(1., 6., 6) * u.au
            c.flux = np.cumsum(10. ** rng.uniform(-1., 2., (len(names), 6)), axis=1) * u.mJy
        else:
            c.apertures = None
            c.flux = 10. ** rng.uniform(-1., 3., (len(names), 1)) * u.mJy
        c.error = c.flux * 0.01
        filename = os.path.join(directory, 'convolved', name + '.fits')
        c.write(filename)
        if gzip_one and k == 1:
            with open(filename, 'rb') as fin, gzip.open(filename + '.gz', 'wb') as fout:
                shutil.copyfileobj(fin, fout)
            os.remove(filename)


def write_package_v2(directory, rng, names):
    from sedfitter.sed import SEDCube
    os.makedirs(os.path.join(directory, 'convolved'))
    cube = SEDCube()
    cube.names = np.array(names)
    cube.distance = 1 * u.kpc
    cube.wav = np.logspace(-1., 3., 40) * u.micron
    cube.apertures = None
    cube.val = 10. ** rng.uniform(-1., 3., (len(names), 1, 40)) * u.mJy
    cube.unc = cube.val * 0.01
    cube.write(os.path.join(directory, 'flux.fits'))
    with open(os.path.join(directory, 'models.conf'), 'w') as f:
        f.write("name = demo\n")
        f.write("length_subdir = 0\n")
        f.write("aperture_dependent = no\n")
        f.write("logd_step = 0.1\n")
        f.write("version = 2\n")


def write_parameters(directory, names, compress):
    from astropy.table import Table
    t = Table()
    t['MODEL_NAME'] = np.array(names, dtype='S30')
    t['par1'] = np.arange(len(names)) * 1.5
    filename = os.path.join(directory, 'parameters.fits')
    t.write(filename)
    if compress:
        import gzip
        import shutil
        with open(filename, 'rb') as fin, gzip.open(filename + '.gz', 'wb') as fout:
            shutil.copyfileobj(fin, fout)
        os.remove(filename)


def quiet(func, *args, **kwargs):
    with contextlib.redirect_stdout(io.StringIO()):
        return func(*args, **kwargs)


def check_packages(rng):

    import shutil
    import tempfile
    from pathlib import Path
    from sedfitter.fit import Fitter
    from sedfitter.extinction import Extinction
    from sedfitter.models import load_parameter_table

    extinction = Extinction()
    extinction.wav = np.logspace(-2., 3.) * u.micron
    extinction.chi = extinction.wav.value ** -2 * u.cm ** 2 / u.g

    names = ['model_%03i  ' % i if i % 2 else 'model_%03i' % i for i in range(6)]
    filters = [('fa', 1.2), ('fb', 3.6), ('fc', 8.0), ('fd', 24.)]
    apertures = [1., 2., 3., 5.] * u.arcsec

    root = tempfile.mkdtemp()

    try:

        cases = []

        d = os.path.join(root, 'v1_indep')
        write_package_v1(d, rng, names, filters, False)
        cases.append(('v1 aperture-independent', d, [f[0] for f in filters], {}))
        cases.append(('v1 aperture-independent (Path, other filter order)', Path(d), ['fd', 'fb', 'fa', 'fc'], {}))
        cases.append(('v1 aperture-independent (trailing slash)', d + os.sep, [f[0] for f in filters], {}))

        d = os.path.join(root, 'v1_dep')
        write_package_v1(d, rng, names, filters, True)
        cases.append(('v1 aperture-dependent', d, [f[0] for f in filters], {}))
        cases.append(('v1 aperture-dependent, one distance', d, [f[0] for f in filters], {'distance_range': [1.5, 1.5] * u.kpc}))

        d = os.path.join(root, 'v2_indep')
        write_package_v2(d, rng, names)
        wavs = [1.2 * u.micron, 3.6 * u.micron, 8.0 * u.micron, 24. * u.micron]
        cases.append(('v2 monochromatic, memmap', d, wavs, {'use_memmap': True}))
        cases.append(('v2 monochromatic, no memmap (Path)', Path(d), wavs, {'use_memmap': False}))

        all_flags = list(itertools.product(FLAGS, repeat=4))

        for label, model_dir, filter_names, kwargs in cases:
            kwargs = dict(kwargs)
            kwargs.setdefault('distance_range', [0.8, 2.] * u.kpc)
            fitters = [quiet(Fitter, filter_names, apertures, model_dir, extinction_law=extinction,
                             av_range=(AV_MIN, AV_MAX), **kwargs) for repeat in range(2)]
            m1, m2 = fitters[0].models, fitters[1].models
            # reading the same files again gives the same models
            check(np.array_equal(m1.fluxes.value, m2.fluxes.value) and m1.fluxes.unit == m2.fluxes.unit == u.mJy, label + ": second read differs")
            check(list(m1.names) == [n.strip() for n in names] and list(m2.names) == list(m1.names), label + ": names %r" % (m1.names,))
            check(np.all(m1.wavelengths == m2.wavelengths) and m1.n_wav == 4, label + ": wavelengths")
            if 'dependent' in label and 'independent' not in label:
                check(m1.fluxes.ndim == 3 and m1.n_distances == (1 if 'one distance' in label else 5), label + ": distance grid %r" % m1.n_distances)
                check(np.allclose(m1.logd, np.log10(m1.distances.to(u.kpc).value)), label + ": logd")
            else:
                check(m1.fluxes.ndim == 2 and m1.distances is None, label + ": no distances expected")
            if 'other filter order' in label:
                check(np.allclose(m1.wavelengths.to(u.micron).value, [24., 3.6, 1.2, 8.0]), label + ": filter order")
            check_models_arrays(m1)
            adapter = FitterAdapter(fitters[0])
            for i in rng.choice(len(all_flags), size=70, replace=False):
                check_flag_vector(rng, adapter, all_flags[i], fitters[0].av_law, fitters[0].sc_law)
            n_checked['packages'] = n_checked.get('packages', 0) + 1

        # things that were refused are still refused
        d = os.path.join(root, 'v1_indep')
        try:
            quiet(Fitter, ['fa', 'nope', 'fc', 'fd'], apertures, d, extinction_law=extinction,
                  av_range=(AV_MIN, AV_MAX), distance_range=[0.8, 2.] * u.kpc)
        except Exception as exc:
            check(str(exc) == "File not found: " + d + "/convolved/nope.fits", "missing file message: %s" % exc)
        else:
            check(False, "missing filter accepted")
        try:
            quiet(Models.read, os.path.join(root, 'v1_dep'), [{'name': 'fa', 'aperture_arcsec': 1.}])
        except Exception as exc:
            check("distange range is required" in str(exc), "missing distance range message: %s" % exc)
        else:
            check(False, "aperture-dependent models read without distance range")
        try:
            quiet(Models.read, os.path.join(root, 'does_not_exist'), [{'name': 'fa', 'aperture_arcsec': 1.}])
        except OSError:
            pass
        else:
            check(False, "missing directory accepted")

        # parameter tables, plain and compressed
        for compress, d in [(False, os.path.join(root, 'v1_indep')), (True, os.path.join(root, 'v1_dep'))]:
            write_parameters(d, names, compress)
            for repeat in range(2):
                t = load_parameter_table(d)
                check(len(t) == len(names) and np.allclose(t['par1'], np.arange(len(names)) * 1.5), "parameter table")
                check([str(x).strip() for x in t['MODEL_NAME']] == [n.strip() for n in names], "parameter table names")
        try:
            load_parameter_table(os.path.join(root, 'v2_indep'))
        except Exception as exc:
            check(str(exc) == "Parameter file not found in " + os.path.join(root, 'v2_indep'), "missing parameter file message: %s" % exc)
        else:
            check(False, "missing parameter file accepted")

    finally:
        shutil.rmtree(root, ignore_errors=True)


# ----------------------------------------------------------------------------
# Main
# ----------------------------------------------------------------------------

def main():
    rng = np.random.default_rng(12345)

    check_chi_squared_direct(rng)

    for n in (1, 2, 3, 4, 5):
        all_flags = list(itertools.product(FLAGS, repeat=n))
        if n >= 4:
            pick = rng.choice(len(all_flags), size=260 if n == 4 else 320, replace=False)
            all_flags = [all_flags[i] for i in sorted(pick)]
        for aperture_dependent in (False, True):
            models = make_models(rng, n, aperture_dependent)
            A = -rng.uniform(0.05, 1.5, n)
            S = -2. * np.ones(n)
            for k, flags in enumerate(all_flags):
                form = ['array', 'list', 'tuple_floatflags', 'pickle'][k % 4] if k % 5 == 0 else 'array'
                if k % 7 == 3:
                    # as passed by Fitter: dimensionless Quantities
                    check_flag_vector(rng, models, flags, A * u.one, S * u.one, form)
                else:
                    check_flag_vector(rng, models, flags, A, S, form)

    # models stored in other units / precisions
    for variant in ('Jy', 'float32', 'uJy_readonly'):
        for aperture_dependent in (False, True):
            models = make_models_variant(rng, 4, aperture_dependent, variant)
            check_models_arrays(models)
            A = -rng.uniform(0.05, 1.5, 4)
            S = -2. * np.ones(4)
            all_flags = list(itertools.product(FLAGS, repeat=4))
            for i in rng.choice(len(all_flags), size=60, replace=False):
                check_flag_vector(rng, models, all_flags[i], A, S)
    check_models_arrays_with_zeros(rng)

    # model packages on disk, read (twice) by the Fitter class
    check_packages(rng)

    for key, val in n_checked.items():
        check(val > 0, "no checks of kind " + key)
    print("checks done:", n_checked)
    if len(sys.argv) > 1:
        # optional: dump every library result (used to compare two versions of the library bit by bit)
        with open(sys.argv[1], 'wb') as fh:
            pickle.dump(DUMP, fh)
    print("OK")


if __name__ == '__main__':
    main()
