import sys, os; sys.path.insert(0, os.getcwd())
# Demonstration for property C12: SED / SED cube / convolved-flux files read
# back exactly what was stored.  Independent expectations are computed with
# plain numpy (no library conversion helpers).
import itertools
import pathlib
import shutil
import tempfile

import numpy as np
from astropy import units as u

import sedfitter
from sedfitter.sed import SED, SEDCube
from sedfitter.convolved_fluxes import ConvolvedFluxes

assert os.path.dirname(os.path.abspath(sedfitter.__file__)) == os.path.join(os.getcwd(), 'sedfitter'), sedfitter.__file__

C_UM_HZ = 299792458.0 * 1e6          # c in micron * Hz
KPC_CM = 3.0856775814913673e21
RTOL = 1e-12

UNITS = {'mJy': u.mJy, 'Jy': u.Jy, 'flux': u.erg / u.cm ** 2 / u.s, 'lum': u.erg / u.s}

TMP = tempfile.mkdtemp(prefix='c12demo_')
N_CHECKS = [0]


def close(a, b, rtol=RTOL):
    a = np.asarray(a, dtype=np.float64)
    b = np.asarray(b, dtype=np.float64)
    assert a.shape == b.shape, (a.shape, b.shape)
    assert np.all(np.abs(a - b) <= rtol * np.abs(b)), (a, b)
    N_CHECKS[0] += 1


def to_cgs_flux(kind, values, nu_hz, d_cm):
    """nu F_nu in erg/cm^2/s from a value in unit `kind` (library convention
    for luminosities: L = F * d^2)."""
    values = np.asarray(values, dtype=np.float64)
    if kind == 'mJy':
        return values * 1e-26 * nu_hz
    if kind == 'Jy':
        return values * 1e-23 * nu_hz
    if kind == 'flux':
        return values
    if kind == 'lum':
        return values / d_cm ** 2
    raise AssertionError(kind)


def from_cgs_flux(kind, values, nu_hz, d_cm):
    if kind == 'mJy':
        return values / nu_hz / 1e-26
    if kind == 'Jy':
        return values / nu_hz / 1e-23
    if kind == 'flux':
        return values
    if kind == 'lum':
        return values * d_cm ** 2
    raise AssertionError(kind)


def expected_axis(wav_um, order):
    """indices into the input arrays giving the spectral axis in the order
    requested on reading"""
    idx = np.argsort(wav_um)           # increasing wavelength
    if order == 'nu':
        idx = idx[::-1]                # increasing frequency
    return idx


def make_wav(rng, n_wav, descending):
    wav = np.sort(10. ** rng.uniform(-2, 3.5, n_wav))
    # make sure they are distinct
    wav = wav * (1. + 0.01 * np.arange(n_wav))
    return wav[::-1].copy() if descending else wav


# --------------------------------------------------------------------- SED

def check_sed(rng, n_ap, n_wav, descending, kind_in, with_ap, use_nu_input, fname, dtype=np.float64, twice=True):
    wav = make_wav(rng, n_wav, descending)
    d_cm = 0.7 * KPC_CM
    if not with_ap:
        n_ap = 1
    flux = (10. ** rng.uniform(-3, 3, (n_ap, n_wav))).astype(dtype)
    err = (flux * rng.uniform(0.01, 0.2, (n_ap, n_wav))).astype(dtype)
    if n_wav > 2:
        flux[0, 1] = 0.      # boundary value: a zero flux
    ap = np.sort(rng.uniform(10., 1e5, n_ap))

    s = SED()
    s.name = 'model_%i_%i' % (n_ap, n_wav)
    s.distance = 0.7 * u.kpc
    if with_ap:
        s.apertures = ap * u.au
    if use_nu_input:
        s.nu = (C_UM_HZ / wav) * u.Hz
    else:
        s.wav = wav * u.micron
    s.flux = flux * UNITS[kind_in]
    s.error = err * UNITS[kind_in]

    flux_before = np.array(s.flux.value, copy=True)
    wav_before = np.array(s.wav.value, copy=True)
    s.write(fname, overwrite=True)
    # writing must not change the object
    close(s.flux.value, flux_before, 0)
    close(s.wav.to(u.micron).value, wav_before, 1e-15)

    nu_in = C_UM_HZ / wav
    for rep in range(2 if twice else 1):
        for order, kind_out in itertools.product(('nu', 'wav'), UNITS):
            r = SED.read(fname, unit_flux=UNITS[kind_out], order=order)
            idx = expected_axis(wav, order)
            close(r.wav.to(u.micron).value, wav[idx])
            close(r.nu.to(u.Hz).value, nu_in[idx])
            assert r.name == s.name
            close(r.distance.to(u.cm).value, d_cm)
            if with_ap:
                close(r.apertures.to(u.au).value, ap)
            else:
                assert r.n_ap == 1
            rt = 1e-6 if dtype == np.float32 else RTOL
            exp_flux = from_cgs_flux(kind_out, to_cgs_flux(kind_in, flux, nu_in, d_cm), nu_in, d_cm)[:, idx]
            exp_err = from_cgs_flux(kind_out, to_cgs_flux(kind_in, err, nu_in, d_cm), nu_in, d_cm)[:, idx]
            assert r.flux.unit.is_equivalent(UNITS[kind_out])
            close(r.flux.to(UNITS[kind_out]).value, exp_flux, rt)
            close(r.error.to(UNITS[kind_out]).value, exp_err, rt)
            if kind_in == kind_out:
                # same unit in and out: the stored values themselves
                close(r.flux.value, flux[:, idx].astype(np.float64), 1e-14 if dtype == np.float64 else 1e-7)
            assert r.flux.shape == (n_ap, n_wav)
            # the two orders are exact mirror images of each other
            other = SED.read(fname, unit_flux=UNITS[kind_out], order='wav' if order == 'nu' else 'nu')
            assert np.array_equal(other.wav.value[::-1], r.wav.value)
            assert np.array_equal(other.nu.value[::-1], r.nu.value)
            assert np.array_equal(other.flux.value[:, ::-1], r.flux.value)
            assert np.array_equal(other.error.value[:, ::-1], r.error.value)
    return s


# -------------------------------------------------------------------- cube

def check_cube(rng, n_models, n_ap, n_wav, descending, kind, with_ap, with_unc, use_nu_input, fname, dtype=np.float64):
    wav = make_wav(rng, n_wav, descending)
    if not with_ap:
        n_ap = 1
    val = (10. ** rng.uniform(-3, 3, (n_models, n_ap, n_wav))).astype(dtype)
    unc = (val * rng.uniform(0.01, 0.2, val.shape)).astype(dtype)
    val[0, 0, 0] = 0.
    ap = np.sort(rng.uniform(10., 1e5, n_ap))
    names = ['m%03i_x' % i for i in range(n_models)]
    valid = (np.arange(n_models) % 3 != 1).astype(int)

    c = SEDCube()
    c.names = names
    c.valid = valid
    c.distance = 2. * u.kpc
    if use_nu_input:
        c.nu = (C_UM_HZ / wav) * u.Hz
    else:
        c.wav = wav * u.micron
    if with_ap:
        c.apertures = ap * u.au
    c.val = val * UNITS[kind]
    if with_unc:
        c.unc = unc * UNITS[kind]
    c.write(fname, overwrite=True)
    close(c.val.value, val, 0)

    nu_in = C_UM_HZ / wav
    for rep in range(2):
        for order, memmap in itertools.product(('nu', 'wav'), (True, False)):
            r = SEDCube.read(fname, order=order, memmap=memmap)
            idx = expected_axis(wav, order)
            close(r.wav.to(u.micron).value, wav[idx])
            close(r.nu.to(u.Hz).value, nu_in[idx])
            close(r.distance.to(u.cm).value, 2. * KPC_CM)
            assert list(r.names) == names
            assert np.array_equal(np.asarray(r.valid).astype(int), valid)
            if with_ap:
                close(r.apertures.to(u.au).value, ap)
            else:
                assert r.apertures is None and r.n_ap == 1
            assert r.val.unit.is_equivalent(UNITS[kind])
            assert r.val.shape == (n_models, n_ap, n_wav)
            # exactly the stored numbers, cell by cell
            assert np.array_equal(r.val.to(UNITS[kind]).value, val[:, :, idx]), 'cube values'
            N_CHECKS[0] += 1
            if with_unc:
                assert np.array_equal(r.unc.to(UNITS[kind]).value, unc[:, :, idx]), 'cube unc'
            else:
                assert r.unc is None
            # extraction of every model
            for im in (0, n_models - 1, n_models // 2):
                sed = r.get_sed(names[im])
                assert sed.name == names[im]
                close(sed.wav.to(u.micron).value, wav[idx])
                close(sed.nu.to(u.Hz).value, nu_in[idx])
                assert np.array_equal(sed.flux.to(UNITS[kind]).value, val[im][:, idx])
                if with_unc:
                    assert np.array_equal(sed.error.to(UNITS[kind]).value, unc[im][:, idx])
                else:
                    assert sed.error is None
                close(sed.distance.to(u.cm).value, 2. * KPC_CM)
                if with_ap:
                    close(sed.apertures.to(u.au).value, ap)
                else:
                    assert sed.apertures is None
            try:
                r.get_sed('not_a_model')
            except ValueError:
                pass
            else:
                raise AssertionError('unknown model accepted')
            del r
    # extracting from the cube that was written (not read)
    sed = c.get_sed(names[-1])
    assert np.array_equal(sed.flux.value, val[-1])
    close(sed.wav.to(u.micron).value, wav)
    return c


# ---------------------------------------------------------- convolved flux

def check_conv(rng, n_models, n_ap, kind, with_ap, fname, dtype=np.float64, with_wav=True):
    if not with_ap:
        n_ap = 1
    flux = (10. ** rng.uniform(-3, 3, (n_models, n_ap))).astype(dtype)
    err = (flux * rng.uniform(0.01, 0.2, flux.shape)).astype(dtype)
    flux[0, 0] = 0.
    ap = np.sort(rng.uniform(10., 1e5, n_ap))
    names = np.array(['model_%04i' % i for i in range(n_models)])

    c = ConvolvedFluxes()
    c.model_names = names
    if with_wav:
        c.central_wavelength = 3.6 * u.micron
    if with_ap:
        c.apertures = ap * u.au
    c.flux = flux * UNITS[kind]
    c.error = err * UNITS[kind]
    c.write(fname, overwrite=True)
    for rep in range(2):
        r = ConvolvedFluxes.read(fname)
        assert [str(x).strip() for x in r.model_names] == list(names)
        if with_wav:
            close(r.central_wavelength.to(u.micron).value, 3.6)
        else:
            assert r.central_wavelength is None
        if with_ap:
            close(r.apertures.to(u.au).value, ap)
        else:
            assert r.apertures is None and r.n_ap == 1
        assert r.flux.shape == (n_models, n_ap)
        assert r.flux.unit.is_equivalent(UNITS[kind])
        assert np.array_equal(np.asarray(r.flux.to(UNITS[kind]).value), flux), 'conv flux'
        assert np.array_equal(np.asarray(r.error.to(UNITS[kind]).value), err), 'conv err'
        N_CHECKS[0] += 1
    return c


def run_common():
    rng = np.random.default_rng(12345)
    f_sed = os.path.join(TMP, 'sed.fits')
    f_cube = os.path.join(TMP, 'cube.fits')
    f_conv = os.path.join(TMP, 'conv.fits')

    # SEDs: a spread of the quantifier, boundaries 1 / 5 apertures, 2 / 40 wavelengths
    cases = [(1, 2), (5, 40), (3, 7), (2, 3), (4, 17)]
    for i, (n_ap, n_wav) in enumerate(cases):
        for descending in (False, True):
            for kind_in in UNITS:
                check_sed(rng, n_ap, n_wav, descending, kind_in,
                          with_ap=(i % 2 == 0) or n_ap > 1, use_nu_input=(i % 3 == 1),
                          fname=f_sed, twice=(i == 2))
    check_sed(rng, 1, 5, True, 'mJy', with_ap=False, use_nu_input=False, fname=f_sed)
    check_sed(rng, 1, 2, False, 'lum', with_ap=False, use_nu_input=True, fname=f_sed)
    check_sed(rng, 3, 9, True, 'mJy', with_ap=True, use_nu_input=False, fname=f_sed, dtype=np.float32)
    # unusual but legal: a pathlib.Path for an existing file
    check_sed(rng, 2, 6, False, 'flux', with_ap=True, use_nu_input=False, fname=pathlib.Path(f_sed))
    # the documented '.gz may be missing' form
    import gzip
    s = check_sed(rng, 2, 4, True, 'Jy', with_ap=True, use_nu_input=False, fname=f_sed)
    with open(f_sed, 'rb') as fin, gzip.open(os.path.join(TMP, 'zipped.fits.gz'), 'wb') as fout:
        fout.write(fin.read())
    r1 = SED.read(os.path.join(TMP, 'zipped.fits'), unit_flux=u.Jy, order='wav')
    r2 = SED.read(f_sed, unit_flux=u.Jy, order='wav')
    assert np.array_equal(r1.flux.value, r2.flux.value) and np.array_equal(r1.wav.value, r2.wav.value)
    # refused inputs stay refused
    try:
        SED.read(f_sed, order='lambda')
    except ValueError:
        pass
    else:
        raise AssertionError('bad order accepted')
    try:
        s.write(f_sed)
    except OSError:
        pass
    else:
        raise AssertionError('overwrote without overwrite=True')

    # cubes
    ccases = [(1, 1, 2), (6, 5, 40), (3, 2, 5), (2, 4, 11), (5, 3, 23)]
    for i, (n_models, n_ap, n_wav) in enumerate(ccases):
        for descending in (False, True):
            for kind in UNITS:
                check_cube(rng, n_models, n_ap, n_wav, descending, kind,
                           with_ap=(i % 2 == 1) or (i == 0 and descending),
                           with_unc=(i % 3 != 2) ^ descending, use_nu_input=(i % 2 == 0) and descending,
                           fname=f_cube)
    check_cube(rng, 4, 3, 8, True, 'mJy', True, True, False, f_cube, dtype=np.float32)
    check_cube(rng, 4, 3, 8, False, 'flux', False, False, True, pathlib.Path(f_cube), dtype=np.float32)

    # convolved fluxes
    for i, (n_models, n_ap) in enumerate([(1, 1), (6, 5), (3, 2), (5, 1), (2, 4)]):
        for kind in UNITS:
            check_conv(rng, n_models, n_ap, kind, with_ap=(i % 2 == 1) or i == 4, fname=f_conv,
                       with_wav=(i != 2))
    check_conv(rng, 4, 3, 'mJy', True, f_conv, dtype=np.float32)
    check_conv(rng, 4, 1, 'Jy', False, pathlib.Path(f_conv), dtype=np.float32)


def finish():
    shutil.rmtree(TMP, ignore_errors=True)
    print('C12 demo OK: %i groups of checks passed' % N_CHECKS[0])


# ------------------------------------------------------------------ extras
# (aimed at the way the binary tables of the three file kinds are built, and
# at the way SED.read finds and opens its file)

def run_extra():
    import gzip
    from astropy.io import fits
    from sedfitter.convolved_fluxes import MonochromaticFluxes
    from sedfitter.sed.helpers import table_to_hdu, parse_unit_safe  # public paths still there

    rng = np.random.default_rng(4242)
    f1 = os.path.join(TMP, 'y1.fits')
    f2 = os.path.join(TMP, 'y2.fits')

    # Documented file layout of an SED file: three extensions with these
    # columns, wavelength table sorted by frequency, units in FITS format
    wav = make_wav(rng, 7, False)
    flux = rng.uniform(1, 2, (2, 7))
    s = SED()
    s.name = 'layout'
    s.distance = 1. * u.kpc
    s.wav = wav * u.micron
    s.apertures = [50., 500.] * u.au
    s.flux = flux * u.mJy
    s.error = 0.5 * flux * u.mJy
    s.write(f1, overwrite=True)
    with fits.open(f1) as hl:
        assert [h.name for h in hl] == ['PRIMARY', 'WAVELENGTHS', 'APERTURES', 'SEDS']
        assert hl[1].columns.names == ['WAVELENGTH', 'FREQUENCY']
        assert hl[2].columns.names == ['APERTURE']
        assert hl[3].columns.names == ['TOTAL_FLUX', 'TOTAL_FLUX_ERR']
        assert np.all(np.diff(hl[1].data['FREQUENCY']) > 0)
        close(hl[1].data['WAVELENGTH'], wav[::-1])
        close(hl[3].data['TOTAL_FLUX'], flux[:, ::-1])
        assert parse_unit_safe(hl[3].columns[0].unit) == u.mJy
        assert parse_unit_safe(hl[2].columns[0].unit) == u.au
        assert hl[0].header['NWAV'] == 7 and hl[0].header['NAP'] == 2

    # non-contiguous, big-endian and single-precision inputs (legal, unusual)
    for descending in (False, True):
        wav = make_wav(rng, 9, descending)
        val = rng.uniform(1, 2, (9, 3, 4)).T             # (4, 3, 9), Fortran-like strides
        unc = rng.uniform(1, 2, (4, 3, 9)).astype('>f4')
        c = SEDCube()
        c.names = np.array(['a', 'bb', 'ccc', 'dddd'])
        c.distance = 1. * u.kpc
        c.wav = wav * u.micron
        c.apertures = [1., 2., 3.] * u.pc
        c.val = val * UNITS['flux']
        c.unc = unc * UNITS['flux']
        c.write(f1, overwrite=True)
        for order, memmap in itertools.product(('nu', 'wav'), (True, False)):
            r = SEDCube.read(f1, order=order, memmap=memmap)
            idx = expected_axis(wav, order)
            assert np.array_equal(r.val.value, val[:, :, idx])
            assert np.array_equal(r.unc.value, unc[:, :, idx].astype('f4'))
            close(r.apertures.to(u.pc).value, [1., 2., 3.])
            assert list(r.names) == ['a', 'bb', 'ccc', 'dddd']

            # read -> extract -> write -> read (objects that came from a file)
            sed = r.get_sed('ccc')
            sed.write(f2, overwrite=True)
            for order2 in ('nu', 'wav'):
                back = SED.read(f2, unit_flux=UNITS['flux'], order=order2)
                idx2 = expected_axis(wav, order2)
                close(back.wav.to(u.micron).value, wav[idx2])
                close(back.flux.value, val[2][:, idx2])
                close(back.error.value, unc[2][:, idx2].astype(np.float64), 1e-7)
                close(back.apertures.to(u.pc).value, [1., 2., 3.])

            # one wavelength of the cube as a convolved-flux table, written,
            # read, written again from the object that was read
            iw = 3
            m = MonochromaticFluxes.from_sed_cube(r, iw)
            m.write(f2, overwrite=True)
            m2 = ConvolvedFluxes.read(f2)
            m2.write(f2, overwrite=True)
            m3 = ConvolvedFluxes.read(f2)
            for mm in (m2, m3):
                assert np.array_equal(np.asarray(mm.flux.value), val[:, :, idx[iw]])
                assert np.array_equal(np.asarray(mm.error.value), unc[:, :, idx[iw]].astype('f4'))
                close(mm.central_wavelength.to(u.micron).value, wav[idx[iw]])
                assert [str(x) for x in mm.model_names] == ['a', 'bb', 'ccc', 'dddd']
            N_CHECKS[0] += 1

    # file name forms for SED.read: str, Path, missing '.gz' as str and Path
    s.write(f1, overwrite=True)
    with open(f1, 'rb') as fin, gzip.open(os.path.join(TMP, 'packed.fits.gz'), 'wb') as fout:
        fout.write(fin.read())
    ref = SED.read(f1, unit_flux=u.mJy, order='wav')
    for name in (f1, pathlib.Path(f1), os.path.join(TMP, 'packed.fits'), os.path.join(TMP, 'packed.fits.gz'),
                 os.path.relpath(os.path.join(TMP, 'packed.fits'))):
        r = SED.read(name, unit_flux=u.mJy, order='wav')
        assert np.array_equal(r.flux.value, ref.flux.value)
        assert np.array_equal(r.wav.value, ref.wav.value)
        assert r.name == 'layout'
        N_CHECKS[0] += 1
    close(ref.flux.value, flux)
    try:
        SED.read(os.path.join(TMP, 'does_not_exist.fits'))
    except OSError:
        pass
    else:
        raise AssertionError('missing file accepted')

    # refused: convolved fluxes without fluxes
    c = ConvolvedFluxes()
    c.model_names = np.array(['a', 'b'])
    try:
        c.write(f2, overwrite=True)
    except TypeError:
        pass
    else:
        raise AssertionError('convolved fluxes without flux written')


run_common()
run_extra()
finish()
