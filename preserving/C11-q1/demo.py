import sys, os; sys.path.insert(0, os.getcwd())

# ---------------------------------------------------------------------------
# Demonstration for property C11 (fits do not depend on labelling, ordering,
# units of brightness, or history).  Self-contained: builds its own model
# packages in a temporary directory, fits them with the library found in the
# current directory, and compares with a slow pure-Python reference fitter
# written here from the published description of the method.
# ---------------------------------------------------------------------------

import contextlib
import io
import itertools
import math
import pickle
import shutil
import tempfile

import numpy as np
from astropy import units as u

import sedfitter
assert os.path.dirname(os.path.abspath(sedfitter.__file__)) == os.path.join(os.getcwd(), 'sedfitter'), sedfitter.__file__

from sedfitter.fit import Fitter
from sedfitter.source import Source
from sedfitter.extinction import Extinction
from sedfitter.convolved_fluxes import ConvolvedFluxes
from sedfitter.models import Models
from sedfitter import fitting_routines

LN10 = math.log(10.)
N_CHECKS = [0]


def check(cond, msg):
    N_CHECKS[0] += 1
    if not cond:
        print("DEMO FAILURE: " + msg)
        sys.exit(1)


def quiet(func, *args, **kwargs):
    with contextlib.redirect_stdout(io.StringIO()):
        return func(*args, **kwargs)


# ------------------------------------------------------------------ inputs

def make_extinction():
    e = Extinction()
    wav = np.logspace(-1., 3., 40)
    e.wav = wav * u.micron
    e.chi = (220. * wav ** -1.7 + 30. * np.exp(-0.5 * ((np.log10(wav) - 1.) / 0.1) ** 2)) * u.cm ** 2 / u.g
    return e, wav, e.chi.value


def ref_interp(x, xs, ys):
    """plain linear interpolation on an increasing grid, scalar"""
    for k in range(len(xs) - 1):
        if xs[k] <= x <= xs[k + 1]:
            t = (x - xs[k]) / (xs[k + 1] - xs[k])
            return ys[k] + t * (ys[k + 1] - ys[k])
    raise ValueError("out of range")


def ref_av_law(wavs, ext_wav, ext_chi):
    chi_v = ref_interp(0.55, ext_wav, ext_chi)
    return [-0.4 * ref_interp(w, ext_wav, ext_chi) / chi_v for w in wavs]


def write_conf(directory, aperture_dependent, version=1, step=0.02):
    with open(os.path.join(directory, 'models.conf'), 'w') as f:
        f.write("name = demo\n")
        f.write("length_subdir = 0\n")
        f.write("aperture_dependent = {0}\n".format('yes' if aperture_dependent else 'no'))
        f.write("logd_step = {0}\n".format(step))
        if version == 2:
            f.write("version = 2\n")


def build_package_v1(directory, filt_names, wavs, names, flux, apertures=None, step=0.02):
    """
    flux : (n_models, n_filt) for aperture-independent packages,
           (n_models, n_ap, n_filt) with apertures (au) otherwise
    """
    os.makedirs(os.path.join(directory, 'convolved'))
    write_conf(directory, apertures is not None, version=1, step=step)
    for k, name in enumerate(filt_names):
        c = ConvolvedFluxes()
        c.central_wavelength = wavs[k] * u.micron
        c.model_names = np.array(names)
        if apertures is None:
            c.flux = flux[:, k].reshape(len(names), 1) * u.mJy
        else:
            c.apertures = np.array(apertures) * u.au
            c.flux = flux[:, :, k] * u.mJy
        c.error = c.flux * 0.01
        c.write(os.path.join(directory, 'convolved', name + '.fits'))


def make_source(name, valid, flux, error):
    s = Source()
    s.name = name
    s.x = 1.25
    s.y = -3.5
    s.valid = valid
    s.flux = flux
    s.error = error
    return s


def permuted_source(s, perm):
    perm = list(perm)
    return make_source(s.name, np.asarray(s.valid)[perm], np.asarray(s.flux)[perm], np.asarray(s.error)[perm])


def source_snapshot(s):
    return (s.name, s.x, s.y, np.array(s.valid, copy=True), np.array(s.flux, copy=True), np.array(s.error, copy=True),
            s.valid.dtype, s.flux.dtype, s.error.dtype, id(s.valid), id(s.flux), id(s.error))


def source_unchanged(s, snap):
    return (s.name == snap[0] and s.x == snap[1] and s.y == snap[2]
            and s.valid.tobytes() == snap[3].tobytes() and s.flux.tobytes() == snap[4].tobytes()
            and s.error.tobytes() == snap[5].tobytes()
            and s.valid.dtype == snap[6] and s.flux.dtype == snap[7] and s.error.dtype == snap[8]
            and id(s.valid) == snap[9] and id(s.flux) == snap[10] and id(s.error) == snap[11])


# --------------------------------------------------------- reference fitter

def ref_log_fluxes(valid, flux, error):
    logf, conf, w = [], [], []
    for v, fl, er in zip(valid, flux, error):
        v = int(v)
        if v == 1:
            le = abs(er / fl) / LN10
            logf.append(math.log10(fl) - 0.5 * (er / fl) ** 2 / LN10)
            conf.append(le)
            w.append(1. / le ** 2)
        elif v in (2, 3):
            logf.append(math.log10(fl))
            conf.append(er)
            w.append(0.)
        elif v == 4:
            logf.append(fl)
            conf.append(er)
            w.append(1. / er ** 2)
        else:  # 0 and 9: never used in the fit
            logf.append(0.)
            conf.append(0.)
            w.append(0.)
    return logf, conf, w


def ref_penalty(confidence):
    # a violated limit with confidence 1 is 'infinitely' bad: 1e30 by convention
    return -2. * math.log(1. - confidence) if confidence < 1. else 1.e30


def ref_chi2(valid, r, conf, w, m):
    terms = []
    for j, v in enumerate(valid):
        v = int(v)
        if v in (1, 4):
            c = (r[j] - m[j]) ** 2 * w[j]
        elif v == 2:
            c = ref_penalty(conf[j]) if m[j] < r[j] else 0.
        elif v == 3:
            c = ref_penalty(conf[j]) if m[j] > r[j] else 0.
        else:
            c = 0.
        terms.append(c)
    return math.fsum(terms)


def ref_fit_independent(source, model_flux, a, av_min, av_max):
    """model_flux: dict name -> list of fluxes (mJy); returns name -> (av, sc, chi2)"""
    logf, conf, w = ref_log_fluxes(source.valid, source.flux, source.error)
    n = len(logf)
    s = [-2.] * n
    out = {}
    for name, mf in model_flux.items():
        r = [logf[j] - math.log10(mf[j]) for j in range(n)]
        used = [j for j in range(n) if w[j] > 0]
        c1 = math.fsum(r[j] * a[j] * w[j] for j in used)
        c2 = math.fsum(r[j] * s[j] * w[j] for j in used)
        m11 = math.fsum(a[j] * a[j] * w[j] for j in used)
        m12 = math.fsum(a[j] * s[j] * w[j] for j in used)
        m22 = math.fsum(s[j] * s[j] * w[j] for j in used)
        det = m11 * m22 - m12 * m12
        av = (m22 * c1 - m12 * c2) / det
        sc = (m11 * c2 - m12 * c1) / det
        if av < av_min or av > av_max:
            av = av_min if av < av_min else av_max
            sc = math.fsum((r[j] - av * a[j]) * s[j] * w[j] for j in used) / m22
        m = [av * a[j] + sc * s[j] for j in range(n)]
        out[name] = (av, sc, ref_chi2(source.valid, r, conf, w, m))
    return out


def ref_distance_grid(dmin_kpc, dmax_kpc, step):
    if dmin_kpc == dmax_kpc:
        return [dmin_kpc]
    n = int(math.ceil(1 + (math.log10(dmax_kpc) - math.log10(dmin_kpc)) / step))
    l0, l1 = math.log10(dmin_kpc), math.log10(dmax_kpc)
    return [10. ** (l0 + (l1 - l0) * k / (n - 1)) for k in range(n)]


def ref_fit_dependent(source, model_flux, apertures_au, ap_arcsec, a, av_min, av_max, dgrid):
    """model_flux: dict name -> [n_ap][n_filt] fluxes (mJy at 1 kpc)"""
    logf, conf, w = ref_log_fluxes(source.valid, source.flux, source.error)
    n = len(logf)
    out = {}
    for name, mf in model_flux.items():
        best = None
        for d in dgrid:
            r = []
            for j in range(n):
                ap = min(ap_arcsec[j] * d * 1000., apertures_au[-1])
                fl = ref_interp(ap, apertures_au, [mf[k][j] for k in range(len(apertures_au))])
                r.append(logf[j] - math.log10(fl / d ** 2))
            used = [j for j in range(n) if w[j] > 0]
            av = math.fsum(r[j] * a[j] * w[j] for j in used) / math.fsum(a[j] * a[j] * w[j] for j in used)
            av = min(max(av, av_min), av_max)
            m = [av * a[j] for j in range(n)]
            c = ref_chi2(source.valid, r, conf, w, m)
            if best is None or c < best[2]:
                best = (av, math.log10(d), c)
        out[name] = best
    return out


# --------------------------------------------------------------- comparisons

def as_dict(info):
    av = np.asarray(info.av, float)
    sc = np.asarray(info.sc, float)
    c2 = np.asarray(info.chi2, float)
    names = [str(x).strip() for x in info.model_name]
    check(len(set(names)) == len(names), "duplicate model names in result")
    check(np.all(np.diff(c2) >= 0), "results not sorted by chi2")
    return {names[i]: (float(av[i]), float(sc[i]), float(c2[i])) for i in range(len(names))}


def close(x, y, rtol, atol):
    if x == y:
        return True
    return abs(x - y) <= atol + rtol * max(abs(x), abs(y))


def same_results(d1, d2, rtol, atol, what, sc_shift=0.):
    check(sorted(d1) == sorted(d2), what + ": different sets of models")
    for name in d1:
        a1, s1, c1 = d1[name]
        a2, s2, c2 = d2[name]
        check(close(a1, a2, rtol, atol), "%s: A_V differs for %s: %r vs %r" % (what, name, a1, a2))
        check(close(s1 + sc_shift, s2, rtol, atol), "%s: scale differs for %s: %r (+%r) vs %r" % (what, name, s1, sc_shift, s2))
        check(close(c1, c2, rtol, atol * 10), "%s: chi2 differs for %s: %r vs %r" % (what, name, c1, c2))


def info_bytes(info):
    """everything observable in a FitInfo, bit for bit"""
    parts = [np.asarray(info.av, float).tobytes(), np.asarray(info.sc, float).tobytes(),
             np.asarray(info.chi2, float).tobytes(), np.asarray(info.model_id).tobytes(),
             '|'.join(str(x) for x in info.model_name).encode(),
             np.asarray(info.model_fluxes, float).tobytes()]
    return b'#'.join(parts)


def check_history_independence(make_fitter, sources, what, max_orders=12):
    """
    A fitter gives, bit for bit, the same FitInfo for a source whatever it
    fitted before (and however often), and never modifies the source.
    """
    fresh = {}
    for k, s in enumerate(sources):
        snap = source_snapshot(s)
        fresh[k] = info_bytes(make_fitter().fit(s))
        check(source_unchanged(s, snap), what + ": source modified by fit")
    fitter = make_fitter()
    idx = list(range(len(sources)))
    orders = list(itertools.permutations(idx))[:max_orders]
    orders += [tuple(idx) + tuple(idx), tuple(idx[::-1]) + tuple(idx[:1]) * 2]
    for order in orders:
        order = order[:6]
        for k in order:
            snap = source_snapshot(sources[k])
            info = fitter.fit(sources[k])
            check(info.source is sources[k], what + ": FitInfo.source is not the source given")
            check(source_unchanged(sources[k], snap), what + ": source modified by fit")
            check(info_bytes(info) == fresh[k], what + ": result for source %i depends on history (order %r)" % (k, order))


def check_filter_permutations(make_fitter_perm, sources, n_filt, what, perms=None, rtol=1e-8, atol=1e-8):
    base = make_fitter_perm(tuple(range(n_filt)))
    base_res = [as_dict(base.fit(s)) for s in sources]
    if perms is None:
        perms = list(itertools.permutations(range(n_filt)))
    for perm in perms:
        fitter = make_fitter_perm(perm)
        for s, b in zip(sources, base_res):
            same_results(b, as_dict(fitter.fit(permuted_source(s, perm))), rtol, atol,
                         "%s: filter permutation %r, source %s" % (what, perm, s.name))
    return base_res


# ------------------------------------------------------------------ scenario

class Scenario(object):
    pass


def build_scenario(root, seed=20260927):

    sc = Scenario()
    rng = np.random.RandomState(seed)

    sc.ext, sc.ext_wav, sc.ext_chi = make_extinction()
    sc.filt_names = ['fa', 'fb', 'fc', 'fd']
    sc.wavs = [1.2, 3.6, 8.0, 24.0]
    sc.a = ref_av_law(sc.wavs, sc.ext_wav, sc.ext_chi)
    sc.n_filt = 4
    sc.names = ['mod_%02d' % i for i in range(8)]
    sc.ap_arcsec = [1., 3., 3., 800.]

    # Aperture-independent package (version 1 layout)
    sc.flux2 = 10. ** rng.uniform(-1., 2., (8, 4))
    sc.dir2 = os.path.join(root, 'indep')
    os.mkdir(sc.dir2)
    quiet(build_package_v1, sc.dir2, sc.filt_names, sc.wavs, sc.names, sc.flux2)

    # Aperture-dependent package (version 1 layout)
    sc.apertures_au = list(np.logspace(1., 6., 7))
    sc.flux3 = np.cumsum(10. ** rng.uniform(-1., 1., (8, 7, 4)), axis=1)
    sc.dir3 = os.path.join(root, 'dep')
    os.mkdir(sc.dir3)
    quiet(build_package_v1, sc.dir3, sc.filt_names, sc.wavs, sc.names, sc.flux3, apertures=sc.apertures_au)

    # Sources: model 2 seen through A_V = 3 and scaled, plus noise
    a = np.array(sc.a)
    truth = sc.flux2[2] * 10. ** (3. * a - 2. * 0.7)
    f1 = truth * (1. + 0.05 * rng.normal(size=4))
    sc.sources = [
        make_source('all_valid', np.array([1, 1, 1, 1]), f1, 0.1 * f1),
        make_source('upper_limit', np.array([1, 3, 1, 1]), f1 * np.array([1., 0.5, 1., 1.]), np.array([0.1 * f1[0], 0.9, 0.2 * f1[2], 0.05 * f1[3]])),
        make_source('lower_and_unused', np.array([1, 1, 2, 0]), f1 * np.array([1.1, 0.9, 3.0, 1.]), np.array([0.1 * f1[0], 0.1 * f1[1], 0.99, 0.])),
        make_source('log_and_plot_only', np.array([4, 1, 1, 9]), np.array([np.log10(f1[0]), f1[1], f1[2], -999.]), np.array([0.04, 0.1 * f1[1], 0.1 * f1[2], -999.])),
        # unusual but legal input forms: lists, a tuple, float-valued flags
        make_source('lists', [1., 1., 0., 1.], tuple(float(x) for x in sc.flux2[5] * 3.), [float(x) for x in sc.flux2[5] * 0.3]),
    ]
    return sc


def model_flux_dict(names, flux):
    return {names[i]: [[float(x) for x in row] for row in flux[i]] if flux.ndim == 3 else [float(x) for x in flux[i]]
            for i in range(len(names))}


def standard_checks(sc, root, av_ranges=((0., 10.), (0., 2.), (1.5, 1.5)), with_resolved=True, n_perms=None):
    """The property as stated, on both kinds of packages."""

    all_perms = list(itertools.permutations(range(sc.n_filt)))
    perms = all_perms if n_perms is None else all_perms[::max(1, len(all_perms) // n_perms)]

    # ---- distance-independent package
    for av_range in av_ranges:

        def make_fitter_perm(perm, av_range=av_range):
            return quiet(Fitter, [sc.filt_names[p] for p in perm], np.array([sc.ap_arcsec[p] for p in perm]) * u.arcsec,
                         sc.dir2, extinction_law=sc.ext, av_range=av_range, distance_range=[1., 2.] * u.kpc)

        what = "indep av_range=%r" % (av_range,)
        base_res = check_filter_permutations(make_fitter_perm, sc.sources, sc.n_filt, what, perms=perms)

        # independent computation
        mf = model_flux_dict(sc.names, sc.flux2)
        for s, res in zip(sc.sources, base_res):
            same_results(ref_fit_independent(s, mf, sc.a, av_range[0], av_range[1]), res, 1e-7, 1e-7,
                         what + ": reference, source " + s.name)

        # second call on the same objects, history, source untouched
        check_history_independence(lambda: make_fitter_perm(tuple(range(sc.n_filt))), sc.sources[:3], what, max_orders=6)

        # units of brightness: scale by constants over 8 decades
        fitter = make_fitter_perm(tuple(range(sc.n_filt)))
        for s in sc.sources:
            valid = np.asarray(s.valid).astype(int)
            base = as_dict(fitter.fit(s))
            for const in [1e-4, 3.7e-3, 0.1, 1., 2., 47.11, 1e3, 1e4]:
                linear = (valid != 4)
                flux = np.array(s.flux, dtype=float)
                error = np.array(s.error, dtype=float)
                flux[linear] = flux[linear] * const
                error[linear & (valid != 2) & (valid != 3)] *= const  # confidences of limits are not brightnesses
                flux[valid == 4] += np.log10(const)
                scaled = make_source(s.name, valid, flux, error)
                same_results(base, as_dict(fitter.fit(scaled)), 1e-8, 1e-8,
                             "%s: scaling by %g, source %s" % (what, const, s.name), sc_shift=-0.5 * math.log10(const))

    # ---- permutation of the models inside the package
    rng = np.random.RandomState(5)
    for trial in range(3):
        order = list(range(8))[::-1] if trial == 0 else list(rng.permutation(8))
        d2 = os.path.join(root, 'indep_perm%i_%i' % (trial, N_CHECKS[0]))
        d3 = os.path.join(root, 'dep_perm%i_%i' % (trial, N_CHECKS[0]))
        os.mkdir(d2)
        os.mkdir(d3)
        quiet(build_package_v1, d2, sc.filt_names, sc.wavs, [sc.names[i] for i in order], sc.flux2[order])
        quiet(build_package_v1, d3, sc.filt_names, sc.wavs, [sc.names[i] for i in order], sc.flux3[order], apertures=sc.apertures_au)
        for directory, permuted, kwargs in [(sc.dir2, d2, {}), (sc.dir3, d3, {}), (sc.dir3, d3, {'remove_resolved': True})]:
            if kwargs and not with_resolved:
                continue
            args = (sc.filt_names, np.array(sc.ap_arcsec) * u.arcsec)
            kw = dict(extinction_law=sc.ext, av_range=(0., 4.), distance_range=[0.8, 1.6] * u.kpc)
            kw.update(kwargs)
            f1 = quiet(Fitter, args[0], args[1], directory, **kw)
            f2 = quiet(Fitter, args[0], args[1], permuted, **kw)
            for s in sc.sources:
                same_results(as_dict(f1.fit(s)), as_dict(f2.fit(s)), 1e-9, 1e-9,
                             "model permutation %r in %s %r, source %s" % (order, os.path.basename(directory), kwargs, s.name))

    # ---- distance-dependent package
    for av_range, drange in [((0., 10.), (0.8, 1.6)), ((0.5, 2.), (1.3, 1.3))]:
        for resolved in ([False, True] if with_resolved else [False]):

            def make_fitter_perm(perm, av_range=av_range, drange=drange, resolved=resolved):
                return quiet(Fitter, [sc.filt_names[p] for p in perm], np.array([sc.ap_arcsec[p] for p in perm]) * u.arcsec,
                             sc.dir3, extinction_law=sc.ext, av_range=av_range, distance_range=list(drange) * u.kpc,
                             remove_resolved=resolved)

            what = "dep av_range=%r distances=%r remove_resolved=%r" % (av_range, drange, resolved)
            base_res = check_filter_permutations(make_fitter_perm, sc.sources, sc.n_filt, what, perms=perms[::3])

            if not resolved:
                mf = model_flux_dict(sc.names, sc.flux3)
                dgrid = ref_distance_grid(drange[0], drange[1], 0.02)
                for s, res in zip(sc.sources, base_res):
                    same_results(ref_fit_dependent(s, mf, sc.apertures_au, sc.ap_arcsec, sc.a, av_range[0], av_range[1], dgrid),
                                 res, 1e-7, 1e-7, what + ": reference, source " + s.name)

            check_history_independence(lambda: make_fitter_perm(tuple(range(sc.n_filt))), sc.sources[1:4], what, max_orders=3)


# ------------------------------------------------- specific to this change:
# Models.fit / Models.read were restructured into private helpers, logd became
# a derived property, chi_squared handles the limits without loops.

def build_package_v2(directory, names, cube_wav, val, apertures=None):
    from sedfitter.sed import SEDCube
    cube = SEDCube()
    cube.names = np.array(names)
    cube.distance = 1 * u.kpc
    cube.wav = np.array(cube_wav) * u.micron
    cube.apertures = None if apertures is None else np.array(apertures) * u.au
    cube.val = val * u.mJy
    cube.unc = cube.val * 0.01
    cube.write(os.path.join(directory, 'flux.fits'))
    write_conf(directory, apertures is not None, version=2)


def ref_chi2_array(valid, data, error, weight, model):
    out = np.zeros(data.shape[:-1])
    for idx in np.ndindex(*data.shape[:-1]):
        out[idx] = ref_chi2(valid, list(data[idx]), list(error), list(weight), list(model[idx]))
    return out


def specific_checks(sc, root):

    # -- chi_squared directly, 2-d and 3-d, every kind of flag, boundaries:
    #    model == data exactly on a limit (no penalty), confidence 0 and 1
    rng = np.random.RandomState(3)
    valid = np.array([1, 2, 3, 0, 4, 9, 2, 3])
    error = np.array([0.1, 0.9, 0.99, 0., 0.2, 0., 1.0, 0.0])
    weight_all = np.array([100., 3., 7., 1., 25., 2., 50., 4.])
    for shape in [(5, 8), (4, 3, 8)]:
        data = rng.normal(size=shape)
        model = rng.normal(size=shape)
        model[..., 0, 1] = data[..., 0, 1]
        model[..., 1, 2] = data[..., 1, 2]
        for valid_k in [valid, np.roll(valid, 3), np.array([1] * 8), np.array([0] * 8), valid.astype(float)]:
            # as in the library, only measured points (flags 1 and 4) carry a weight
            weight = np.where((valid_k == 1) | (valid_k == 4), weight_all, 0.)
            d0, m0 = data.copy(), model.copy()
            got = fitting_routines.chi_squared(valid_k, data, error, weight, model)
            got2 = fitting_routines.chi_squared(valid_k, data, error, weight, model)
            exp = ref_chi2_array(valid_k, data, error, weight, model)
            exp = np.where(np.isinf(exp), 1e30, exp)
            check(got.shape == shape[:-1], "chi_squared: wrong shape")
            check(np.allclose(got, exp, rtol=1e-12, atol=1e-12), "chi_squared differs from reference")
            check(np.array_equal(got, got2), "chi_squared: second call differs")
            check(np.array_equal(d0, data) and np.array_equal(m0, model), "chi_squared modified its inputs")
    try:
        fitting_routines.chi_squared(valid, rng.normal(size=8), error, weight_all, rng.normal(size=8))
    except Exception as exc:
        check("unexpected number of dimensions" in str(exc), "chi_squared: 1-d input refused with another message")
    else:
        check(False, "chi_squared: 1-d input not refused")

    # -- Models.logd after reading, and Models driven directly
    fitter = quiet(Fitter, sc.filt_names, np.array(sc.ap_arcsec) * u.arcsec, sc.dir3, extinction_law=sc.ext,
                   av_range=(0., 4.), distance_range=[0.8, 1.6] * u.kpc)
    m = fitter.models
    check(np.array_equal(m.logd, np.log10(m.distances.to(u.kpc).value)), "logd is not log10 of the distances")
    check(np.array_equal(m.logd, m.logd) and m.logd.shape == (m.n_distances,), "logd unstable")
    fitter2 = quiet(Fitter, sc.filt_names, np.array(sc.ap_arcsec) * u.arcsec, sc.dir2, extinction_law=sc.ext,
                    av_range=(0., 4.), distance_range=[0.8, 1.6] * u.kpc)
    check(fitter2.models.logd is None and fitter2.models.distances is None, "logd set for a distance-independent package")
    check(Models().logd is None, "logd of an empty Models object")

    # a Models object built by hand (all public attributes), 3-d
    mm = Models()
    mm.names = np.array(sc.names)
    mm.distances = m.distances
    mm.wavelengths = m.wavelengths
    mm.fluxes = m.fluxes
    mm.logd = np.log10(mm.distances.to(u.kpc).value)
    for s in sc.sources:
        i1 = m.fit(s, fitter.av_law, fitter.sc_law, 0., 4.)
        i2 = mm.fit(s, fitter.av_law, fitter.sc_law, 0., 4.)
        check(info_bytes(i1) == info_bytes(i2), "hand-built Models object fits differently")

    # -- version 2 packages (flux cube + monochromatic 'filters'), with and
    #    without memory mapping; filters given as wavelengths
    cube_wav = list(np.logspace(-0.5, 2., 30))
    picks = [4, 11, 17, 26]
    wavs = [cube_wav[k] for k in picks]
    a = ref_av_law(wavs, sc.ext_wav, sc.ext_chi)
    rng = np.random.RandomState(11)
    val2 = 10. ** rng.uniform(-1., 2., (8, 1, 30))
    val3 = np.cumsum(10. ** rng.uniform(-1., 1., (8, 7, 30)), axis=1)
    d2 = os.path.join(root, 'v2_indep')
    d3 = os.path.join(root, 'v2_dep')
    os.mkdir(d2)
    os.mkdir(d3)
    quiet(build_package_v2, d2, sc.names, cube_wav, val2)
    quiet(build_package_v2, d3, sc.names, cube_wav, val3, apertures=sc.apertures_au)

    truth = val2[6, 0, picks] * 10. ** (1. * np.array(a) - 2. * -0.3)
    sources = [make_source('v2_a', np.array([1, 1, 1, 1]), truth * np.array([1.02, 0.97, 1.01, 1.05]), 0.08 * truth),
               make_source('v2_b', np.array([1, 2, 1, 3]), truth * np.array([1., 2., 1., 0.3]), np.array([0.1 * truth[0], 0.95, 0.1 * truth[2], 0.8])),
               make_source('v2_c', [1, 0, 1, 1], list(truth * 5.), list(truth))]

    for use_memmap in (True, False):
        for directory, val, dep in [(d2, val2, False), (d3, val3, True)]:

            def make_fitter_perm(perm, directory=directory, use_memmap=use_memmap):
                return quiet(Fitter, [wavs[p] * u.micron for p in perm], np.array([sc.ap_arcsec[p] for p in perm]) * u.arcsec,
                             directory, extinction_law=sc.ext, av_range=(0., 3.), distance_range=[0.8, 1.6] * u.kpc,
                             use_memmap=use_memmap)

            what = "version 2 %s memmap=%r" % (os.path.basename(directory), use_memmap)
            perms = [(0, 1, 2, 3), (3, 2, 1, 0), (1, 3, 0, 2), (2, 0, 3, 1)]
            base_res = check_filter_permutations(make_fitter_perm, sources, 4, what, perms=perms)
            tol = 2e-4  # the library keeps these fluxes in single precision
            if dep:
                mf = model_flux_dict(sc.names, val[:, :, picks])
                dgrid = ref_distance_grid(0.8, 1.6, 0.02)
                for s, res in zip(sources, base_res):
                    same_results(ref_fit_dependent(s, mf, sc.apertures_au, sc.ap_arcsec, a, 0., 3., dgrid), res, tol, tol,
                                 what + ": reference, source " + s.name)
            else:
                mf = model_flux_dict(sc.names, val[:, 0, picks])
                for s, res in zip(sources, base_res):
                    same_results(ref_fit_independent(s, mf, a, 0., 3.), res, tol, tol, what + ": reference, source " + s.name)
                fitter = make_fitter_perm((0, 1, 2, 3))
                for const in [1e-4, 0.25, 1e4]:
                    s = sources[0]
                    same_results(base_res[0], as_dict(fitter.fit(make_source(s.name, s.valid, s.flux * const, s.error * const))),
                                 1e-8, 1e-8, what + ": scaling", sc_shift=-0.5 * math.log10(const))
            check_history_independence(lambda: make_fitter_perm((0, 1, 2, 3)), sources, what, max_orders=2)


if __name__ == '__main__':
    np.seterr(all='ignore')
    root = tempfile.mkdtemp(prefix='demo_c11_')
    try:
        scenario = build_scenario(root)
        standard_checks(scenario, root)
        specific_checks(scenario, root)
    finally:
        shutil.rmtree(root, ignore_errors=True)
    print("demo OK: %i checks passed" % N_CHECKS[0])
    sys.exit(0)
