import sys, os
sys.path.insert(0, os.getcwd())

import io
import math
import pickle
import shutil
import tempfile
import contextlib

import numpy as np
from astropy import units as u
from astropy.io import fits as pyfits
from astropy.table import Table

import sedfitter
assert os.path.dirname(os.path.abspath(sedfitter.__file__)) == os.path.join(os.getcwd(), 'sedfitter'), sedfitter.__file__

from sedfitter.sed import SED, SEDCube
from sedfitter.filter import Filter
from sedfitter.extinction import Extinction
from sedfitter.convolve import convolve_model_dir
from sedfitter.fit import fit, Fitter
from sedfitter.source import Source
from sedfitter.write_parameters import write_parameters

N_MODELS = 7
N_AP = 9
FILTER_DEFS = [('alice', 3.0, (1., 5.)), ('bob', 12.0, (10., 15.)),
               ('eve', 20.0, (15., 25.)), ('zed', 60.0, (40., 90.))]
LOGD_STEP = 0.025

CHECKS = [0]


def check(cond, msg):
    CHECKS[0] += 1
    if not cond:
        print("DEMO FAILURE: " + msg, file=sys.__stdout__)
        sys.exit(1)


@contextlib.contextmanager
def quiet():
    buf = io.StringIO()
    with contextlib.redirect_stdout(buf):
        yield


# ----------------------------------------------------------------------------
# package construction (same recipe as the library's own pipeline test)
# ----------------------------------------------------------------------------

def make_package(version, aperture_dependent, seed, permutation=None):
    d = tempfile.mkdtemp(prefix='c08demo_')
    rng = np.random.RandomState(seed)
    names = ['model_{0:04d}'.format(i) for i in range(N_MODELS)]
    wav = np.logspace(-2., 3., 120) * u.micron
    if aperture_dependent:
        apertures = np.logspace(1., 6., N_AP) * u.au
        val = np.cumsum(0.2 + rng.random_sample((N_MODELS, N_AP, 120)), axis=1)
        # give every model its own colour so that no two are related by
        # reddening + scaling
        val *= (np.linspace(0.5, 2.0, 120)[None, None, :] ** rng.uniform(-2, 2, N_MODELS)[:, None, None])
    else:
        apertures = None
        val = 1. + rng.random_sample((N_MODELS, 1, 120))
        val *= (np.linspace(0.5, 2.0, 120)[None, None, :] ** rng.uniform(-2, 2, N_MODELS)[:, None, None])
    unc = val * 0.01 * rng.random_sample(val.shape)

    if version == 1:
        os.mkdir(os.path.join(d, 'seds'))
        for i in range(N_MODELS):
            sed = SED()
            sed.name = names[i]
            sed.distance = 1 * u.kpc
            sed.wav = wav
            sed.nu = sed.wav.to(u.Hz, equivalencies=u.spectral())
            sed.apertures = apertures
            sed.flux = val[i] * u.mJy
            sed.error = unc[i] * u.mJy
            sed.write(os.path.join(d, 'seds', sed.name + '_sed.fits'))
    else:
        cube = SEDCube()
        cube.names = np.array(names)
        cube.distance = 1 * u.kpc
        cube.wav = wav
        cube.apertures = apertures
        cube.val = val * u.mJy
        cube.unc = unc * u.mJy
        cube.write(os.path.join(d, 'flux.fits'))

    with open(os.path.join(d, 'models.conf'), 'w') as f:
        f.write("name = test\n")
        f.write("length_subdir = 0\n")
        f.write("aperture_dependent = {0}\n".format('yes' if aperture_dependent else 'no'))
        f.write("logd_step = {0}\n".format(LOGD_STEP))
        if version == 2:
            f.write("version = 2\n")

    t = Table()
    t['MODEL_NAME'] = np.array(names, dtype='S30' if version == 1 else 'S')
    t['par1'] = rng.random_sample(N_MODELS) * 10.
    t['par2'] = 10. ** rng.uniform(-3, 3, N_MODELS)
    if permutation is not None:
        t = t[list(permutation)]
    t.write(os.path.join(d, 'parameters.fits'))
    return d, names


def make_filters(seed):
    rng = np.random.RandomState(seed)
    filters = []
    for name, cen, (w1, w2) in FILTER_DEFS:
        f = Filter()
        f.name = name
        f.central_wavelength = cen * u.micron
        f.nu = (np.linspace(w2, w1, 60) * u.micron).to(u.Hz, equivalencies=u.spectral())
        f.response = 0.2 + rng.random_sample(60)
        f.normalize()
        filters.append(f)
    return filters


def make_extinction():
    e = Extinction()
    e.wav = np.logspace(-2., 3., 50) * u.micron
    e.chi = e.wav.value ** -2 * u.cm ** 2 / u.g
    return e


# ----------------------------------------------------------------------------
# independent computations (astropy.io.fits + plain python only)
# ----------------------------------------------------------------------------

def lin_interp(x, xs, ys):
    """Plain linear interpolation on an increasing grid (pure python)."""
    xs = [float(v) for v in xs]
    ys = [float(v) for v in ys]
    if x <= xs[0]:
        return ys[0] if x == xs[0] else None
    for k in range(1, len(xs)):
        if x <= xs[k]:
            t = (x - xs[k - 1]) / (xs[k] - xs[k - 1])
            return ys[k - 1] + t * (ys[k] - ys[k - 1])
    return None


def av_law_independent(cen_micron):
    xs = np.logspace(-2., 3., 50)
    ys = xs ** -2
    chi_v = lin_interp(0.55, xs, ys)
    return [-0.4 * lin_interp(w, xs, ys) / chi_v for w in cen_micron]


def read_convolved_independent(model_dir, filt_name):
    with pyfits.open(os.path.join(model_dir, 'convolved', filt_name + '.fits')) as h:
        names = [str(n).strip() for n in h['CONVOLVED FLUXES'].data['MODEL_NAME']]
        flux = np.array(h['CONVOLVED FLUXES'].data['TOTAL_FLUX'], dtype=float)
        if flux.ndim == 1:
            flux = flux[:, None]
        try:
            ap = np.array(h['APERTURES'].data['APERTURE'], dtype=float)
        except KeyError:
            ap = None
    return names, flux, ap


def distance_grid(dmin, dmax):
    if dmin == dmax:
        return [dmin]
    n = int(math.ceil(1 + (math.log10(dmax) - math.log10(dmin)) / LOGD_STEP))
    lo, hi = math.log10(dmin), math.log10(dmax)
    return [10. ** (lo + (hi - lo) * k / (n - 1)) for k in range(n)]


def synthesise(model_dir, filt_order, ap_arcsec, m_name, av0, aperture_dependent, d0_kpc=None, scale0=None):
    cen = dict((n, c) for n, c, _ in FILTER_DEFS)
    law = av_law_independent([cen[n] for n in filt_order])
    out = []
    for k, fn in enumerate(filt_order):
        names, flux, ap = read_convolved_independent(model_dir, fn)
        row = flux[names.index(m_name)]
        if aperture_dependent:
            ap_au = ap_arcsec[k] * d0_kpc * 1000.
            if ap_au > ap[-1]:
                ap_au = ap[-1]
            base = lin_interp(ap_au, ap, row) / d0_kpc ** 2
        else:
            base = row[0] * 10. ** (-2. * scale0)
        out.append(base * 10. ** (av0 * law[k]))
    return out


def data_line(name, fluxes, rel):
    """valid=1 points; the flux is pre-compensated for the (documented)
    -0.5 (sigma/F)^2 / ln 10 bias of the log-flux, so that the planted model
    fits exactly"""
    bias = 0.5 * rel ** 2 / math.log(10.)
    cols = [name, '0.0', '0.0'] + ['1'] * len(fluxes)
    for f in fluxes:
        fl = f * 10. ** bias
        cols += [repr(float(fl)), repr(float(fl * rel))]
    return ' '.join(cols)


def parameter_row_independent(model_dir, m_name):
    with pyfits.open(os.path.join(model_dir, 'parameters.fits')) as h:
        d = h[1].data
        names = [str(n).strip() for n in d['MODEL_NAME']]
        i = names.index(m_name)
        return ['%10.3e' % float(d['par1'][i]), '%10.3e' % float(d['par2'][i])]


def first_data_row(path):
    lines = open(path).read().split('\n')
    check(lines[2].startswith('-----'), 'header rule missing')
    src = lines[3].split()
    row = lines[4].split()
    return src, row


def first_record(path):
    with open(path, 'rb') as f:
        model_dir = pickle.load(f)
        filters = pickle.load(f)
        law = pickle.load(f)
        info = pickle.load(f)
    info.meta.model_dir = model_dir
    info.meta.filters = filters
    info.meta.extinction_law = law
    return model_dir, filters, info


# ----------------------------------------------------------------------------
# one full planted-model experiment
# ----------------------------------------------------------------------------

def run_case(version, aperture_dependent, seed, m_index, av0, rel, av_range,
             dist_range_kpc, d_index=None, scale0=None, permutation=None,
             data_as_handle=False, aperture_unit=u.arcsec, dist_unit=u.kpc,
             select=('N', 1), fits_input='file', label=''):

    model_dir, names = make_package(version, aperture_dependent, seed, permutation)
    try:
        filters = make_filters(seed + 1)
        with quiet():
            convolve_model_dir(model_dir, filters)
            # second call on the same files
            convolve_model_dir(model_dir, filters, overwrite=True)

        filt_order = ['bob', 'zed', 'alice', 'eve']
        ap_arcsec = [2., 4., 1., 3.]
        m_name = names[m_index]

        if aperture_dependent:
            grid = distance_grid(*dist_range_kpc)
            d0 = grid[d_index]
            expected_scale = math.log10(d0)
            fluxes = synthesise(model_dir, filt_order, ap_arcsec, m_name, av0, True, d0_kpc=d0)
        else:
            expected_scale = scale0
            fluxes = synthesise(model_dir, filt_order, ap_arcsec, m_name, av0, False, scale0=scale0)

        line = data_line('planted', fluxes, rel)
        data_file = os.path.join(model_dir, 'data.txt')
        with open(data_file, 'w') as f:
            f.write(line + '\n')

        apertures = (np.array(ap_arcsec) * u.arcsec).to(aperture_unit)
        distance_range = (np.array(dist_range_kpc) * u.kpc).to(dist_unit)
        ext = make_extinction()

        out1 = os.path.join(model_dir, 'out1.fitinfo')
        with quiet():
            if data_as_handle:
                with open(data_file) as handle:
                    fit(handle, filt_order, apertures, model_dir, out1,
                        extinction_law=ext, distance_range=distance_range,
                        av_range=av_range, output_format=('A', 0), output_convolved=True)
            else:
                fit(data_file, filt_order, apertures, model_dir, out1,
                    extinction_law=ext, distance_range=distance_range,
                    av_range=av_range, output_format=('A', 0), output_convolved=True)

        # --- first record of the fit output file
        md, flt, info = first_record(out1)
        check(md == model_dir, label + ': model_dir in output file')
        check([f['name'] for f in flt] == filt_order, label + ': filters in output file')
        check(str(info.model_name[0]).strip() == m_name, label + ': planted model not ranked first in the output file (%s)' % info.model_name[0])
        chi2 = np.asarray(info.chi2, float)
        check(len(chi2) == N_MODELS, label + ': all fits kept')
        check(np.all(np.diff(chi2) >= 0), label + ': chi2 sorted')
        check(chi2[0] < 1e-5, label + ': chi2 of planted model %g' % chi2[0])
        check(chi2[1] > 0.05 and chi2[1] > 1e3 * chi2[0], label + ': second best not separated (%g)' % chi2[1])
        check(abs(float(np.asarray(info.av, float)[0]) - av0) < 2e-4, label + ': av %r vs %r' % (info.av[0], av0))
        check(abs(float(np.asarray(info.sc, float)[0]) - expected_scale) < 2e-4, label + ': scale %r vs %r' % (info.sc[0], expected_scale))
        check(int(info.model_id[0]) == list(read_convolved_independent(model_dir, 'bob')[0]).index(m_name), label + ': model_id')
        # best-fit convolved model fluxes reproduce the planted photometry
        mf = np.asarray(info.model_fluxes, float)[0]
        bias = 0.5 * rel ** 2 / math.log(10.)
        check(np.allclose(mf, np.log10(fluxes), atol=2e-5, rtol=0), label + ': model_fluxes of best fit')
        check(info.source.name == 'planted' and int(info.source.n_data) == 4, label + ': source')

        # --- write_parameters, first data row (twice, and from several input forms)
        for rep in range(2):
            outp = os.path.join(model_dir, 'pars_%i.txt' % rep)
            with quiet():
                if fits_input == 'file' or rep == 0:
                    write_parameters(out1, outp, select_format=select)
                elif fits_input == 'object':
                    write_parameters(info, outp, select_format=select)
                else:
                    write_parameters([info], outp, select_format=select)
            src, row = first_data_row(outp)
            check(src[0] == 'planted' and src[1] == '4', label + ': source header line')
            check(row[0] == '1', label + ': fit_id')
            check(row[1] == m_name, label + ': first row is %s, planted %s' % (row[1], m_name))
            check(abs(float(row[2])) < 1e-3, label + ': chi2 column ' + row[2])
            check(abs(float(row[3]) - av0) <= 1.001e-3, label + ': av column %s vs %r' % (row[3], av0))
            check(abs(float(row[4]) - expected_scale) <= 1.001e-3, label + ': scale column %s vs %r' % (row[4], expected_scale))
            want = [w.strip() for w in parameter_row_independent(model_dir, m_name)]
            check(row[5:7] == want, label + ': parameter row %r vs %r' % (row[5:7], want))
        check(open(os.path.join(model_dir, 'pars_0.txt')).read().split('\n')[4] ==
              open(os.path.join(model_dir, 'pars_1.txt')).read().split('\n')[4], label + ': repeated write_parameters')

        # --- Fitter driven directly, twice on the same objects
        with quiet():
            fitter = Fitter(filt_order, apertures, model_dir, extinction_law=ext,
                            av_range=av_range, distance_range=distance_range,
                            use_memmap=False)
        src_obj = Source.from_ascii(line)
        res = []
        for rep in range(2):
            inf = fitter.fit(src_obj)
            res.append((str(inf.model_name[0]).strip(), float(np.asarray(inf.chi2, float)[0]),
                        float(np.asarray(inf.av, float)[0]), float(np.asarray(inf.sc, float)[0])))
            check(res[-1][0] == m_name, label + ': Fitter best model')
            check(res[-1][1] < 1e-8, label + ': Fitter chi2 (float64 path) %g' % res[-1][1])
            check(abs(res[-1][2] - av0) < 1e-6, label + ': Fitter av')
            check(abs(res[-1][3] - expected_scale) < 1e-6, label + ': Fitter scale')
        check(res[0] == res[1], label + ': second Fitter.fit call differs')
        return model_dir, fitter, src_obj, info
    finally:
        shutil.rmtree(model_dir, ignore_errors=True)


def standard_cases():
    # (version, aperture_dependent) = both formats x both fitting modes
    n = 0
    for version in (1, 2):
        for apdep in (False, True):
            seed = 100 * version + (7 if apdep else 3)
            perm = [3, 0, 6, 1, 5, 2, 4] if version == 1 else None
            if apdep:
                grid = distance_grid(0.5, 4.0)
                # interior grid distance, interior A_V
                run_case(version, True, seed, 2, 3.7, 0.05, [0., 10.], (0.5, 4.0), d_index=11,
                         permutation=perm, label='v%i-apdep-interior' % version)
                # boundary: nearest and farthest grid distance, A_V on the edges of the range
                run_case(version, True, seed + 1, 5, 0.0, 0.01, [0., 10.], (0.5, 4.0), d_index=0,
                         permutation=perm, data_as_handle=True, aperture_unit=u.arcmin,
                         dist_unit=u.pc, fits_input='object', label='v%i-apdep-dmin-avmin' % version)
                run_case(version, True, seed + 2, 0, 10.0, 0.2, [0., 10.], (0.5, 4.0), d_index=len(grid) - 1,
                         permutation=perm, select=('F', 3.), fits_input='list', label='v%i-apdep-dmax-avmax' % version)
                # single distance (dmin == dmax)
                run_case(version, True, seed + 3, 6, 1.25, 0.1, [0., 10.], (2.0, 2.0), d_index=0,
                         permutation=perm, label='v%i-apdep-single-distance' % version)
                n += 4
            else:
                run_case(version, False, seed, 4, 2.2, 0.03, [0., 30.], (1., 2.), scale0=0.4,
                         permutation=perm, label='v%i-apindep-interior' % version)
                run_case(version, False, seed + 1, 1, 0.0, 0.1, [0., 30.], (1., 2.), scale0=-1.3,
                         permutation=perm, data_as_handle=True, dist_unit=u.pc,
                         fits_input='list', label='v%i-apindep-avmin' % version)
                run_case(version, False, seed + 2, 6, 30.0, 0.01, [0., 30.], (1., 2.), scale0=2.0,
                         permutation=perm, select=('D', 5.), fits_input='object', label='v%i-apindep-avmax' % version)
                n += 3
    return n


# ----------------------------------------------------------------------------
# checks specific to this change: fitting_routines and Models.log_fluxes_mJy
# ----------------------------------------------------------------------------

def extra_checks():
    from sedfitter import fitting_routines as fr
    from sedfitter.models import Models

    rng = np.random.RandomState(7)

    def penalty(conf):
        return float('inf') if conf >= 1. else -2. * math.log(1. - conf)

    def brute_chi2(valid, data, error, weight, model):
        data = np.asarray(data, float)
        model = np.asarray(model, float)
        out = np.zeros(data.shape[:-1])
        for idx in np.ndindex(*data.shape[:-1]):
            terms = []
            for j in range(data.shape[-1]):
                d, m = float(data[idx + (j,)]), float(model[idx + (j,)])
                t = (d - m) ** 2 * float(weight[j])
                if valid[j] == 0:
                    t = 0.
                elif valid[j] == 2 and m < d:
                    t = penalty(float(error[j]))
                elif valid[j] == 3 and m > d:
                    t = penalty(float(error[j]))
                if math.isinf(t):
                    t = 1.e30
                terms.append(t)
            out[idx] = math.fsum(terms)
        return out

    for trial in range(12):
        n_wav = [3, 4, 6, 9][trial % 4]
        n_mod = [1, 5, 40][trial % 3]
        law1 = -0.4 * np.sort(rng.uniform(0.01, 1.5, n_wav))[::-1]
        law2 = -2. * np.ones(n_wav)
        weight = 1. / rng.uniform(0.01, 0.2, n_wav) ** 2
        if trial % 2:
            weight[rng.randint(n_wav)] = 0.          # a point that does not count
        truth_a = rng.uniform(0., 30., n_mod)
        truth_s = rng.uniform(-2., 2., n_mod)
        noise = rng.normal(0., 0.02 if trial >= 4 else 0., (n_mod, n_wav))
        data = truth_a[:, None] * law1 + truth_s[:, None] * law2 + noise
        if trial % 4 == 3:
            data = data.astype(np.float32)            # unusual but legal input precision
        label = 'regression-%i' % trial

        for rep in range(2):
            p1, p2 = fr.linear_regression(data, weight, law1, law2)
            # independent: least squares on sqrt(w)-scaled design matrix
            A = np.vstack([law1, law2]).T * np.sqrt(weight)[:, None]
            B = (np.asarray(data, float) * np.sqrt(weight)).T
            keep = weight > 0
            sol = np.linalg.lstsq(A[keep], B[keep], rcond=None)[0]
            tol = 1e-4 if data.dtype == np.float32 else 1e-8
            check(p1.shape == (n_mod,) and p2.shape == (n_mod,) and p1.dtype == np.float64, label + ': shapes')
            check(np.allclose(p1, sol[0], rtol=tol, atol=tol) and np.allclose(p2, sol[1], rtol=tol, atol=tol), label + ': lstsq')
            if trial < 4 and data.dtype != np.float32:
                check(np.allclose(p1, truth_a, rtol=0, atol=1e-9) and np.allclose(p2, truth_s, rtol=0, atol=1e-9), label + ': exact data recovered')
            s1 = fr.optimal_scaling(data, weight, law1)
            want = (np.asarray(data, float) * law1 * weight).sum(axis=1) / (law1 * law1 * weight).sum()
            check(np.allclose(s1, want, rtol=1e-6 if data.dtype == np.float32 else 1e-12, atol=0), label + ': optimal_scaling')
            s3 = fr.optimal_scaling(np.asarray(data, float).reshape(n_mod, 1, n_wav).repeat(3, axis=1), weight, law1)
            check(s3.shape == (n_mod, 3) and np.allclose(s3, want[:, None], rtol=1e-12, atol=0), label + ': optimal_scaling 3-d')

        # chi^2 with all kinds of points: used, unused, lower / upper limits, log fluxes, plot-only
        valid = np.array([1, 0, 2, 3, 4, 9, 1, 2, 3][:n_wav] if n_wav > 3 else [1, 2, 3], dtype=[int, np.int8, np.int64][trial % 3])
        error = rng.uniform(0.05, 0.3, n_wav)
        error[(valid == 2) | (valid == 3)] = rng.choice([0., 1e-9, 0.5, 0.9, 0.999, 1.], np.sum((valid == 2) | (valid == 3)))
        w = weight.copy()
        w[(valid != 1) & (valid != 4)] = 0.
        model = np.asarray(data, float) + rng.normal(0., 0.05, data.shape)
        model[0, :] = np.asarray(data, float)[0, :]           # boundary: model exactly on the data / on the limits
        d64 = np.asarray(data, float)
        for arrs, lab in (((d64, model), '2-d'), ((d64[:, None, :].repeat(2, axis=1), model[:, None, :].repeat(2, axis=1)), '3-d')):
            snap = (arrs[0].copy(), arrs[1].copy())
            r = [fr.chi_squared(valid, arrs[0], error, w, arrs[1]) for rep in range(2)]
            want = brute_chi2(valid, arrs[0], error, w, arrs[1])
            check(r[0].shape == want.shape, label + ': chi2 shape ' + lab)
            check(np.allclose(r[0], want, rtol=1e-12, atol=1e-14), label + ': chi2 values ' + lab)
            check(np.array_equal(r[0], r[1]), label + ': chi2 repeated ' + lab)
            check(np.array_equal(arrs[0], snap[0]) and np.array_equal(arrs[1], snap[1]), label + ': chi2 inputs untouched ' + lab)
            check(np.all(r[0][0] == 0.), label + ': model on the data gives chi2 = 0 ' + lab)
        try:
            fr.chi_squared(valid, d64[0], error, w, model[0])
            check(False, label + ': 1-d input accepted')
        except Exception as e:
            check(str(e) == 'Chi^2 array has unexpected number of dimensions: 1', label + ': message')

    # a model with a zero flux (log flux = -inf) is sent to the bottom but does not poison the others
    data = np.zeros((3, 4))
    model = np.zeros((3, 4))
    data[1, 2] = np.inf
    c = fr.chi_squared(np.array([1, 1, 1, 1]), data, np.full(4, 0.1), np.full(4, 100.), model)
    check(c[0] == 0. and c[2] == 0. and c[1] == 1.e30, 'infinite residual -> 1e30')
    data[1, 2] = np.nan
    c = fr.chi_squared(np.array([1, 1, 1, 1]), data, np.full(4, 0.1), np.full(4, 100.), model)
    check(c[0] == 0. and c[2] == 0. and np.isnan(c[1]), 'NaN stays NaN')

    # Models.log_fluxes_mJy: single / double precision, zeros, other units, 2-d and 3-d
    for dtype in (np.float64, np.float32):
        for shape in ((5, 3), (5, 4, 3)):
            for unit in (u.mJy, u.Jy):
                label = 'logflux-%s-%id-%s' % (np.dtype(dtype).name, len(shape), unit)
                m = Models()
                m.names = np.array(['m%i' % i for i in range(5)])
                m.wavelengths = [1., 2., 3.] * u.micron
                if len(shape) == 3:
                    m.distances = [1., 2., 3., 4.] * u.kpc
                vals = (10. ** rng.uniform(-6, 6, shape)).astype(dtype)
                vals[1, ..., 2] = 0.
                m.fluxes = vals * unit
                got = [m.log_fluxes_mJy for rep in range(2)]
                want = np.log10(vals.astype(np.float64) * (1000. if unit == u.Jy else 1.), where=vals != 0, out=np.full(shape, -np.inf))
                check(got[0].dtype == np.float64 and got[0].shape == shape, label + ': dtype/shape')
                check(np.array_equal(np.isneginf(got[0]), vals == 0), label + ': zeros')
                ok = vals != 0
                check(np.allclose(got[0][ok], want[ok], rtol=0, atol=5e-6 if dtype == np.float32 else 1e-13), label + ": values")
                check(np.array_equal(got[0], got[1]), label + ': repeated')
                check(m.fluxes.dtype == dtype and np.array_equal(m.fluxes.value, vals), label + ': fluxes untouched')
                check(np.array_equal(m.valid, vals != 0), label + ': valid')


if __name__ == '__main__':
    n = standard_cases()
    extra_checks()
    print("demo OK: %i planted-model pipelines, %i checks" % (n, CHECKS[0]))
