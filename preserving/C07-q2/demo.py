import sys, os; sys.path.insert(0, os.getcwd())
# Demonstration for property C07: convolved-flux files keep model identity,
# identically in both package formats.  Everything that is compared against
# the library is computed here independently (files are written/read with
# astropy.io.fits directly, the filter re-binning and the convolution are
# re-implemented below).

import shutil
import tempfile
import warnings

import numpy as np
from astropy import units as u
from astropy.io import fits
from astropy.table import Table

warnings.simplefilter('ignore')

import sedfitter
assert os.path.dirname(os.path.abspath(sedfitter.__file__)) == os.path.join(os.getcwd(), 'sedfitter'), sedfitter.__file__

from sedfitter.filter import Filter
from sedfitter.convolve import convolve_model_dir
from sedfitter.convolved_fluxes import ConvolvedFluxes
from sedfitter.extinction import Extinction
from sedfitter.source import Source
from sedfitter.fit import Fitter

C_UM_HZ = 299792458.e6  # micron * Hz

N_CHECKS = [0]


def check(cond, msg):
    N_CHECKS[0] += 1
    if not cond:
        print("DEMO FAILURE: " + msg)
        sys.exit(1)


def close(a, b, rtol=1e-9, atol=0.):
    a = np.asarray(a, float)
    b = np.asarray(b, float)
    return a.shape == b.shape and bool(np.allclose(a, b, rtol=rtol, atol=atol))


# ---------------------------------------------------------------- generation

def make_case(rng, n_models, n_ap, n_wav=41, long_names=False):
    """Random SEDs: dict with names, wav (increasing, micron), apertures (au),
    flux/err of shape (n_models, n_ap, n_wav) in mJy."""
    ids = rng.permutation(900)[:n_models] + 100
    if long_names:
        names = ['m{0:03d}_'.format(i).ljust(30, 'x') for i in ids]  # exactly 30 chars
    else:
        names = ['mod_{0:03d}_{1}'.format(i, 'abcdefgh'[k]) for k, i in enumerate(ids)]
    wav = np.logspace(-0.5, 2.5, n_wav)
    ap = np.logspace(2., 5., n_ap) if n_ap > 1 else np.array([1.e5])
    base = 10. ** rng.uniform(-1., 2., size=(n_models, 1, 1))
    shape = 1. + rng.random((n_models, n_ap, n_wav))
    flux = np.cumsum(base * shape, axis=1)
    err = flux * (0.01 + 0.05 * rng.random(flux.shape))
    return dict(names=names, wav=wav, ap=ap, flux=flux, err=err)


def write_sed_file(path, name, wav, ap, flux, err, reverse):
    """One SED file, written by hand. flux/err: (n_ap, n_wav), wav increasing.
    reverse=False: stored in increasing frequency; True: increasing wavelength"""
    nu = C_UM_HZ / wav
    if not reverse:
        sl = slice(None, None, -1)   # increasing frequency
    else:
        sl = slice(None)             # increasing wavelength
    h0 = fits.PrimaryHDU()
    h0.header['MODEL'] = name
    h0.header['DISTANCE'] = (1. * u.kpc).to(u.cm).value
    h0.header['NAP'] = len(ap)
    h0.header['NWAV'] = len(wav)
    h1 = fits.BinTableHDU.from_columns([
        fits.Column(name='WAVELENGTH', format='D', unit='um', array=wav[sl]),
        fits.Column(name='FREQUENCY', format='D', unit='Hz', array=nu[sl])], name='WAVELENGTHS')
    h2 = fits.BinTableHDU.from_columns([
        fits.Column(name='APERTURE', format='D', unit='AU', array=ap)], name='APERTURES')
    h3 = fits.BinTableHDU.from_columns([
        fits.Column(name='TOTAL_FLUX', format='%iD' % len(wav), unit='mJy', array=flux[:, sl]),
        fits.Column(name='TOTAL_FLUX_ERR', format='%iD' % len(wav), unit='mJy', array=err[:, sl])], name='SEDS')
    fits.HDUList([h0, h1, h2, h3]).writeto(path)


def write_conf(model_dir, aperture_dependent, version):
    with open(os.path.join(model_dir, 'models.conf'), 'w') as f:
        f.write("name = demo\n")
        f.write("length_subdir = 0\n")
        f.write("aperture_dependent = {0}\n".format('yes' if aperture_dependent else 'no'))
        f.write("logd_step = 0.05\n")
        if version == 2:
            f.write("version = 2\n")


def write_parameters(model_dir, names_in_table_order, rng):
    t = Table()
    t['MODEL_NAME'] = np.array(names_in_table_order, dtype='S30')
    t['par1'] = rng.random(len(names_in_table_order))
    t.write(os.path.join(model_dir, 'parameters.fits'))


def build_perfile(model_dir, case, table_order, rng, reverse, gz=False, subdirs=False):
    os.makedirs(os.path.join(model_dir, 'seds'))
    # files are created in yet another random order
    for k in rng.permutation(len(case['names'])):
        name = case['names'][k]
        d = os.path.join(model_dir, 'seds')
        if subdirs and k % 2 == 0:
            d = os.path.join(d, name[:5])
            os.makedirs(d, exist_ok=True)
        path = os.path.join(d, name.strip() + '_sed.fits' + ('.gz' if gz else ''))
        rev = reverse if reverse in (True, False) else bool(rng.integers(2))
        write_sed_file(path, name, case['wav'], case['ap'], case['flux'][k], case['err'][k], rev)
    write_conf(model_dir, len(case['ap']) > 1, 1)
    write_parameters(model_dir, [case['names'][i] for i in table_order], rng)


def build_cube(model_dir, case, table_order, rng, reverse, dtype=np.float64):
    os.makedirs(model_dir)
    names = [case['names'][i] for i in table_order]
    wav = case['wav']
    nu = C_UM_HZ / wav
    sl = slice(None) if reverse else slice(None, None, -1)
    val = case['flux'][table_order][:, :, sl].astype(dtype)
    unc = case['err'][table_order][:, :, sl].astype(dtype)
    h0 = fits.PrimaryHDU(data=np.ones(len(names), dtype=int))
    h0.header['DISTANCE'] = (1. * u.kpc).to(u.cm).value
    h0.header['NWAV'] = len(wav)
    h0.header['NAP'] = len(case['ap'])
    h1 = fits.BinTableHDU.from_columns([
        fits.Column(name='MODEL_NAME', format='30A', array=np.array(names, dtype='S30'))], name='MODEL_NAMES')
    h2 = fits.BinTableHDU.from_columns([
        fits.Column(name='WAVELENGTH', format='D', unit='um', array=wav[sl]),
        fits.Column(name='FREQUENCY', format='D', unit='Hz', array=nu[sl])], name='SPECTRAL_INFO')
    h3 = fits.BinTableHDU.from_columns([
        fits.Column(name='APERTURE', format='D', unit='AU', array=case['ap'])], name='APERTURES')
    h4 = fits.ImageHDU(val, name='VALUES')
    h4.header['BUNIT'] = 'mJy'
    h5 = fits.ImageHDU(unc, name='UNCERTAINTIES')
    h5.header['BUNIT'] = 'mJy'
    fits.HDUList([h0, h1, h2, h3, h4, h5]).writeto(os.path.join(model_dir, 'flux.fits'))
    write_conf(model_dir, len(case['ap']) > 1, 2)
    write_parameters(model_dir, names, rng)


def make_filters(rng, as_tuple=False):
    out = []
    for name, lo, hi, cw, n in [('alice', 1., 5., 3., 30), ('bob', 8., 15., 12., 17), ('eve', 15., 60., 20.5, 50)]:
        wav = np.linspace(hi, lo, n) if name != 'bob' else np.linspace(lo, hi, n)
        f = Filter()
        f.name = name
        f.central_wavelength = cw * u.micron
        f.nu = (C_UM_HZ / wav) * u.Hz
        f.response = 0.1 + rng.random(n)
        f.normalize()
        out.append(f)
    return tuple(out) if as_tuple else out


# ------------------------------------------------- independent reference maths

def ref_rebin(f_nu, f_resp, sed_nu):
    """Integral of the piecewise-linear filter response over the bins centred
    on the SED frequencies (bins limited to the filter's own range)."""
    o = np.argsort(f_nu)
    x = np.asarray(f_nu, float)[o]
    y = np.asarray(f_resp, float)[o]
    cum = np.concatenate([[0.], np.cumsum(0.5 * np.diff(x) * (y[1:] + y[:-1]))])

    def F(t):
        t = min(max(t, x[0]), x[-1])
        i = min(max(np.searchsorted(x, t, side='right') - 1, 0), len(x) - 2)
        yt = y[i] + (y[i + 1] - y[i]) * (t - x[i]) / (x[i + 1] - x[i])
        return cum[i] + 0.5 * (t - x[i]) * (y[i] + yt)

    s = np.sort(np.asarray(sed_nu, float))
    edges = np.concatenate([[s[0]], 0.5 * (s[1:] + s[:-1]), [s[-1]]])
    return s, np.array([F(edges[i + 1]) - F(edges[i]) for i in range(len(s))])


def ref_convolved(case, filt):
    """Expected flux/error (n_models, n_ap) in mJy, rows in case order"""
    nu_sorted, resp = ref_rebin(filt.nu.to(u.Hz).value, filt.response, C_UM_HZ / case['wav'])
    # case['wav'] increasing -> nu decreasing; nu_sorted increasing
    flux = case['flux'][:, :, ::-1]
    err = case['err'][:, :, ::-1]
    return np.sum(flux * resp, axis=2), np.sqrt(np.sum((err * resp) ** 2, axis=2))


def read_convolved_raw(path):
    """Read a convolved file with astropy.io.fits only"""
    with fits.open(path, memmap=False) as h:
        names = [str(x).strip() for x in np.char.decode(np.asarray(h['CONVOLVED FLUXES'].data['MODEL_NAME'], dtype='S'))] \
            if h['CONVOLVED FLUXES'].data['MODEL_NAME'].dtype.kind == 'S' else [str(x).strip() for x in h['CONVOLVED FLUXES'].data['MODEL_NAME']]
        flux = np.array(h['CONVOLVED FLUXES'].data['TOTAL_FLUX'], dtype=float)
        err = np.array(h['CONVOLVED FLUXES'].data['TOTAL_FLUX_ERR'], dtype=float)
        cols = h['CONVOLVED FLUXES'].columns
        units = (cols['TOTAL_FLUX'].unit, cols['TOTAL_FLUX_ERR'].unit)
        filtwav = h[0].header['FILTWAV']
        nmodels = h[0].header['NMODELS']
        nap = h[0].header['NAP']
        ap = np.array(h['APERTURES'].data['APERTURE'], dtype=float)
        ap_unit = h['APERTURES'].columns['APERTURE'].unit
    if flux.ndim == 1:
        flux = flux[:, None]
        err = err[:, None]
    return dict(names=names, flux=flux, err=err, units=units, filtwav=filtwav,
                ap=ap, ap_unit=ap_unit, nmodels=nmodels, nap=nap)


def check_package(model_dir, case, table_order, filters, label):
    """The convolved files of one package against the reference"""
    expected_names = [case['names'][i].strip() for i in table_order]
    out = {}
    for filt in filters:
        path = os.path.join(model_dir, 'convolved', filt.name + '.fits')
        check(os.path.exists(path), label + ": missing " + path)
        raw = read_convolved_raw(path)
        check(raw['names'] == expected_names, label + ": row order differs from the parameter table/cube order for " + filt.name)
        ef, ee = ref_convolved(case, filt)
        check(u.Unit(raw['units'][0]) == u.mJy and u.Unit(raw['units'][1]) == u.mJy, label + ": flux unit")
        check(close(raw['flux'], ef[table_order], rtol=1e-9), label + ": flux of row X is not the flux of SED X for " + filt.name)
        check(close(raw['err'], ee[table_order], rtol=1e-9), label + ": error of row X is not the error of SED X for " + filt.name)
        check(close(raw['filtwav'], filt.central_wavelength.to(u.micron).value, rtol=1e-12), label + ": FILTWAV")
        check(close((raw['ap'] * u.Unit(raw['ap_unit'])).to(u.au).value, case['ap'], rtol=1e-12), label + ": apertures not carried over")
        check(raw['nmodels'] == len(expected_names) and raw['nap'] == len(case['ap']), label + ": NMODELS/NAP")
        # the library's own reader must say the same thing
        c = ConvolvedFluxes.read(path)
        check([str(x).strip() for x in c.model_names] == expected_names, label + ": reader names")
        check(close(c.flux.to(u.mJy).value, raw['flux'], rtol=1e-14), label + ": reader flux")
        check(close(c.error.to(u.mJy).value, raw['err'], rtol=1e-14), label + ": reader error")
        check(close(c.apertures.to(u.au).value, case['ap'], rtol=1e-12), label + ": reader apertures")
        check(close(c.central_wavelength.to(u.micron).value, raw['filtwav'], rtol=1e-14), label + ": reader wavelength")
        check(c.n_models == len(expected_names) and c.n_ap == len(case['ap']), label + ": reader sizes")
        out[filt.name] = raw
    return out


def file_bytes(model_dir, filters):
    return [open(os.path.join(model_dir, 'convolved', f.name + '.fits'), 'rb').read() for f in filters]


def make_extinction():
    e = Extinction()
    e.wav = np.logspace(-2., 3.) * u.micron
    e.chi = e.wav.value ** -2 * u.cm ** 2 / u.g
    return e


def run_fit(model_dir, n_ap, source, use_memmap):
    fitter = Fitter(['bob', 'alice', 'eve'], [3., 3., 3.] * u.arcsec, model_dir,
                    extinction_law=make_extinction(), av_range=[0., 5.],
                    distance_range=[1., 2.] * u.kpc, use_memmap=use_memmap)
    info = fitter.fit(source)
    names = [str(x).strip() for x in info.model_name]
    return {n: (float(np.asarray(info.chi2, float)[i]), float(np.asarray(info.av, float)[i]),
                float(np.asarray(info.sc, float)[i])) for i, n in enumerate(names)}, names


def check_fits_agree(dirs_and_flags, case, rng, label):
    # source: close to one of the models so that the fit is meaningful
    k = int(rng.integers(len(case['names'])))
    s = Source()
    s.name = 'src'
    s.x = 0.
    s.y = 0.
    s.valid = np.array([1, 1, 1])
    base = case['flux'][k, -1, [20, 10, 30]] * (0.8 + 0.4 * rng.random(3))
    s.flux = base
    s.error = 0.1 * base
    results = []
    for d, mm in dirs_and_flags:
        res, names = run_fit(d, len(case['ap']), s, mm)
        check(sorted(names) == sorted(n.strip() for n in case['names']), label + ": fit does not list every model once")
        results.append(res)
    ref = results[0]
    for res in results[1:]:
        for n in ref:
            check(np.allclose(res[n], ref[n], rtol=2e-3, atol=2e-3), label + ": fits disagree for model " + n + " %r %r" % (res[n], ref[n]))


def run_scenario(rng, n_models, n_ap, reverse_pf, reverse_cube, tmp, tag, filters,
                 gz=False, subdirs=False, long_names=False, with_fits=True, convolve_pf=None, convolve_cube=None):
    case = make_case(rng, n_models, n_ap, long_names=long_names)
    table_order = rng.permutation(n_models)
    d1 = os.path.join(tmp, tag + '_pf')
    d2 = os.path.join(tmp, tag + '_cube')
    d3 = os.path.join(tmp, tag + '_cube_nomm')
    os.makedirs(d1)
    build_perfile(d1, case, table_order, rng, reverse_pf, gz=gz, subdirs=subdirs)
    build_cube(d2, case, table_order, rng, reverse_cube)
    build_cube(d3, case, table_order, rng, not reverse_cube)

    (convolve_pf or convolve_model_dir)(d1, filters)
    (convolve_cube or convolve_model_dir)(d2, filters, memmap=True)
    (convolve_cube or convolve_model_dir)(d3, filters, memmap=False)

    r1 = check_package(d1, case, table_order, filters, tag + " per-file")
    r2 = check_package(d2, case, table_order, filters, tag + " cube(memmap)")
    r3 = check_package(d3, case, table_order, filters, tag + " cube(no memmap)")
    for f in filters:
        for other in (r2, r3):
            check(r1[f.name]['names'] == other[f.name]['names'], tag + ": per-file and cube rows differ")
            check(close(r1[f.name]['flux'], other[f.name]['flux'], rtol=1e-10), tag + ": per-file and cube fluxes differ")
            check(close(r1[f.name]['err'], other[f.name]['err'], rtol=1e-10), tag + ": per-file and cube errors differ")

    # second call on the same packages: refused without overwrite, identical with
    before = [file_bytes(d, filters) for d in (d1, d2, d3)]
    for d in (d1, d2):
        try:
            convolve_model_dir(d, filters)
        except OSError:
            pass
        else:
            check(False, tag + ": existing output silently overwritten")
    convolve_model_dir(d1, filters, overwrite=True)
    convolve_model_dir(d2, filters, overwrite=True, memmap=False)
    convolve_model_dir(d3, filters, overwrite=True, memmap=True)
    after = [file_bytes(d, filters) for d in (d1, d2, d3)]
    check(before == after, tag + ": second convolution of the same package gives other files")

    if with_fits:
        check_fits_agree([(d1, True), (d1, False), (d2, True), (d2, False), (d3, True), (d3, False)], case, rng, tag)
    return case, table_order, (d1, d2, d3)


def standard_scenarios(rng, tmp, **kw):
    filters = make_filters(rng)
    out = []
    # boundary: a single model, a single aperture
    out.append(run_scenario(rng, 1, 1, False, False, tmp, 's1', filters, **kw))
    # boundary: 8 models, 5 apertures, 30-character names, SEDs stored by increasing wavelength, gz files
    out.append(run_scenario(rng, 8, 5, True, True, tmp, 's2', filters, long_names=True, gz=True, **kw))
    # mixed spectral order per file, sub-directories, filters given as a tuple
    out.append(run_scenario(rng, 5, 3, 'mixed', False, tmp, 's3', tuple(filters), subdirs=True, **kw))
    # several apertures but few models
    out.append(run_scenario(rng, 2, 2, False, True, tmp, 's4', filters, **kw))
    # many models, one aperture
    out.append(run_scenario(rng, 7, 1, True, False, tmp, 's5', filters, **kw))
    return filters, out


# ------------------------------------------------------------ specific to q2
# (ConvolvedFluxes.read / write without astropy tables)

def raw_file(path):
    """Everything in a convolved file, with astropy.io.fits only"""
    out = {}
    with fits.open(path, memmap=False) as h:
        out['ext'] = [x.name for x in h]
        out['filtwav'] = h[0].header.get('FILTWAV')
        out['nmodels'] = h[0].header.get('NMODELS')
        out['nap'] = h[0].header.get('NAP')
        t = h['CONVOLVED FLUXES']
        out['colnames'] = list(t.columns.names)
        out['names'] = [str(x) for x in t.data['MODEL_NAME']]
        out['flux'] = np.array(t.data['TOTAL_FLUX'], dtype=float)
        out['err'] = np.array(t.data['TOTAL_FLUX_ERR'], dtype=float)
        out['units'] = (t.columns['TOTAL_FLUX'].unit, t.columns['TOTAL_FLUX_ERR'].unit)
        if 'APERTURES' in out['ext']:
            out['ap'] = np.array(h['APERTURES'].data['APERTURE'], dtype=float)
            out['ap_unit'] = h['APERTURES'].columns['APERTURE'].unit
    return out


def direct_checks(rng, tmp):
    import pathlib
    k = 0
    for n_models, n_ap, dtype, unit, ap_unit, wav, with_ap in [
            (1, 1, 'f8', u.mJy, u.au, 3. * u.micron, True),         # boundary: 1 x 1
            (1, 1, 'f8', u.mJy, u.au, 3. * u.micron, False),        # no apertures at all
            (8, 5, 'f8', u.mJy, u.au, 0.35 * u.micron, True),       # boundary: 8 x 5
            (5, 3, 'f4', u.Jy, u.pc, 2.5e-3 * u.cm, True),          # other units, single precision
            (4, 2, '>f8', u.erg / u.cm ** 2 / u.s, u.au, None, True),  # no wavelength, big-endian input
            (3, 1, 'f8', u.mJy, u.cm, 850. * u.micron, True)]:
        names = ['model_{0:02d}'.format(i) for i in rng.permutation(50)[:n_models]]
        names[0] = names[0].ljust(30, 'z')      # a name using all 30 characters
        flux = rng.random((n_models, n_ap)).astype(dtype) + 0.5
        err = (0.1 * rng.random((n_models, n_ap))).astype(dtype)
        ap = (np.logspace(1., 3., n_ap)) * ap_unit if with_ap else None
        c = ConvolvedFluxes(wavelength=wav, model_names=np.array(names), apertures=ap,
                            flux=flux * unit, error=err * unit)
        p1 = os.path.join(tmp, 'direct_%i_a.fits' % k)
        p2 = pathlib.Path(tmp) / ('direct_%i_b.fits' % k)       # unusual but legal: a Path
        p3 = os.path.join(tmp, 'direct_%i_c.fits' % k)
        k += 1
        c.write(p1)
        c.write(p2)                                              # second call on the same object
        check(open(p1, 'rb').read() == open(p2, 'rb').read(), "direct: two writes of one object differ")
        try:
            c.write(p1)
        except OSError:
            pass
        else:
            check(False, "direct: existing file silently overwritten")
        c.write(p1, overwrite=True)
        check(open(p1, 'rb').read() == open(p2, 'rb').read(), "direct: overwrite gives another file")

        raw = raw_file(p1)
        check(raw['ext'] == ['PRIMARY', 'CONVOLVED FLUXES'] + (['APERTURES'] if with_ap else []), "direct: extensions")
        check(raw['colnames'] == ['MODEL_NAME', 'TOTAL_FLUX', 'TOTAL_FLUX_ERR'], "direct: columns")
        check(raw['names'] == names, "direct: row labels")
        check(raw['flux'].reshape(n_models, n_ap).tolist() == flux.astype(float).tolist(), "direct: row X does not hold flux X")
        check(raw['err'].reshape(n_models, n_ap).tolist() == err.astype(float).tolist(), "direct: row X does not hold error X")
        check(u.Unit(raw['units'][0]) == unit and u.Unit(raw['units'][1]) == unit, "direct: units")
        check(raw['nmodels'] == n_models and raw['nap'] == n_ap, "direct: NMODELS/NAP")
        if wav is None:
            check(raw['filtwav'] is None, "direct: FILTWAV invented")
        else:
            check(close(raw['filtwav'], wav.to(u.micron).value, rtol=1e-14), "direct: FILTWAV")
        if with_ap:
            check(raw['ap'].tolist() == ap.value.tolist() and u.Unit(raw['ap_unit']) == ap_unit, "direct: apertures")

        for path in (p1, p2, p1):                                # reading twice the same file
            r = ConvolvedFluxes.read(path)
            check([str(x) for x in r.model_names] == names, "direct: names read back")
            check(r.flux.unit == unit and r.error.unit == unit, "direct: unit read back")
            check(r.flux.value.astype(float).tolist() == flux.astype(float).tolist(), "direct: flux read back")
            check(r.error.value.astype(float).tolist() == err.astype(float).tolist(), "direct: error read back")
            check(r.flux.shape == (n_models, n_ap) and r.n_models == n_models and r.n_ap == n_ap, "direct: shape read back")
            if with_ap:
                check(r.apertures.unit == ap_unit and r.apertures.value.tolist() == ap.value.tolist(), "direct: apertures read back")
            else:
                check(r.apertures is None, "direct: apertures invented")
            if wav is None:
                check(r.central_wavelength is None, "direct: wavelength invented")
            else:
                check(close(r.central_wavelength.to(u.micron).value, wav.to(u.micron).value, rtol=1e-14), "direct: wavelength read back")
            check(r == c, "direct: == after a round trip")
        # what was read can be re-ordered and written again
        perm = rng.permutation(n_models)
        r.sort_to_match(np.array(names)[perm])
        r.write(p3)
        raw3 = raw_file(p3)
        check(raw3['names'] == [names[i] for i in perm], "direct: second generation rows")
        check(raw3['flux'].reshape(n_models, n_ap).tolist() == flux.astype(float)[perm].tolist(), "direct: second generation flux")
        check(raw3['err'].reshape(n_models, n_ap).tolist() == err.astype(float)[perm].tolist(), "direct: second generation error")
        if with_ap:
            check(raw3['ap'].tolist() == ap.value.tolist() and u.Unit(raw3['ap_unit']) == ap_unit, "direct: second generation apertures")

    # files made by something else: no units, one number per model, names padded with blanks
    names = np.array([b'abc'.ljust(30), b'de'.ljust(30), b' f'.ljust(30)])
    fl = rng.random(3)
    er = rng.random(3)
    hl = [fits.PrimaryHDU(),
          fits.BinTableHDU.from_columns([fits.Column(name='MODEL_NAME', format='30A', array=names),
                                         fits.Column(name='TOTAL_FLUX', format='E', array=fl),
                                         fits.Column(name='TOTAL_FLUX_ERR', format='E', array=er)], name='CONVOLVED FLUXES')]
    p = os.path.join(tmp, 'foreign1.fits')
    fits.HDUList(hl).writeto(p)
    r = ConvolvedFluxes.read(p)
    check([str(x) for x in r.model_names] == ['abc', 'de', ' f'], "foreign: names")
    check(r.flux.unit == u.mJy and r.error.unit == u.mJy and r.flux.shape == (3, 1), "foreign: default unit/shape")
    check(r.flux.value[:, 0].tolist() == fl.astype('f4').astype(float).tolist(), "foreign: flux")
    check(r.error.value[:, 0].tolist() == er.astype('f4').astype(float).tolist(), "foreign: error")
    check(r.apertures is None and r.central_wavelength is None, "foreign: apertures/wavelength invented")
    fl = rng.random((3, 4))
    er = rng.random((3, 4))
    hl = [fits.PrimaryHDU(),
          fits.BinTableHDU.from_columns([fits.Column(name='MODEL_NAME', format='30A', array=names),
                                         fits.Column(name='TOTAL_FLUX', format='4D', unit='Jy', array=fl),
                                         fits.Column(name='TOTAL_FLUX_ERR', format='4D', array=er)], name='CONVOLVED FLUXES'),
          fits.BinTableHDU.from_columns([fits.Column(name='APERTURE', format='D', array=np.arange(1., 5.))], name='APERTURES')]
    hl[0].header['FILTWAV'] = 4.5
    p = os.path.join(tmp, 'foreign2.fits')
    fits.HDUList(hl).writeto(p)
    r = ConvolvedFluxes.read(p)
    check(r.flux.unit == u.Jy and r.error.unit == u.mJy and r.apertures.unit == u.au, "foreign2: units")
    check(r.flux.value.tolist() == fl.tolist() and r.error.value.tolist() == er.tolist(), "foreign2: values")
    check(r.apertures.value.tolist() == [1., 2., 3., 4.] and r.central_wavelength == 4.5 * u.micron, "foreign2: apertures/wavelength")
    # refused: one number per model but several apertures; a flux in km
    hl[1] = fits.BinTableHDU.from_columns([fits.Column(name='MODEL_NAME', format='30A', array=names),
                                           fits.Column(name='TOTAL_FLUX', format='D', array=fl[:, 0]),
                                           fits.Column(name='TOTAL_FLUX_ERR', format='D', array=er[:, 0])], name='CONVOLVED FLUXES')
    p = os.path.join(tmp, 'refused1.fits')
    fits.HDUList(hl).writeto(p)
    try:
        ConvolvedFluxes.read(p)
    except TypeError:
        pass
    else:
        check(False, "refused1 accepted")
    hl[1] = fits.BinTableHDU.from_columns([fits.Column(name='MODEL_NAME', format='30A', array=names),
                                           fits.Column(name='TOTAL_FLUX', format='4D', unit='km', array=fl),
                                           fits.Column(name='TOTAL_FLUX_ERR', format='4D', array=er)], name='CONVOLVED FLUXES')
    p = os.path.join(tmp, 'refused2.fits')
    fits.HDUList(hl).writeto(p)
    try:
        ConvolvedFluxes.read(p)
    except TypeError:
        pass
    else:
        check(False, "refused2 accepted")


def main():
    tmp = tempfile.mkdtemp()
    try:
        rng = np.random.default_rng(424242)
        direct_checks(rng, tmp)
        # the whole property on the standard set of packages
        filters, scen = standard_scenarios(rng, tmp)
        # a convolved file that is read, written again and used in place of the original gives the same fit
        case, order, (d1, d2, d3) = scen[2]
        for f in filters:
            p = os.path.join(d1, 'convolved', f.name + '.fits')
            c = ConvolvedFluxes.read(p)
            c.write(p, overwrite=True)
        check_package(d1, case, order, filters, "rewritten per-file package")
        check_fits_agree([(d2, False), (d1, True), (d1, False)], case, rng, "rewritten per-file package")
    finally:
        shutil.rmtree(tmp, ignore_errors=True)
    print("demo q2 OK (%i checks)" % N_CHECKS[0])


if __name__ == '__main__':
    main()
