"""
Demonstration that property C03 ("data flags mean what the data-format page
says") holds.  Run as:  cd /tmp/wtP_C03 && /venv/bin/python _out/p<i>/demo.py

The fits produced by sedfitter.models.Models.fit are compared
 (1) with an independent, loop-based re-implementation of the documented
     fitting procedure (weighted least squares on flags 1/4 only, limit
     penalties of -2 ln(1 - confidence) on the forbidden side, 1e30 for
     confidence 1), and
 (2) pairwise: sources that differ only in ignored / equivalent content must
     give identical fits.
All flag vectors in {0,1,2,3,4,9}^n, n <= 5, are enumerated.
"""
import sys, os
sys.path.insert(0, os.getcwd())

import copy
import itertools
import pickle
import warnings

import numpy as np

warnings.simplefilter('ignore')
np.seterr(all='ignore')

from astropy import units as u

import sedfitter
assert os.path.dirname(os.path.abspath(sedfitter.__file__)) == os.path.join(os.getcwd(), 'sedfitter'), sedfitter.__file__

from sedfitter.models import Models
from sedfitter.source import Source
from sedfitter import fitting_routines

LN10 = np.log(10.)
FLAGS = (0, 1, 2, 3, 4, 9)
N_CHECKS = [0]


def check(cond, msg):
    N_CHECKS[0] += 1
    if not cond:
        print("FAILED: " + msg)
        sys.exit(1)


# ----------------------------------------------------------------------------
# Model grids
# ----------------------------------------------------------------------------

def make_models(rng, n_models, n_wav, n_dist=None, extended=False):
    m = Models()
    m.names = np.array(['model_%03d' % i for i in range(n_models)])
    m.wavelengths = np.sort(rng.uniform(0.5, 100., n_wav)) * u.micron
    if n_dist is None:
        m.fluxes = 10. ** rng.uniform(-1., 2., (n_models, n_wav)) * u.mJy
    else:
        m.distances = np.logspace(0., 0.6, n_dist) * u.kpc
        m.logd = np.log10(m.distances.to(u.kpc).value)
        base = 10. ** rng.uniform(-1., 2., (n_models, 1, n_wav))
        ap = rng.uniform(0.5, 1.5, (n_models, n_dist, n_wav))
        d2 = (m.distances.to(u.kpc).value ** 2)[None, :, None]
        m.fluxes = base * ap / d2 * u.mJy
        if extended:
            m.extended = rng.random((n_models, n_dist, n_wav)) < 0.08
    av_law = -0.4 * rng.uniform(0.05, 1.5, n_wav)
    sc_law = -2. * np.ones(n_wav)
    return m, av_law, sc_law


def logmod(m):
    return np.log10(np.asarray(m.fluxes.to(u.mJy).value, dtype=float))


# ----------------------------------------------------------------------------
# Sources
# ----------------------------------------------------------------------------

def make_source(valid, flux, error, name='src'):
    s = Source()
    s.name = name
    s.x = 1.5
    s.y = -2.5
    s.valid = np.array(valid)
    s.flux = np.array(flux)
    s.error = np.array(error)
    return s


def random_photometry(rng, flags, typical):
    """Random photometry appropriate for each flag; confidences in {0,(0,1),1}"""
    n = len(flags)
    flux = np.zeros(n)
    error = np.zeros(n)
    for j, v in enumerate(flags):
        f = typical[j] * 10. ** rng.uniform(-0.5, 0.5)
        if v in (0, 1, 9):
            flux[j] = f
            error[j] = f * rng.uniform(0.03, 0.3)
        elif v in (2, 3):
            flux[j] = f
            error[j] = [0., rng.uniform(0.01, 0.99), 1.][rng.integers(3)]
        elif v == 4:
            flux[j] = np.log10(f)
            error[j] = rng.uniform(0.02, 0.15)
    return flux, error


def info_dict(info):
    """Fit results per model name (the FitInfo is sorted by chi^2)"""
    av = np.asarray(info.av, dtype=float)
    sc = np.asarray(info.sc, dtype=float)
    c2 = np.asarray(info.chi2, dtype=float)
    return {str(n): (av[i], sc[i], c2[i]) for i, n in enumerate(info.model_name)}


def same_info(a, b, rtol=0.):
    for key in ('av', 'sc', 'chi2'):
        x = np.asarray(getattr(a, key), dtype=float)
        y = np.asarray(getattr(b, key), dtype=float)
        if x.shape != y.shape:
            return False
        if rtol == 0.:
            if not np.array_equal(x, y, equal_nan=True):
                return False
        else:
            if not np.allclose(x, y, rtol=rtol, atol=1e-12, equal_nan=True):
                return False
    if rtol == 0.:
        return bool(np.all(a.model_name == b.model_name)) and bool(np.all(a.model_id == b.model_id))
    else:
        # order can legitimately differ for (near-)ties; compare per model
        da, db = info_dict(a), info_dict(b)
        for n in da:
            if not np.allclose(da[n], db[n], rtol=rtol, atol=1e-12, equal_nan=True):
                return False
        return True


# ----------------------------------------------------------------------------
# Independent reference implementation
# ----------------------------------------------------------------------------

def ref_obs(valid, flux, error):
    """log10 flux, log10 error for the points that enter the least squares,
    log10 limit and confidence for limits"""
    y = {}
    s = {}
    lim = {}
    for j, v in enumerate(valid):
        if v == 1:
            y[j] = np.log10(float(flux[j])) - 0.5 * (float(error[j]) / float(flux[j])) ** 2 / LN10
            s[j] = abs(float(error[j]) / float(flux[j])) / LN10
        elif v == 4:
            y[j] = float(flux[j])
            s[j] = float(error[j])
        elif v in (2, 3):
            lim[j] = (int(v), np.log10(float(flux[j])), float(error[j]))
    return y, s, lim


def ref_chi2(fitted, y, s, lim):
    """chi^2 of one fitted model (log10 fluxes in all bands); also returns
    whether a limit is violated and whether a limit is too close to call"""
    c2 = 0.
    for j in y:
        c2 += ((y[j] - fitted[j]) / s[j]) ** 2
    violated = False
    ambiguous = False
    for j, (kind, l, conf) in lim.items():
        if abs(fitted[j] - l) < 1e-9:
            ambiguous = True
        bad = fitted[j] < l if kind == 2 else fitted[j] > l
        if bad:
            if conf > 0.:
                violated = True
            if conf >= 1.:
                c2 += 1.e30
            else:
                c2 += -2. * np.log(1. - conf)
    return c2, violated, ambiguous


def ref_fit_2d(valid, flux, error, lm, av_law, sc_law, av_min, av_max):
    y, s, lim = ref_obs(valid, flux, error)
    used = sorted(y)
    out = {}
    if len(used) < 2:
        return None
    for i in range(lm.shape[0]):
        A = np.array([[av_law[j] / s[j], sc_law[j] / s[j]] for j in used])
        b = np.array([(y[j] - lm[i, j]) / s[j] for j in used])
        sol, res, rank, sv = np.linalg.lstsq(A, b, rcond=None)
        if rank < 2 or sv[-1] / sv[0] < 1e-7:
            return None
        av, sc = sol
        if av < av_min or av > av_max:
            av = av_min if av < av_min else av_max
            num = sum((y[j] - lm[i, j] - av * av_law[j]) * sc_law[j] / s[j] ** 2 for j in used)
            den = sum(sc_law[j] ** 2 / s[j] ** 2 for j in used)
            sc = num / den
        fitted = lm[i] + av * av_law + sc * sc_law
        c2, violated, ambiguous = ref_chi2(fitted, y, s, lim)
        out[i] = (av, sc, c2, violated, ambiguous)
    return out


def ref_fit_3d(valid, flux, error, lm, av_law, logd, extended, av_min, av_max):
    y, s, lim = ref_obs(valid, flux, error)
    used = sorted(y)
    if len(used) < 1:
        return None
    present = [j for j, v in enumerate(valid) if v > 0]
    out = {}
    for i in range(lm.shape[0]):
        per_d = []
        for k in range(lm.shape[1]):
            num = sum((y[j] - lm[i, k, j]) * av_law[j] / s[j] ** 2 for j in used)
            den = sum(av_law[j] ** 2 / s[j] ** 2 for j in used)
            av = min(max(num / den, av_min), av_max)
            fitted = lm[i, k] + av * av_law
            c2, violated, ambiguous = ref_chi2(fitted, y, s, lim)
            if extended is not None and any(extended[i, k, j] for j in present):
                c2 = np.inf
            per_d.append((av, logd[k], c2, violated, ambiguous))
        out[i] = per_d
    return out


def compare_2d(info, ref, names, label):
    d = info_dict(info)
    for i, n in enumerate(names):
        av, sc, c2 = d[str(n)]
        rav, rsc, rc2, violated, ambiguous = ref[i]
        check(np.isclose(av, rav, rtol=1e-7, atol=1e-8), "%s: av %r != %r" % (label, av, rav))
        check(np.isclose(sc, rsc, rtol=1e-7, atol=1e-8), "%s: sc %r != %r" % (label, sc, rsc))
        if not ambiguous:
            check(np.isclose(c2, rc2, rtol=1e-6, atol=1e-7), "%s: chi2 %r != %r" % (label, c2, rc2))


def compare_3d(info, ref, names, logd, label):
    d = info_dict(info)
    for i, n in enumerate(names):
        av, sc, c2 = d[str(n)]
        per_d = ref[i]
        if any(p[4] for p in per_d):
            continue
        best = min(p[2] for p in per_d)
        if np.isinf(best):
            check(np.isinf(c2), "%s: chi2 should be inf, is %r" % (label, c2))
            continue
        check(np.isclose(c2, best, rtol=1e-6, atol=1e-7), "%s: chi2 %r != %r" % (label, c2, best))
        k = int(np.argmin(np.abs(logd - sc)))
        check(abs(logd[k] - sc) < 1e-12, "%s: scale %r is not a grid distance" % (label, sc))
        check(np.isclose(per_d[k][2], best, rtol=1e-6, atol=1e-7), "%s: distance chosen is not optimal" % label)
        check(np.isclose(av, per_d[k][0], rtol=1e-7, atol=1e-8), "%s: av %r != %r" % (label, av, per_d[k][0]))


# ----------------------------------------------------------------------------
# The property, for one flag vector and one model grid
# ----------------------------------------------------------------------------

WILD = [-999., 0., np.nan, 1.e300, -1.e-30, np.inf, 12345.678]


def check_property(rng, flags, grid, mode, with_reference, label):

    m, av_law, sc_law = grid
    n = len(flags)
    lm = logmod(m)
    typical = 10. ** np.median(lm.reshape(-1, n), axis=0)
    flags = np.array(flags)
    flux, error = random_photometry(rng, flags, typical)
    av_min, av_max = (0., 3.) if rng.random() < 0.7 else (0.5, 0.6)

    def fit(s):
        return m.fit(s, av_law, sc_law, av_min, av_max)

    s0 = make_source(flags, flux, error)
    info0 = fit(s0)

    n_used = int(np.sum((flags == 1) | (flags == 4)))
    # With fewer data points than free parameters the fit is undetermined
    # (av and scale are NaN / arbitrary): only check there that ignored
    # content stays ignored.
    determined = n_used >= (2 if mode == '2d' else 1)
    check(int(s0.n_data) == n_used, "%s: n_data %r != %r" % (label, s0.n_data, n_used))
    check(info0.source is s0, "%s: info.source is not the source fitted" % label)
    check(len(info0.chi2) == len(m.names), "%s: number of fits" % label)

    # second call on the same objects gives the same answer
    check(same_info(info0, fit(s0)), "%s: second fit of the same Source differs" % label)

    # (1) points flagged 0 or 9 never influence the fit, whatever they carry
    ign = (flags == 0) | (flags == 9)
    if ign.any():
        f1, e1 = flux.copy(), error.copy()
        f1[ign] = rng.choice(WILD, ign.sum())
        e1[ign] = rng.choice(WILD, ign.sum())
        s1 = make_source(flags, f1, e1)
        info1 = fit(s1)
        check(same_info(info0, info1), "%s: content of ignored points changes the fit" % label)
        check(int(s1.n_data) == n_used, "%s: n_data changed by ignored content" % label)
        # a plot-only point is equivalent to an unused one
        # (not in 3-D mode with an 'extended' mask, which looks at valid > 0)
        if determined and (mode == '2d' or not isinstance(m.extended, np.ndarray)):
            fl = flags.copy()
            fl[flags == 9] = 0
            check(same_info(info0, fit(make_source(fl, flux, error))), "%s: flag 9 not equivalent to flag 0" % label)

    # (2) limits
    is_lim = (flags == 2) | (flags == 3)
    if is_lim.any() and determined:

        # confidence 0 is equivalent to flag 0
        e0 = error.copy()
        e0[is_lim] = 0.
        fl = flags.copy()
        fl[is_lim] = 0
        info_c0 = fit(make_source(flags, flux, e0))
        info_f0 = fit(make_source(fl, flux, e0))
        if mode == '2d' or not isinstance(m.extended, np.ndarray):
            check(same_info(info_c0, info_f0, rtol=1e-13), "%s: confidence 0 not equivalent to flag 0" % label)

        # a limit never enters the least-squares solution: in 2-D mode av and
        # scale do not depend on the limits at all
        if mode == '2d':
            d0, dn = info_dict(info0), info_dict(info_f0)
            for name in d0:
                check(np.array_equal(d0[name][:2], dn[name][:2], equal_nan=True),
                      "%s: a limit changed the least-squares solution" % label)
                if np.isfinite(dn[name][2]):
                    check(d0[name][2] >= dn[name][2] - 1e-9 * abs(dn[name][2]), "%s: limit reduced chi2" % label)

        # confidence 1: violating models get chi2 >= 1e30, others unchanged
        e1 = error.copy()
        e1[is_lim] = 1.
        info_c1 = fit(make_source(flags, flux, e1))
        if mode == '2d':
            d1, dn = info_dict(info_c1), info_dict(info_f0)
            for name in d1:
                if np.isfinite(dn[name][2]):
                    check(d1[name][2] >= 1e30 or np.isclose(d1[name][2], dn[name][2], rtol=1e-12, atol=1e-300),
                          "%s: confidence-1 limit gives %r (without limit %r)" % (label, d1[name][2], dn[name][2]))
    else:
        e1 = None
        info_c1 = None

    # (3) flag 4 carrying the transformed values is equivalent to flag 1
    is1 = flags == 1
    if is1.any():
        f4, e4, fl = flux.copy(), error.copy(), flags.copy()
        f4[is1] = np.log10(flux[is1]) - 0.5 * (error[is1] / flux[is1]) ** 2 / LN10
        e4[is1] = np.abs(error[is1] / flux[is1]) / LN10
        fl[is1] = 4
        s4 = make_source(fl, f4, e4)
        check(same_info(info0, fit(s4), rtol=1e-9), "%s: flag 4 with transformed values differs from flag 1" % label)
        check(int(s4.n_data) == n_used, "%s: n_data differs for flag 4" % label)

    # (4) independent computation
    if with_reference:
        ext = m.extended if isinstance(m.extended, np.ndarray) else None
        for err_vec, info in ((error, info0), (e1, info_c1)):
            if err_vec is None:
                continue
            if mode == '2d':
                ref = ref_fit_2d(flags, flux, err_vec, lm, av_law, sc_law, av_min, av_max)
                if ref is not None:
                    compare_2d(info, ref, m.names, label)
                    if err_vec is e1:
                        d = info_dict(info)
                        for i, name in enumerate(m.names):
                            if not ref[i][4]:
                                check((d[str(name)][2] >= 1e30) == ref[i][3],
                                      "%s: chi2 >= 1e30 iff a confidence-1 limit is violated" % label)
            else:
                ref = ref_fit_3d(flags, flux, err_vec, lm, av_law, m.logd, ext, av_min, av_max)
                if ref is not None:
                    compare_3d(info, ref, m.names, m.logd, label)

    return s0, info0


# ----------------------------------------------------------------------------
# Main
# ----------------------------------------------------------------------------

def main():

    rng = np.random.default_rng(20260927)

    # exhaustive enumeration of the flag vectors
    n_vec = 0
    for n in range(1, 6):
        grids = {'2d': make_models(rng, 6, n),
                 '3d': make_models(rng, 5, n, n_dist=4, extended=False),
                 '3dx': make_models(rng, 5, n, n_dist=4, extended=True)}
        for iv, flags in enumerate(itertools.product(FLAGS, repeat=n)):
            n_vec += 1
            with_reference = n <= 3 or iv % 7 == 0
            for mode in ('2d', '3d'):
                key = mode if mode == '2d' or iv % 2 == 0 else '3dx'
                check_property(rng, flags, grids[key], mode, with_reference,
                               "n=%i flags=%s mode=%s" % (n, flags, key))
    print("flag vectors enumerated:", n_vec)

    # ------------------------------------------------------------------
    # Same objects used again, after legal modifications of the Source
    # ------------------------------------------------------------------
    grid = make_models(rng, 7, 5)
    m, av_law, sc_law = grid
    lm = logmod(m)
    typical = 10. ** np.median(lm, axis=0)
    flags = np.array([1, 3, 4, 9, 2])
    flux, error = random_photometry(rng, flags, typical)
    error[1] = 0.7
    error[4] = 1.0
    s = make_source(flags, flux, error)
    first = m.fit(s, av_law, sc_law, 0., 5.)
    check(same_info(first, m.fit(s, av_law, sc_law, 0., 5.)), "repeat fit")

    # in-place modification of the arrays held by the source
    s.flux[0] = s.flux[0] * 3.
    fresh = make_source(s.valid.copy(), s.flux.copy(), s.error.copy())
    check(same_info(m.fit(s, av_law, sc_law, 0., 5.), m.fit(fresh, av_law, sc_law, 0., 5.)), "in-place flux change not seen")
    check(not same_info(first, m.fit(s, av_law, sc_law, 0., 5.)), "used flux has no influence")
    s.error[2] = s.error[2] * 0.5
    fresh = make_source(s.valid.copy(), s.flux.copy(), s.error.copy())
    check(same_info(m.fit(s, av_law, sc_law, 0., 5.), m.fit(fresh, av_law, sc_law, 0., 5.)), "in-place error change not seen")
    s.valid[0] = 0
    check(int(s.n_data) == 1, "n_data after in-place flag change")
    fresh = make_source(s.valid.copy(), s.flux.copy(), s.error.copy())
    check(same_info(m.fit(s, av_law, sc_law, 0., 5.), m.fit(fresh, av_law, sc_law, 0., 5.)), "in-place flag change not seen")
    s.valid[0] = 1
    # replacement through the setters
    s.valid = [1, 1, 4, 0, 3]
    s.error = tuple(np.where(np.array([1, 1, 4, 0, 3]) == 1, 0.1 * s.flux, s.error))
    s.flux = list(s.flux)
    check(int(s.n_data) == 3, "n_data after setters")
    fresh = make_source(s.valid.copy(), s.flux.copy(), s.error.copy())
    a = m.fit(s, av_law, sc_law, 0., 5.)
    check(same_info(a, m.fit(fresh, av_law, sc_law, 0., 5.)), "setter change not seen")
    ref = ref_fit_2d(s.valid, s.flux, s.error, lm, av_law, sc_law, 0., 5.)
    compare_2d(a, ref, m.names, "after setters")

    # get_log_fluxes: results are the documented transformation, are fresh
    # arrays on every call, and follow every change of the source
    def check_log_fluxes(src, label):
        w, lf, le = src.get_log_fluxes()
        y, sg, lim = ref_obs(src.valid, src.flux, src.error)
        for j, v in enumerate(src.valid):
            if v in (1, 4):
                check(np.isclose(lf[j], y[j], rtol=1e-13) and np.isclose(le[j], sg[j], rtol=1e-13)
                      and np.isclose(w[j], 1. / sg[j] ** 2, rtol=1e-12), label + ": log flux of a data point")
            else:
                check(w[j] == 0., label + ": weight of a point that is not a data point")
            if v in (2, 3):
                check(np.isclose(lf[j], lim[j][1], rtol=1e-13) and le[j] == lim[j][2], label + ": limit")
        return w, lf, le
    for src in (s, fresh):
        w, lf, le = check_log_fluxes(src, "get_log_fluxes")
        w[:] = 7.
        lf[:] = 123.
        le[:] = -1.
        check_log_fluxes(src, "get_log_fluxes after the caller modified the result")
        src.flux[1] *= 1.5
        check_log_fluxes(src, "get_log_fluxes after in-place flux change")
        src.flux[1] /= 1.5
        src.valid[4], src.error[4] = 2, 0.25
        check_log_fluxes(src, "get_log_fluxes after in-place flag change")
        src.valid[4], src.error[4] = 3, 1.0
        check_log_fluxes(src, "get_log_fluxes after restoring")
        src.flux = src.flux.astype(np.float32).astype(np.float64)
        check_log_fluxes(src, "get_log_fluxes after new flux array")
    a = m.fit(s, av_law, sc_law, 0., 5.)
    check(same_info(a, m.fit(fresh, av_law, sc_law, 0., 5.)), "fits after get_log_fluxes exercise")
    compare_2d(a, ref_fit_2d(s.valid, s.flux, s.error, lm, av_law, sc_law, 0., 5.), m.names, "after exercise")

    # pickled / copied sources and results
    s2 = pickle.loads(pickle.dumps(s, 2))
    check(s2 == s, "pickled source differs")
    check(same_info(a, m.fit(s2, av_law, sc_law, 0., 5.)), "pickled source fits differently")
    s3 = copy.copy(s)
    s4 = copy.deepcopy(s)
    check(same_info(a, m.fit(s3, av_law, sc_law, 0., 5.)), "copied source fits differently")
    s4.flux[0] *= 1.7
    check(same_info(a, m.fit(s, av_law, sc_law, 0., 5.)), "deep copy shares state with the original")
    check(not same_info(a, m.fit(s4, av_law, sc_law, 0., 5.)), "deep copy modification not seen")
    a2 = pickle.loads(pickle.dumps(a, 2))
    check(same_info(a, a2) and a2.source == s, "pickled FitInfo differs")
    d = Source.from_dict(s.to_dict())
    check(d == s and same_info(a, m.fit(d, av_law, sc_law, 0., 5.)), "from_dict/to_dict")

    # ------------------------------------------------------------------
    # Unusual but legal input forms
    # ------------------------------------------------------------------
    # whole-number photometry (integer arrays), float-typed flags, lists
    si = Source()
    si.name = 'ints'
    si.valid = np.array([1., 1., 9., 3., 1.])
    si.flux = np.array([30, 12, -999, 40, 7])
    si.error = np.array([3, 2, -999, 1, 1])
    sf = make_source([1, 1, 9, 3, 1], [30., 12., 5., 40., 7.], [3., 2., 1., 1., 1.])
    ai = m.fit(si, av_law, sc_law, 0., 5.)
    check(same_info(ai, m.fit(sf, av_law, sc_law, 0., 5.)), "integer photometry")
    check(int(si.n_data) == 3, "n_data with float-typed flags")
    ref = ref_fit_2d([1, 1, 9, 3, 1], [30., 12., 5., 40., 7.], [3., 2., 1., 1., 1.], lm, av_law, sc_law, 0., 5.)
    compare_2d(ai, ref, m.names, "integer photometry")
    d = info_dict(ai)
    for i, name in enumerate(m.names):
        if not ref[i][4]:
            check((d[str(name)][2] >= 1e30) == ref[i][3], "confidence 1 (integer) limit")
    # ascii line (non-contiguous views inside the Source)
    line = "from_ascii 10.0 -3.0 1 2 4 0 1 " + " ".join("%.17g %.17g" % (f, e) for f, e in
                                                       zip([30., 20., 1.1, -5., 7.], [3., 0.5, 0.05, -1., 1.]))
    sa = Source.from_ascii(line)
    sb = make_source([1, 2, 4, 0, 1], [30., 20., 1.1, 77., 7.], [3., 0.5, 0.05, 0., 1.])
    aa = m.fit(sa, av_law, sc_law, 0., 5.)
    check(same_info(aa, m.fit(sb, av_law, sc_law, 0., 5.)), "from_ascii source")
    compare_2d(aa, ref_fit_2d(sb.valid, sb.flux, sb.error, lm, av_law, sc_law, 0., 5.), m.names, "from_ascii")
    check(isinstance(str(sa), str) and sa.to_ascii().split()[0] == 'from_ascii', "text forms")

    # ------------------------------------------------------------------
    # Boundary values
    # ------------------------------------------------------------------
    # all points unused
    sz = make_source([0, 9, 0, 9, 0], [1., 2., 3., 4., 5.], [1., 1., 1., 1., 1.])
    check(int(sz.n_data) == 0, "n_data = 0")
    g3 = make_models(rng, 4, 5, n_dist=3, extended=True)
    for g in (grid, g3):
        z1 = g[0].fit(sz, g[1], g[2], 0., 5.)
        sz2 = make_source([0, 9, 0, 9, 0], [-1., np.nan, 0., -999., 1e40], [0., -999., np.nan, 0., -1.])
        check(same_info(z1, g[0].fit(sz2, g[1], g[2], 0., 5.)), "all-unused source")
    # av_min == av_max
    sb = make_source([1, 1, 1, 2, 3], typical, np.r_[0.1 * typical[:3], 0.5, 1.])
    ab = m.fit(sb, av_law, sc_law, 1.25, 1.25)
    check(np.all(np.asarray(ab.av, float) == 1.25), "av range of zero width")
    compare_2d(ab, ref_fit_2d(sb.valid, sb.flux, sb.error, lm, av_law, sc_law, 1.25, 1.25), m.names, "av fixed")

    # ------------------------------------------------------------------
    # fitting_routines used directly (2-D and 3-D arrays)
    # ------------------------------------------------------------------
    for shape in ((9, 5), (4, 3, 5)):
        for trial in range(20):
            valid = rng.choice(FLAGS, 5)
            data = rng.normal(size=shape)
            model = rng.normal(size=shape)
            err = rng.uniform(0.05, 0.95, 5)
            err[rng.random(5) < 0.2] = 1.
            err[rng.random(5) < 0.2] = 0.
            weight = np.where((valid == 1) | (valid == 4), 1. / err ** 2, 0.)
            weight[~np.isfinite(weight)] = 4.
            args = [valid.copy(), data.copy(), err.copy(), weight.copy(), model.copy()]
            got = fitting_routines.chi_squared(*args)
            for x, y in zip(args, [valid, data, err, weight, model]):
                check(np.array_equal(x, y), "chi_squared modified its arguments")
            exp = np.zeros(shape[:-1])
            for idx in np.ndindex(*shape[:-1]):
                for j in range(5):
                    dj, mj = data[idx + (j,)], model[idx + (j,)]
                    if valid[j] in (1, 4):
                        exp[idx] += (dj - mj) ** 2 * weight[j]
                    elif (valid[j] == 2 and mj < dj) or (valid[j] == 3 and mj > dj):
                        exp[idx] += 1e30 if err[j] == 1. else -2. * np.log(1. - err[j])
            check(got.shape == exp.shape and np.allclose(got, exp, rtol=1e-12, atol=1e-12), "chi_squared %r" % (shape,))
            check(np.array_equal(got, fitting_routines.chi_squared(*args)), "chi_squared repeat call")
    try:
        fitting_routines.chi_squared(np.array([1, 1]), np.zeros(2), np.ones(2), np.ones(2), np.zeros(2))
    except Exception:
        pass
    else:
        check(False, "chi_squared accepted a 1-d array")

    data = rng.normal(size=(8, 5))
    w = np.array([2., 0., 3., 0., 0.5])
    p1 = rng.normal(size=5)
    p2 = -2. * np.ones(5)
    a, b = fitting_routines.linear_regression(data, w, p1, p2)
    for i in range(8):
        A = np.c_[p1, p2] * np.sqrt(w)[:, None]
        sol = np.linalg.lstsq(A, data[i] * np.sqrt(w), rcond=None)[0]
        check(np.allclose([a[i], b[i]], sol, rtol=1e-9, atol=1e-11), "linear_regression")
    for dd in (data, data.reshape(2, 4, 5)):
        o = fitting_routines.optimal_scaling(dd, w, p1)
        exp = (dd * p1 * w).sum(axis=-1) / (p1 * p1 * w).sum()
        check(o.shape == dd.shape[:-1] and np.allclose(o, exp, rtol=1e-12, atol=1e-14), "optimal_scaling")

    print("checks passed:", N_CHECKS[0])
    print("OK")


if __name__ == '__main__':
    main()
    sys.exit(0)
