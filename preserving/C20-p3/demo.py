import sys, os
sys.path.insert(0, os.getcwd())

import math
import pickle
import random
import re
import warnings

warnings.filterwarnings('ignore')

import numpy as np

import sedfitter
from sedfitter.source import Source

assert os.path.dirname(os.path.abspath(sedfitter.__file__)) == os.path.join(os.getcwd(), 'sedfitter'), sedfitter.__file__

FOCUS = 'P3'  # text representation (column widths), accepted line types, exception subclass

LEGAL = [0, 1, 2, 3, 4, 9]
rng = random.Random(20200)
n_checks = 0


def check(cond, msg):
    global n_checks
    n_checks += 1
    if not cond:
        print("DEMO FAILURE:", msg)
        sys.exit(1)


NAME_CHARS = "abcdefghijklmnopqrstuvwxyzABCDEFGHIJKLMNOPQRSTUVWXYZ0123456789_-+.#%:/"


def rand_name(length=None):
    if length is None:
        length = rng.randint(1, 40)
    return "".join(rng.choice(NAME_CHARS) for _ in range(length))


def rand_value():
    r = rng.random()
    if r < 0.1:
        return -999.
    if r < 0.15:
        return 0.
    v = 10. ** rng.uniform(-30., 30.)
    if rng.random() < 0.25:
        v = -v
    return v


def rand_case(n, name=None):
    name = rand_name() if name is None else name
    x = round(rng.uniform(-360., 360.), 5)
    y = round(rng.uniform(-90., 90.), 5)
    flags = [rng.choice(LEGAL) for _ in range(n)]
    flux = [rand_value() for _ in range(n)]
    error = [rand_value() for _ in range(n)]
    return name, x, y, flags, flux, error


def tokens_of(case):
    # independent writer: repr() of a double parses back to the same double
    name, x, y, flags, flux, error = case
    toks = [name, repr(x), repr(y)]
    toks += [str(f) for f in flags]
    for f, e in zip(flux, error):
        toks += [repr(f), repr(e)]
    return toks


def join_tokens(toks, style):
    if style == 0:
        return " ".join(toks)
    elif style == 1:
        return "   " + "\t".join(toks) + "  \r\n"
    else:
        return "".join(t + " " * rng.randint(1, 4) for t in toks) + "\n"


def same_array(a, b):
    a = np.asarray(a)
    b = np.asarray(b)
    return a.shape == b.shape and a.dtype == b.dtype and a.tobytes() == b.tobytes()


def check_parsed(s, case, label):
    name, x, y, flags, flux, error = case
    n = len(flags)
    check(type(s) is Source, label + ": type")
    check(s.name == name, label + ": name %r != %r" % (s.name, name))
    check(float(s.x) == x and float(s.y) == y, label + ": coordinates")
    check(s.n_wav == n, label + ": n_wav %r != %r" % (s.n_wav, n))
    for arr, ref, what in [(s.valid, flags, 'valid'), (s.flux, flux, 'flux'), (s.error, error, 'error')]:
        check(isinstance(arr, np.ndarray) and arr.ndim == 1 and len(arr) == n, label + ": shape of " + what)
        check([float(v) for v in arr] == [float(v) for v in ref], label + ": " + what + " values/order")
    check(s.valid.dtype.kind in 'iu', label + ": flags are integers")
    check(s.flux.dtype == np.float64 and s.error.dtype == np.float64, label + ": float64 values")


def expect_reject(line, label):
    try:
        s = Source.from_ascii(line)
    except EOFError:
        check(False, label + ": EOFError instead of a rejection for %r" % line)
    except Exception as exc:
        check(isinstance(exc, (ValueError, OverflowError)), label + ": unexpected %r" % exc)
    else:
        check(False, label + ": accepted %r as valid=%r flux=%r error=%r" % (line, s.valid, s.flux, s.error))


def expect_eof(line, label):
    try:
        Source.from_ascii(line)
    except EOFError:
        check(True, label)
    except Exception as exc:
        check(False, label + ": %r instead of EOFError" % exc)
    else:
        check(False, label + ": accepted")


# --------------------------------------------------------------------------
# 1. column layout: name, x, y, n flags, n (flux, error) pairs in filter order
# --------------------------------------------------------------------------

cases = []
for n in range(0, 13):
    for rep in range(6):
        case = rand_case(n)
        cases.append(case)
        toks = tokens_of(case)
        check(len(toks) == 3 * (n + 1), "token count")
        line = join_tokens(toks, rep % 3)
        s = Source.from_ascii(line)
        check_parsed(s, case, "layout n=%i rep=%i" % (n, rep))
        # second call on the same line gives an equal but independent object
        s2 = Source.from_ascii(line)
        check_parsed(s2, case, "layout (2nd call) n=%i rep=%i" % (n, rep))
        check(s == s2, "two parses compare equal")
        if n > 0:
            keep_err = s.error.copy()
            keep_flux2 = s2.flux.copy()
            s.flux[:] = 12345.
            s.valid[:] = 0
            check(same_array(s.error, keep_err), "flux and error do not alias each other")
            check(same_array(s2.flux, keep_flux2), "two parses do not share storage")
            check_parsed(s2, case, "layout (after editing sibling) n=%i" % n)
            check_parsed(Source.from_ascii(line), case, "layout (3rd call) n=%i" % n)

# boundary values and unusual-but-legal spellings
line = "  src#1\t+1.5E+01   -.5  1 2 3 4 9 0   1.E-30 1e+30  -999 -999.0  +2.5e0 .5  1E30 1e-30  -1e-30 -1e30  0 0\n"
s = Source.from_ascii(line)
check_parsed(s, ("src#1", 15., -0.5, [1, 2, 3, 4, 9, 0],
                 [1e-30, -999., 2.5, 1e30, -1e-30, 0.],
                 [1e30, -999., 0.5, 1e-30, -1e30, 0.]), "unusual spellings")
name40 = "N" * 39 + "#"
s = Source.from_ascii(name40 + " 0 0")
check_parsed(s, (name40, 0., 0., [], [], []), "n=0, 40 character name")

# --------------------------------------------------------------------------
# 2. every column count from 0 to 3n+6
# --------------------------------------------------------------------------

for n in range(0, 13):
    # (i) all numeric columns are '1': a fitting count is legal whatever n is
    for k in range(0, 3 * n + 7):
        toks = (["nm"] + ["1"] * (k - 1))[:k]
        line = " ".join(toks)
        if k < 3:
            expect_eof(line, "count %i ends the input" % k)
            expect_eof(line + "\n", "count %i ends the input (newline)" % k)
        elif (k - 3) % 3 == 0:
            m = (k - 3) // 3
            check_parsed(Source.from_ascii(line), ("nm", 1., 1., [1] * m, [1.] * m, [1.] * m), "count %i" % k)
        else:
            expect_reject(line, "count %i (n=%i)" % (k, n))
    # (ii) a realistic line truncated / extended
    case = rand_case(n)
    toks = tokens_of(case)
    for k in range(0, 3 * n + 7):
        if k <= len(toks):
            t = toks[:k]
        else:
            t = toks + ["1.5"] * (k - len(toks))
        line = join_tokens(t, k % 3)
        if k < 3:
            expect_eof(line, "realistic count %i" % k)
        elif k == len(toks):
            check_parsed(Source.from_ascii(line), case, "realistic full line")
        elif (k - 3) % 3 != 0:
            expect_reject(line, "realistic count %i (n=%i)" % (k, n))
        else:
            # count fits another n: accepted only if the tokens that now sit in
            # the flag columns are legal integer flags, and then by the layout
            m = (k - 3) // 3
            ftoks = t[3:3 + m]
            legal = all(re.match(r'^[0-9]$', f) and int(f) in LEGAL for f in ftoks)
            if legal:
                vals = [float(v) for v in t[3 + m:]]
                check_parsed(Source.from_ascii(line),
                             (case[0], case[1], case[2], [int(f) for f in ftoks], vals[0::2], vals[1::2]),
                             "realistic count %i re-read with n=%i" % (k, m))
            else:
                expect_reject(line, "realistic count %i with non-flag tokens in flag columns" % k)

expect_eof("", "empty line")
expect_eof("   \n", "blank line")

# --------------------------------------------------------------------------
# 3. flags outside {0,1,2,3,4,9}
# --------------------------------------------------------------------------

BAD = ["5", "6", "7", "8", "10", "11", "19", "99", "-1", "-9", "1.5", "2.0", "1e0", "0.5", "x", "nan",
       "99999999999999999999"]
for n in range(1, 13):
    case = rand_case(n)
    for pos in range(n):
        for bad in (BAD if n <= 3 else rng.sample(BAD, 4)):
            toks = tokens_of(case)
            toks[3 + pos] = bad
            expect_reject(" ".join(toks), "flag %r at position %i of %i" % (bad, pos, n))
for n in range(1, 13):
    for flag in LEGAL:
        case = rand_case(n)
        case[3][rng.randrange(n)] = flag
        check_parsed(Source.from_ascii(" ".join(tokens_of(case))), case, "legal flag %i" % flag)

# --------------------------------------------------------------------------
# 4. formatting and parsing back
# --------------------------------------------------------------------------


def make_source(case, dtype=np.float64):
    name, x, y, flags, flux, error = case
    s = Source()
    s.name = name
    s.x = x
    s.y = y
    s.valid = np.array(flags, dtype=int)
    s.flux = np.array(flux, dtype=dtype)
    s.error = np.array(error, dtype=dtype)
    return s


def close_to_printed_precision(parsed, value, digits=3):
    # a value printed with `digits` decimals in the mantissa
    value = float(value)
    if value == 0.:
        return parsed == 0.
    expo = math.floor(math.log10(abs(value)))
    return abs(parsed - value) <= 0.5000001 * 10. ** (expo - digits) * 1.0000001


def check_ascii(s, label):
    text = s.to_ascii()
    check(isinstance(text, str) and "\n" not in text, label + ": one line of text")
    toks = text.split()
    n = s.n_wav
    check(len(toks) == 3 * (n + 1), label + ": 3*(n+1) columns, found %i" % len(toks))
    check(toks[0] == s.name, label + ": name column")
    check(abs(float(toks[1]) - s.x) <= 0.50001e-5 and abs(float(toks[2]) - s.y) <= 0.50001e-5, label + ": coordinates")
    check([int(t) for t in toks[3:3 + n]] == [int(v) for v in s.valid], label + ": flag columns")
    for j in range(n):
        for t, v, what in [(toks[3 + n + 2 * j], s.flux[j], 'flux'), (toks[4 + n + 2 * j], s.error[j], 'error')]:
            m = re.match(r'^[-+]?\d\.(\d+)e[-+]\d+$', t)
            check(m is not None and len(m.group(1)) >= 3, label + ": %s column %r has at least 3 decimals" % (what, t))
            check(close_to_printed_precision(float(t), v), label + ": %s %r vs %r" % (what, t, v))
            if float(v) != 0.:
                check((float(t) < 0) == (float(v) < 0), label + ": sign of " + what)
            else:
                check(t.startswith('-') == (math.copysign(1., float(v)) < 0), label + ": sign of zero")
    # parse back: name, flags and the printed values
    b = Source.from_ascii(text)
    check(b.name == s.name, label + ": name round trip")
    check(same_array(b.valid.astype(int), np.asarray(s.valid).astype(int)), label + ": flags round trip")
    check(float(b.x) == float(toks[1]) and float(b.y) == float(toks[2]), label + ": coordinates round trip")
    check([float(v) for v in b.flux] == [float(t) for t in toks[3 + n::2]], label + ": flux round trip")
    check([float(v) for v in b.error] == [float(t) for t in toks[4 + n::2]], label + ": error round trip")
    # formatting what was parsed gives the same text again (fixed point)
    check(b.to_ascii().split() == toks, label + ": second generation is a fixed point")
    return text


for n in range(0, 13):
    for rep in range(4):
        case = rand_case(n, name=rand_name(40) if rep == 0 else None)
        s = make_source(case, dtype=np.float32 if rep == 3 else np.float64)
        t1 = check_ascii(s, "ascii n=%i rep=%i" % (n, rep))
        t2 = s.to_ascii()
        check(t1 == t2, "to_ascii twice gives the same text")
        if n > 0:
            # in-place edits of the caller-visible arrays and attributes must be reflected
            j = rng.randrange(n)
            s.flux[j] = -s.flux[j] if s.flux[j] != 0 else 7.25e-12
            s.error[n - 1] = 3.125e+21
            s.valid[j] = 9 if s.valid[j] != 9 else 2
            t3 = check_ascii(s, "ascii after in-place edit n=%i" % n)
            check(t3 != t1, "in-place edit is visible in to_ascii")
            s.flux[j] = 0.
            t4 = check_ascii(s, "ascii with +0")
            s.flux[j] = -0.
            t5 = check_ascii(s, "ascii with -0")
            check(t4 != t5, "signed zero is visible in to_ascii")
            # replacing whole arrays through the setters
            s.valid = None
            s.flux = None
            s.error = None
            case2 = rand_case(n + 1)
            s.valid = case2[3]
            s.flux = case2[4]
            s.error = np.array(case2[5])
            check_ascii(s, "ascii after replacing arrays n=%i" % (n + 1))
        s.name = rand_name(31)
        s.x = -0.000004
        s.y = 359.999994
        t6 = check_ascii(s, "ascii after changing name and coordinates")
        check(t6.split()[0] == s.name, "new name visible")

# extreme but legal magnitudes (3-digit exponents) and the placeholders
s = make_source(("edge", 0., -90., [1, 0, 3, 4, 9], [1e-100, -999., 9.9996e5, -1e30, 1e-30], [1e100, -999., 0.9, 9.9995e-31, 1e30]))
check_ascii(s, "edge magnitudes")
check("-9.990e+02" in s.to_ascii().split(), "placeholder printed as -9.990e+02")

# --------------------------------------------------------------------------
# 5. dictionary and pickle round trips
# --------------------------------------------------------------------------

KEYS = ['name', 'x', 'y', 'valid', 'flux', 'error']


def check_lossless(a, b, label):
    check(type(b) is Source, label + ": type")
    check(b.name == a.name and type(b.name) is type(a.name), label + ": name")
    check(b.x == a.x and b.y == a.y, label + ": coordinates")
    for what in ['valid', 'flux', 'error']:
        check(same_array(getattr(a, what), getattr(b, what)), label + ": " + what + " bit for bit")
    check(a == b, label + ": __eq__")


for n in range(0, 13):
    for source_kind in range(3):
        case = rand_case(n)
        if source_kind == 0:
            s = make_source(case)
        elif source_kind == 1:
            s = make_source(case, dtype=np.float32)
        else:
            s = Source.from_ascii(" ".join(tokens_of(case)))
        if source_kind != 1:
            s.to_ascii()  # the object may carry derived state at this point
        d = s.to_dict()
        check(all(k in d for k in KEYS), "dictionary keys")
        check(d['name'] == s.name and d['x'] == s.x and d['y'] == s.y, "dictionary scalars")
        check(same_array(d['valid'], s.valid) and same_array(d['flux'], s.flux) and same_array(d['error'], s.error), "dictionary arrays")
        b = Source.from_dict(dict((k, d[k]) for k in KEYS))
        check_lossless(s, b, "dict round trip n=%i" % n)
        check(b.to_ascii() == s.to_ascii(), "dict round trip: same text")
        check_lossless(s, Source.from_dict(b.to_dict()), "dict round trip twice")
        for protocol in range(0, pickle.HIGHEST_PROTOCOL + 1):
            b = pickle.loads(pickle.dumps(s, protocol))
            check_lossless(s, b, "pickle protocol %i n=%i" % (protocol, n))
        check(b.to_ascii() == s.to_ascii(), "pickle round trip: same text")
        c = pickle.loads(pickle.dumps(b, 2))
        check_lossless(s, c, "pickle round trip twice")
        if n > 0:
            # the copy is independent and formats its own (edited) content
            c.flux[0] = 4.5e-7
            c.valid[0] = 3
            check(c.to_ascii() != s.to_ascii(), "edited unpickled copy formats its own values")
            check_ascii(c, "edited unpickled copy")
            check_lossless(s, b, "original untouched by editing a copy")
        # a pickle written from the plain documented state is readable
        state = dict((k, d[k]) for k in KEYS)
        e = Source.__new__(Source)
        e.__setstate__(state)
        check_lossless(s, e, "__setstate__ from the six documented entries")
        check(e.to_ascii() == s.to_ascii(), "__setstate__: same text")

# --------------------------------------------------------------------------
# 6. a data file written with to_ascii and read back the way the fitter does,
#    in text mode and (where lines of bytes are understood) in binary mode
# --------------------------------------------------------------------------

import tempfile

tmpdir = tempfile.mkdtemp()
filename = os.path.join(tmpdir, 'data.txt')

for n in (0, 1, 5, 12):
    originals = []
    with open(filename, 'w', encoding='utf-8') as f:
        for i in range(25):
            name = rand_name(40) if i % 5 == 0 else rand_name()
            s = make_source(rand_case(n, name=name))
            originals.append(s)
            f.write(s.to_ascii() + "\n")
        f.write("\n")  # a blank line ends the input
        f.write(make_source(rand_case(n)).to_ascii() + "\n")  # never reached

    def read_all(mode, **kwargs):
        found = []
        with open(filename, mode, **kwargs) as f:
            while True:
                try:
                    found.append(Source.from_ascii(f.readline()))
                except EOFError:
                    break
        return found

    for attempt in range(2):
        found = read_all('r', encoding='utf-8')
        check(len(found) == 25, "text mode: 25 sources before the blank line (found %i)" % len(found))
        for s, b in zip(originals, found):
            check(b.name == s.name, "file: name")
            check(same_array(b.valid, s.valid), "file: flags")
            check(abs(b.x - s.x) <= 0.50001e-5 and abs(b.y - s.y) <= 0.50001e-5, "file: coordinates")
            for j in range(n):
                check(close_to_printed_precision(b.flux[j], s.flux[j]), "file: flux")
                check(close_to_printed_precision(b.error[j], s.error[j]), "file: error")

    try:
        found_b = read_all('rb')
    except TypeError:
        found_b = None  # lines of bytes are not understood by this version: nothing to compare
    if found_b is not None:
        check(len(found_b) == 25, "binary mode: 25 sources")
        for a, b in zip(found, found_b):
            check(type(b.name) is str, "binary mode: name is text")
            check(a == b and same_array(a.valid, b.valid) and same_array(a.flux, b.flux) and same_array(a.error, b.error),
                  "binary mode: same source as in text mode")

    # the widths: columns of all lines start at the same offsets when names have at most 30 characters
    short = [make_source(rand_case(n, name=rand_name(rng.randint(1, 30)))) for i in range(10)]
    for s in short:
        s.x = abs(s.x)  # at most 9 characters, as the old layout assumed
        s.y = abs(s.y)
    texts = [s.to_ascii() for s in short]
    starts = set(tuple(m.end() for m in re.finditer(r'\S+', t)) [1:] for t in texts)
    check(len(starts) == 1, "columns are aligned on their right edge")
    check(all(len(t) >= 51 + 26 * n for t in texts), "no column is narrower than documented by the old fixed-width layout")

os.remove(filename)
os.rmdir(tmpdir)

# rejected lines are rejected with (a subclass of) ValueError, never half-read
for line in ["nm 1 2 3", "nm 1 2 1 2", "nm 1 2 1 2 3 4", "nm 1 2 7 1 2", "nm 1 2 1.0 1 2", "nm x 2", "nm 1 y 1 1 1", "nm 1 2 1 a 2"]:
    try:
        Source.from_ascii(line)
    except EOFError:
        check(False, "EOFError for %r" % line)
    except ValueError as exc:
        check(isinstance(exc, ValueError) and len(str(exc)) > 0, "ValueError with a message")
    else:
        check(False, "accepted %r" % line)

print("demo (%s): %i checks passed" % (FOCUS, n_checks))
