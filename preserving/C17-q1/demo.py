import sys, os; sys.path.insert(0, os.getcwd())

# Demonstration for property C17 (plotted model SEDs are the fitted models).
#
# Builds cube (version 2) model packages, fits sources at tabulated
# wavelengths, calls plot(..., output_dir=None) and checks the returned
# LineCollection against (a) the predicted fluxes stored with the fits and
# (b) a from-scratch computation of every curve from the raw FITS arrays.

import io
import shutil
import tempfile
import contextlib
import warnings

import numpy as np

import matplotlib
matplotlib.use('Agg')

from astropy import units as u
from astropy.io import fits

warnings.simplefilter('ignore')

import sedfitter
assert os.path.dirname(os.path.dirname(os.path.abspath(sedfitter.__file__))) == os.getcwd(), sedfitter.__file__

from sedfitter.sed import SEDCube
from sedfitter.extinction import Extinction
from sedfitter.source import Source
from sedfitter.fit import Fitter
from sedfitter.fit_info import FitInfoFile
from sedfitter.plot import plot

C_LIGHT = 299792458.0  # m/s
KPC_PLOT = 3.086e21    # rounded constant used by the library when plotting
MODES = ['interp', 'largest', 'largest+smallest', 'all']

N_CHECKS = [0]
MASK = [None]  # wavelengths (sorted) at which whole curves are compared (None: all)
FAINT_DEV = [0.]
RTOL = [1e-9]  # tolerance of the whole-curve comparison (looser for single precision packages)


def quiet(func, *args, **kwargs):
    with contextlib.redirect_stdout(io.StringIO()):
        return func(*args, **kwargs)


def make_package(path, n_ap, n_models=6, n_wav=40, seed=0, dtype=np.float64, increasing_wav=True, faint=None):
    rng = np.random.RandomState(seed)
    os.mkdir(path)
    cube = SEDCube()
    cube.names = np.array(['mod_%03d' % i for i in range(n_models)])
    cube.distance = 1. * u.kpc
    wav = np.logspace(-1., 3., n_wav)
    if not increasing_wav:
        wav = wav[::-1]
    cube.wav = wav * u.micron
    shape_spec = (1. + wav / 30.) ** -1.5 * (wav / 0.3) ** 0.7
    if n_ap > 1:
        cube.apertures = np.logspace(2., 6., n_ap) * u.au
        val = np.cumsum(0.2 + rng.random_sample((n_models, n_ap, n_wav)), axis=1)
    else:
        cube.apertures = None
        val = 1. + rng.random_sample((n_models, 1, n_wav))
    val = val * shape_spec[np.newaxis, np.newaxis, :] * (1. + np.arange(n_models))[:, np.newaxis, np.newaxis]
    if faint is not None:
        # very faint fluxes at some of the wavelengths
        val[:, :, faint] *= 1e-17
    cube.val = val.astype(dtype) * u.mJy
    cube.unc = (0.01 * val).astype(dtype) * u.mJy
    cube.write(os.path.join(path, 'flux.fits'))
    with open(os.path.join(path, 'models.conf'), 'w') as f:
        f.write("name = demo\n")
        f.write("length_subdir = 0\n")
        f.write("aperture_dependent = %s\n" % ('yes' if n_ap > 1 else 'no'))
        f.write("logd_step = 0.03\n")
        f.write("version = 2\n")
    return path


def make_extinction():
    e = Extinction()
    e.wav = np.logspace(-2., 3.5, 60) * u.micron
    e.chi = (e.wav.value ** -1.5 + 0.01) * u.cm ** 2 / u.g
    return e


def raw_package(path):
    """Read the raw arrays with astropy.io.fits only (independent of SEDCube)"""
    with fits.open(os.path.join(path, 'flux.fits'), memmap=False) as h:
        d = {}
        d['distance_cm'] = float(h[0].header['DISTANCE'])
        d['names'] = [str(x).strip() for x in h['MODEL_NAMES'].data['MODEL_NAME'].astype(str)]
        d['wav'] = np.array(h['SPECTRAL_INFO'].data['WAVELENGTH'], dtype=float)  # micron
        try:
            ap = np.array(h['APERTURES'].data['APERTURE'], dtype=float)  # au
        except KeyError:
            ap = None
        d['ap'] = ap
        d['val'] = np.array(h['VALUES'].data, dtype=float)  # mJy
    return d


def reference_curves(raw, ext, name, av, sc, mode, filt_wav, filt_ap):
    """From-scratch computation of the curves that should be drawn for one fit.

    Returns x (micron, increasing) and a list of y arrays (ergs/cm^2/s)."""
    k = raw['names'].index(name)
    wav = raw['wav']
    order = np.argsort(wav)
    wav = wav[order]
    val = raw['val'][k][:, order]  # (n_ap, n_wav) in mJy
    nu = C_LIGHT / (wav * 1e-6)
    nufnu = val * 1e-26 * nu[np.newaxis, :]
    nufnu = nufnu * (raw['distance_cm'] / (10. ** sc * KPC_PLOT)) ** 2
    ew = ext.wav.to(u.micron).value
    ec = ext.chi.value
    law = -0.4 * np.interp(wav, ew, ec, left=0., right=0.) / np.interp(0.55, ew, ec)
    nufnu = nufnu * 10. ** (av * law)[np.newaxis, :]

    unique_ap = np.unique(filt_ap)
    if mode == 'interp':
        n_curves = 1
    elif mode == 'largest':
        req = np.array([filt_ap.max()])
    elif mode == 'largest+smallest':
        req = np.array([filt_ap.min(), filt_ap.max()])
    elif mode == 'all':
        req = unique_ap

    if raw['ap'] is None or len(raw['ap']) == 1:
        if mode == 'interp':
            return wav, [nufnu[0]]
        else:
            return wav, [nufnu[0] for _ in req]

    tab = raw['ap']
    if mode == 'interp':
        ap_au = filt_ap * 10. ** sc * 1000.
        assert np.all(ap_au >= tab.min()) and np.all(ap_au <= tab.max())
        o = np.argsort(filt_wav)
        lw, la = np.log10(filt_wav[o]), np.log10(ap_au[o])
        ap_w = 10. ** np.interp(np.log10(wav), lw, la)  # constant outside
        ap_w = np.clip(ap_w, tab.min(), tab.max())
        y = np.array([np.interp(ap_w[j], tab, nufnu[:, j]) for j in range(len(wav))])
        return wav, [y]
    else:
        ap_au = np.minimum(req * 10. ** sc * 1000., tab.max())
        assert np.all(ap_au >= tab.min())
        ys = []
        for a in ap_au:
            ys.append(np.array([np.interp(a, tab, nufnu[:, j]) for j in range(len(wav))]))
        return wav, ys


def n_shown(mode, filt_ap):
    return {'interp': 1, 'largest': 1, 'largest+smallest': 2, 'all': len(np.unique(filt_ap))}[mode]


def curves_for_filter(mode, filt_ap, k):
    """Index (within one fit) of the curve that is drawn for the aperture of filter k
    (None if the display mode does not show that aperture)"""
    if mode == 'interp':
        return 0
    if mode == 'largest':
        return 0 if filt_ap[k] == filt_ap.max() else None
    if mode == 'largest+smallest':
        if filt_ap[k] == filt_ap.min():
            return 0
        if filt_ap[k] == filt_ap.max():
            return 1
        return None
    if mode == 'all':
        return int(np.nonzero(np.unique(filt_ap) == filt_ap[k])[0][0])


def check_figures(figures, info, n_sel, mode, raw, ext, filt_wav, filt_ap, label, plot_mode='A'):
    """Check the property for one call of plot()"""
    assert list(figures.keys()) == [info.source.name], (label, list(figures.keys()))
    fig = figures[info.source.name]
    segs = [np.asarray(s, dtype=float) for s in fig['lines'].get_segments()]
    per_fit = n_shown(mode, filt_ap)
    n_fits_drawn = n_sel if plot_mode == 'A' else 1
    # Number of curves
    assert len(segs) == n_fits_drawn * per_fit, (label, len(segs), n_fits_drawn, per_fit)

    av = np.asarray(info.av, float)
    sc = np.asarray(info.sc, float)
    mf = np.asarray(info.model_fluxes, float)
    chi2 = np.asarray(info.chi2, float)
    assert np.all(np.diff(chi2) >= 0)  # best fit is index 0

    # Drawing order: worst selected fit first, best fit last
    drawn = list(range(n_fits_drawn - 1, -1, -1))
    for pos, i in enumerate(drawn):
        x_ref, ys_ref = reference_curves(raw, ext, str(info.model_name[i]), av[i], sc[i], mode, filt_wav, filt_ap)
        assert len(ys_ref) == per_fit
        for j in range(per_fit):
            seg = segs[pos * per_fit + j]
            assert seg.ndim == 2 and seg.shape[1] == 2 and np.all(np.isfinite(seg)), label
            o = np.argsort(seg[:, 0])
            x, y = seg[o, 0], seg[o, 1]
            # (b) whole curve against the from-scratch computation
            np.testing.assert_allclose(x, x_ref, rtol=RTOL[0], err_msg=label)
            m = slice(None) if MASK[0] is None else MASK[0]
            np.testing.assert_allclose(y[m], ys_ref[j][m], rtol=RTOL[0], err_msg=label)
            if MASK[0] is not None:
                FAINT_DEV[0] = max(FAINT_DEV[0], np.max(np.abs(y[~m] / ys_ref[j][~m] - 1.)))
            N_CHECKS[0] += 1
        # (a) property as stated: curve passes through the predicted flux stored with the fit
        for k in range(len(filt_wav)):
            j = curves_for_filter(mode, filt_ap, k)
            if j is None:
                continue
            seg = segs[pos * per_fit + j]
            idx = np.nonzero(np.isclose(seg[:, 0], filt_wav[k], rtol=1e-10, atol=0))[0]
            assert len(idx) == 1, (label, filt_wav[k])
            drawn_val = seg[idx[0], 1]
            pred = 10. ** mf[i, k] * 1e-26 * C_LIGHT / (filt_wav[k] * 1e-6)
            # within the rounding of the constants (3.086e21 cm per kpc)
            assert abs(drawn_val / pred - 1.) < 1e-3, (label, i, k, drawn_val, pred)
            # and tightly once the known rounding of the kpc is taken out
            pred_adj = pred * (raw['distance_cm'] / KPC_PLOT) ** 2
            assert abs(drawn_val / pred_adj - 1.) < 2e-5, (label, i, k, drawn_val, pred_adj)
            N_CHECKS[0] += 1
    # The best fit is drawn last: the last per_fit segments are those of fit 0
    x_ref, ys_ref = reference_curves(raw, ext, str(info.model_name[0]), av[0], sc[0], mode, filt_wav, filt_ap)
    for j in range(per_fit):
        seg = segs[len(segs) - per_fit + j]
        o = np.argsort(seg[:, 0])
        m = slice(None) if MASK[0] is None else MASK[0]
        np.testing.assert_allclose(seg[o, 1][m], ys_ref[j][m], rtol=RTOL[0], err_msg=label)
    if n_fits_drawn > 1 and str(info.model_name[0]) != str(info.model_name[1]):
        seg = segs[0]
        o = np.argsort(seg[:, 0])
        assert not np.allclose(seg[o, 1], ys_ref[0], rtol=1e-6, atol=0), label


def make_source(name, raw, filt_idx, k_model, av, dist_kpc, ext, noise, valid=None):
    wav = raw['wav'][filt_idx]
    ew = ext.wav.to(u.micron).value
    ec = ext.chi.value
    law = -0.4 * np.interp(wav, ew, ec, left=0., right=0.) / np.interp(0.55, ew, ec)
    flux = raw['val'][k_model, -1, filt_idx] / dist_kpc ** 2 * 10. ** (av * law) * noise
    s = Source()
    s.name = name
    s.x = 1.
    s.y = 2.
    s.valid = np.ones(len(filt_idx), dtype=int) if valid is None else np.array(valid)
    s.flux = flux
    s.error = 0.1 * flux
    return s


def run_package(workdir, tag, n_ap, filt_idx, filt_ap_arcsec, seed, dtype=np.float64, increasing_wav=True,
                use_memmap=True, extra=None, faint=None):
    RTOL[0] = 1e-9 if dtype == np.float64 else 5e-7
    pkg = make_package(os.path.join(workdir, tag), n_ap, seed=seed, dtype=dtype, increasing_wav=increasing_wav,
                       faint=faint)
    if faint is None:
        MASK[0] = None
    else:
        MASK[0] = np.ones(40, dtype=bool)
        MASK[0][faint] = False
    raw = raw_package(pkg)
    ext = make_extinction()
    filt_idx = np.array(filt_idx)
    filt_ap = np.array(filt_ap_arcsec, dtype=float)
    filt_wav = raw['wav'][filt_idx]

    fitter = quiet(Fitter, [w * u.micron for w in filt_wav], filt_ap * u.arcsec, pkg,
                   extinction_law=ext, av_range=[0., 4.], distance_range=[0.9, 3.1] * u.kpc,
                   use_memmap=use_memmap)

    rng = np.random.RandomState(seed + 100)
    sources = [make_source('src_a', raw, filt_idx, 2, 1.3, 1.7, ext, 1. + 0.05 * rng.randn(len(filt_idx))),
               make_source('src_b', raw, filt_idx, 4, 0.4, 2.6, ext, 1. + 0.05 * rng.randn(len(filt_idx)))]
    infos = [fitter.fit(s) for s in sources]
    for info in infos:
        assert info.n_fits == 6 and info.model_fluxes is not None

    # results written to a file
    fname = os.path.join(workdir, tag + '_fits.bin')
    fout = FitInfoFile(fname, 'w')
    for info in infos:
        fout.write(info)
    fout.close()

    for n_sel in [1, 2, 3, 4, 5]:
        for mode in MODES:
            label = '%s n=%i mode=%s' % (tag, n_sel, mode)
            # results passed as object (each source separately)
            for info in infos:
                figs = quiet(plot, info, select_format=('N', n_sel), sed_type=mode)
                check_figures(figs, info, n_sel, mode, raw, ext, filt_wav, filt_ap, label + ' [object]')
                # the caller's object was not truncated
                assert info.n_fits == 6
            # results passed as file (both sources in one call)
            figs = quiet(plot, fname, select_format=('N', n_sel), sed_type=mode)
            assert list(figs.keys()) == ['src_a', 'src_b']
            for info in infos:
                check_figures({info.source.name: figs[info.source.name]}, info, n_sel, mode, raw, ext,
                              filt_wav, filt_ap, label + ' [file]')

    # second call on the same objects / the same file gives the same curves again
    for mode in MODES:
        a = quiet(plot, infos[0], select_format=('N', 3), sed_type=mode)
        b = quiet(plot, infos[0], select_format=('N', 3), sed_type=mode)
        c = quiet(plot, fname, select_format=('N', 3), sed_type=mode)
        sa, sb, sc_ = [f['src_a']['lines'].get_segments() for f in (a, b, c)]
        assert len(sa) == len(sb) == len(sc_)
        for p, q, r in zip(sa, sb, sc_):
            assert np.array_equal(p, q) and np.array_equal(p, r)
        check_figures(b, infos[0], 3, mode, raw, ext, filt_wav, filt_ap, tag + ' second call ' + mode)

    # unusual but legal input forms
    for mode in MODES:
        # list and tuple of FitInfo objects, and a restriction to one source
        figs = quiet(plot, list(infos), select_format=('N', 2), sed_type=mode)
        assert list(figs.keys()) == ['src_a', 'src_b']
        for info in infos:
            check_figures({info.source.name: figs[info.source.name]}, info, 2, mode, raw, ext, filt_wav, filt_ap,
                          tag + ' list ' + mode)
        figs = quiet(plot, tuple(infos), select_format=('N', 4), sed_type=mode, sources=['src_b'], memmap=False)
        check_figures(figs, infos[1], 4, mode, raw, ext, filt_wav, filt_ap, tag + ' tuple+sources ' + mode)
        # selection given as numpy scalars, plus plot_max
        figs = quiet(plot, infos[0], select_format=('N', np.int64(5)), plot_max=np.int32(3), sed_type=mode)
        check_figures(figs, infos[0], 3, mode, raw, ext, filt_wav, filt_ap, tag + ' plot_max ' + mode)
        # chi^2 based selection: boundary value exactly the chi^2 of the third fit
        thr = float(np.asarray(infos[1].chi2, float)[2])
        figs = quiet(plot, infos[1], select_format=('C', thr), sed_type=mode)
        n_expected = int(np.sum(np.asarray(infos[1].chi2, float) <= thr))
        assert n_expected >= 3
        check_figures(figs, infos[1], min(n_expected, 6), mode, raw, ext, filt_wav, filt_ap, tag + ' C-select ' + mode)
        # one figure per fit: the entry left in the dict is the best fit alone
        figs = quiet(plot, infos[0], select_format=('N', 3), sed_type=mode, plot_mode='I')
        check_figures(figs, infos[0], 3, mode, raw, ext, filt_wav, filt_ap, tag + ' mode I ' + mode, plot_mode='I')

    # boundary: no fit selected -> entry without lines
    figs = quiet(plot, infos[0], select_format=('N', 0))
    assert 'lines' not in figs['src_a'] and figs['src_a']['source'].name == 'src_a'

    # plots written to a directory still work (and return nothing)
    outdir = os.path.join(workdir, tag + '_plots')
    res = quiet(plot, fname, output_dir=outdir, select_format=('N', 2), sed_type='all', format='png')
    assert res is None
    assert sorted(os.listdir(outdir)) == ['src_a.png', 'src_b.png']

    if extra is not None:
        extra(pkg, raw, ext, infos, fname, filt_wav, filt_ap)

    return pkg, raw, ext, infos, fname, filt_wav, filt_ap


def extra_checks(pkg, raw, ext, infos, fname, filt_wav, filt_ap):
    """Further checks of the code paths behind plot(): files on disk, refused
    input, and the SED methods used by plot() called directly"""

    # one file per fit, with the convolved fluxes overplotted
    outdir = os.path.join(os.path.dirname(fname), os.path.basename(pkg) + '_plots_I')
    res = quiet(plot, fname, output_dir=outdir, plot_mode='I', show_convolved=True,
                select_format=('N', 2), sed_type='largest+smallest', format='png')
    assert res is None
    assert sorted(os.listdir(outdir)) == ['src_a_00001.png', 'src_a_00002.png', 'src_b_00001.png', 'src_b_00002.png']

    # an unknown display mode is refused as before
    try:
        quiet(plot, infos[0], sed_type='bogus')
    except NameError:  # UnboundLocalError
        pass
    else:
        raise AssertionError("unknown display mode accepted")

    # the SED of a model, as extracted from the cube, and its interpolation
    cube = SEDCube.read(os.path.join(pkg, 'flux.fits'))
    name = raw['names'][3]
    sed = cube.get_sed(name)
    assert sed.name == name
    o_lib = np.argsort(sed.wav.to(u.micron).value)
    o_raw = np.argsort(raw['wav'])
    val = raw['val'][3][:, o_raw]
    np.testing.assert_allclose(sed.wav.to(u.micron).value[o_lib], raw['wav'][o_raw], rtol=1e-12)
    np.testing.assert_allclose(sed.flux.to(u.mJy).value[:, o_lib], val, rtol=1e-12)
    try:
        cube.get_sed('no_such_model')
    except ValueError:
        pass
    else:
        raise AssertionError("unknown model accepted")

    if raw['ap'] is None:
        res = sed.interpolate(np.array([10., 20., 30.]))
        assert res.shape == (len(raw['wav']), 3)
        for j in range(3):
            np.testing.assert_allclose(_to_value(res)[o_lib, j], val[0], rtol=1e-12)
        res = sed.interpolate_variable(filt_wav, filt_ap * 1000.)
        np.testing.assert_allclose(_to_value(res)[o_lib], val[0], rtol=1e-12)
        return

    tab = raw['ap']
    # boundary values: exactly the smallest and the largest tabulated aperture,
    # a tabulated aperture in between, one beyond the table (reset to the largest)
    req = np.array([tab[0], 0.5 * (tab[0] + tab[1]), tab[2], tab[-1], 10. * tab[-1]])
    req_in = req.copy()
    res = _to_value(sed.interpolate(req_in))
    assert res.shape == (len(raw['wav']), len(req))
    expected = np.array([[np.interp(min(a, tab[-1]), tab, val[:, j]) for a in req] for j in range(val.shape[1])])
    np.testing.assert_allclose(res[o_lib], expected, rtol=1e-7 if RTOL[0] > 1e-9 else 1e-12)
    # second call on the same object, and apertures given as a Quantity in other units
    res2 = _to_value(sed.interpolate(req.copy()))
    assert np.array_equal(res, res2)
    res3 = _to_value(sed.interpolate((req * u.au).to(u.pc)))
    np.testing.assert_allclose(res3, res, rtol=1e-10)
    try:
        sed.interpolate(np.array([0.5 * tab[0]]))
    except Exception as exc:
        assert 'too small' in str(exc)
    else:
        raise AssertionError("too small aperture accepted")

    # composite SED: aperture varies with wavelength
    w = np.array([30., 2., 300.])
    a = np.array([tab[-1], tab[0] * 1.5, 0.3 * tab[-1]])
    res = _to_value(sed.interpolate_variable(w.copy(), a.copy()))
    res_again = _to_value(sed.interpolate_variable(w.copy(), a.copy()))
    assert res.shape == (len(raw['wav']),) and np.array_equal(res, res_again)
    o = np.argsort(w)
    ap_w = 10. ** np.interp(np.log10(raw['wav'][o_raw]), np.log10(w[o]), np.log10(a[o]))
    ap_w = np.clip(ap_w, tab[0], tab[-1])
    expected = np.array([np.interp(ap_w[j], tab, val[:, j]) for j in range(val.shape[1])])
    np.testing.assert_allclose(res[o_lib], expected, rtol=1e-7 if RTOL[0] > 1e-9 else 1e-9)


def _to_value(x):
    return x.value if isinstance(x, u.Quantity) else np.asarray(x)


def main():
    workdir = tempfile.mkdtemp(prefix='c17_demo_')
    try:
        # multi-aperture package, three different apertures, filters not in wavelength order
        run_package(workdir, 'multi', 8, [25, 9, 17, 31], [3., 1., 2., 3.], seed=1, extra=extra_checks)
        # multi-aperture package stored in single precision, decreasing wavelengths in the file,
        # two filters, apertures identical (smallest == largest)
        run_package(workdir, 'multi32', 5, [12, 28], [2.5, 2.5], seed=2, dtype=np.float32,
                    increasing_wav=False, use_memmap=False, extra=extra_checks)
        # single-aperture package, first and last tabulated wavelength fitted
        run_package(workdir, 'single', 1, [0, 14, 22, 39], [1., 4., 2., 4.], seed=3, extra=extra_checks)
        # single precision package with very faint fluxes away from the fitted wavelengths: the
        # statement of the property (fitted wavelengths) is checked as for the others; the whole
        # curves are only compared away from the faint part, for which the deviation is reported
        run_package(workdir, 'faint32', 4, [10, 20, 30], [1., 2., 3.], seed=4, dtype=np.float32,
                    faint=[0, 1, 2, 3, 36, 37, 38, 39])
        print('single precision package, faint part of the curves: max deviation from the '
              'double precision computation = %.3g (informative)' % FAINT_DEV[0])
    finally:
        shutil.rmtree(workdir, ignore_errors=True)
    print('C17 demo: all checks passed (%i curve/point checks)' % N_CHECKS[0])


if __name__ == '__main__':
    main()
