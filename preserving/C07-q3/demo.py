import sys, os; sys.path.insert(0, os.getcwd())
# Demonstration for property C07: convolved-flux files keep model identity,
# identically in both package formats.  Everything that is compared against
# the library is computed here independently (files are written/read with
# astropy.io.fits directly, the filter re-binning and the convolution are
# re-implemented below).

import shutil
import tempfile
import warnings

import numpy as np
from astropy import units as u
from astropy.io import fits
from astropy.table import Table

warnings.simplefilter('ignore')

import sedfitter
assert os.path.dirname(os.path.abspath(sedfitter.__file__)) == os.path.join(os.getcwd(), 'sedfitter'), sedfitter.__file__

from sedfitter.filter import Filter
from sedfitter.convolve import convolve_model_dir
from sedfitter.convolved_fluxes import ConvolvedFluxes
from sedfitter.extinction import Extinction
from sedfitter.source import Source
from sedfitter.fit import Fitter

C_UM_HZ = 299792458.e6  # micron * Hz

N_CHECKS = [0]


def check(cond, msg):
    N_CHECKS[0] += 1
    if not cond:
        print("DEMO FAILURE: " + msg)
        sys.exit(1)


def close(a, b, rtol=1e-9, atol=0.):
    a = np.asarray(a, float)
    b = np.asarray(b, float)
    return a.shape == b.shape and bool(np.allclose(a, b, rtol=rtol, atol=atol))


# ---------------------------------------------------------------- generation

def make_case(rng, n_models, n_ap, n_wav=41, long_names=False):
    """Random SEDs: dict with names, wav (increasing, micron), apertures (au),
    flux/err of shape (n_models, n_ap, n_wav) in mJy."""
    ids = rng.permutation(900)[:n_models] + 100
    if long_names:
        names = ['m{0:03d}_'.format(i).ljust(30, 'x') for i in ids]  # exactly 30 chars
    else:
        names = ['mod_{0:03d}_{1}'.format(i, 'abcdefgh'[k]) for k, i in enumerate(ids)]
    wav = np.logspace(-0.5, 2.5, n_wav)
    ap = np.logspace(2., 5., n_ap) if n_ap > 1 else np.array([1.e5])
    base = 10. ** rng.uniform(-1., 2., size=(n_models, 1, 1))
    shape = 1. + rng.random((n_models, n_ap, n_wav))
    flux = np.cumsum(base * shape, axis=1)
    err = flux * (0.01 + 0.05 * rng.random(flux.shape))
    return dict(names=names, wav=wav, ap=ap, flux=flux, err=err)


def write_sed_file(path, name, wav, ap, flux, err, reverse):
    """One SED file, written by hand. flux/err: (n_ap, n_wav), wav increasing.
    reverse=False: stored in increasing frequency; True: increasing wavelength"""
    nu = C_UM_HZ / wav
    if not reverse:
        sl = slice(None, None, -1)   # increasing frequency
    else:
        sl = slice(None)             # increasing wavelength
    h0 = fits.PrimaryHDU()
    h0.header['MODEL'] = name
    h0.header['DISTANCE'] = (1. * u.kpc).to(u.cm).value
    h0.header['NAP'] = len(ap)
    h0.header['NWAV'] = len(wav)
    h1 = fits.BinTableHDU.from_columns([
        fits.Column(name='WAVELENGTH', format='D', unit='um', array=wav[sl]),
        fits.Column(name='FREQUENCY', format='D', unit='Hz', array=nu[sl])], name='WAVELENGTHS')
    h2 = fits.BinTableHDU.from_columns([
        fits.Column(name='APERTURE', format='D', unit='AU', array=ap)], name='APERTURES')
    h3 = fits.BinTableHDU.from_columns([
        fits.Column(name='TOTAL_FLUX', format='%iD' % len(wav), unit='mJy', array=flux[:, sl]),
        fits.Column(name='TOTAL_FLUX_ERR', format='%iD' % len(wav), unit='mJy', array=err[:, sl])], name='SEDS')
    fits.HDUList([h0, h1, h2, h3]).writeto(path)


def write_conf(model_dir, aperture_dependent, version):
    with open(os.path.join(model_dir, 'models.conf'), 'w') as f:
        f.write("name = demo\n")
        f.write("length_subdir = 0\n")
        f.write("aperture_dependent = {0}\n".format('yes' if aperture_dependent else 'no'))
        f.write("logd_step = 0.05\n")
        if version == 2:
            f.write("version = 2\n")


def write_parameters(model_dir, names_in_table_order, rng):
    t = Table()
    t['MODEL_NAME'] = np.array(names_in_table_order, dtype='S30')
    t['par1'] = rng.random(len(names_in_table_order))
    t.write(os.path.join(model_dir, 'parameters.fits'))


def build_perfile(model_dir, case, table_order, rng, reverse, gz=False, subdirs=False):
    os.makedirs(os.path.join(model_dir, 'seds'))
    # files are created in yet another random order
    for k in rng.permutation(len(case['names'])):
        name = case['names'][k]
        d = os.path.join(model_dir, 'seds')
        if subdirs and k % 2 == 0:
            d = os.path.join(d, name[:5])
            os.makedirs(d, exist_ok=True)
        path = os.path.join(d, name.strip() + '_sed.fits' + ('.gz' if gz else ''))
        rev = reverse if reverse in (True, False) else bool(rng.integers(2))
        write_sed_file(path, name, case['wav'], case['ap'], case['flux'][k], case['err'][k], rev)
    write_conf(model_dir, len(case['ap']) > 1, 1)
    write_parameters(model_dir, [case['names'][i] for i in table_order], rng)


def build_cube(model_dir, case, table_order, rng, reverse, dtype=np.float64):
    os.makedirs(model_dir)
    names = [case['names'][i] for i in table_order]
    wav = case['wav']
    nu = C_UM_HZ / wav
    sl = slice(None) if reverse else slice(None, None, -1)
    val = case['flux'][table_order][:, :, sl].astype(dtype)
    unc = case['err'][table_order][:, :, sl].astype(dtype)
    h0 = fits.PrimaryHDU(data=np.ones(len(names), dtype=int))
    h0.header['DISTANCE'] = (1. * u.kpc).to(u.cm).value
    h0.header['NWAV'] = len(wav)
    h0.header['NAP'] = len(case['ap'])
    h1 = fits.BinTableHDU.from_columns([
        fits.Column(name='MODEL_NAME', format='30A', array=np.array(names, dtype='S30'))], name='MODEL_NAMES')
    h2 = fits.BinTableHDU.from_columns([
        fits.Column(name='WAVELENGTH', format='D', unit='um', array=wav[sl]),
        fits.Column(name='FREQUENCY', format='D', unit='Hz', array=nu[sl])], name='SPECTRAL_INFO')
    h3 = fits.BinTableHDU.from_columns([
        fits.Column(name='APERTURE', format='D', unit='AU', array=case['ap'])], name='APERTURES')
    h4 = fits.ImageHDU(val, name='VALUES')
    h4.header['BUNIT'] = 'mJy'
    h5 = fits.ImageHDU(unc, name='UNCERTAINTIES')
    h5.header['BUNIT'] = 'mJy'
    fits.HDUList([h0, h1, h2, h3, h4, h5]).writeto(os.path.join(model_dir, 'flux.fits'))
    write_conf(model_dir, len(case['ap']) > 1, 2)
    write_parameters(model_dir, names, rng)


def make_filters(rng, as_tuple=False):
    out = []
    for name, lo, hi, cw, n in [('alice', 1., 5., 3., 30), ('bob', 8., 15., 12., 17), ('eve', 15., 60., 20.5, 50)]:
        wav = np.linspace(hi, lo, n) if name != 'bob' else np.linspace(lo, hi, n)
        f = Filter()
        f.name = name
        f.central_wavelength = cw * u.micron
        f.nu = (C_UM_HZ / wav) * u.Hz
        f.response = 0.1 + rng.random(n)
        f.normalize()
        out.append(f)
    return tuple(out) if as_tuple else out


# ------------------------------------------------- independent reference maths

def ref_rebin(f_nu, f_resp, sed_nu):
    """Integral of the piecewise-linear filter response over the bins centred
    on the SED frequencies (bins limited to the filter's own range)."""
    o = np.argsort(f_nu)
    x = np.asarray(f_nu, float)[o]
    y = np.asarray(f_resp, float)[o]
    cum = np.concatenate([[0.], np.cumsum(0.5 * np.diff(x) * (y[1:] + y[:-1]))])

    def F(t):
        t = min(max(t, x[0]), x[-1])
        i = min(max(np.searchsorted(x, t, side='right') - 1, 0), len(x) - 2)
        yt = y[i] + (y[i + 1] - y[i]) * (t - x[i]) / (x[i + 1] - x[i])
        return cum[i] + 0.5 * (t - x[i]) * (y[i] + yt)

    s = np.sort(np.asarray(sed_nu, float))
    edges = np.concatenate([[s[0]], 0.5 * (s[1:] + s[:-1]), [s[-1]]])
    return s, np.array([F(edges[i + 1]) - F(edges[i]) for i in range(len(s))])


def ref_convolved(case, filt):
    """Expected flux/error (n_models, n_ap) in mJy, rows in case order"""
    nu_sorted, resp = ref_rebin(filt.nu.to(u.Hz).value, filt.response, C_UM_HZ / case['wav'])
    # case['wav'] increasing -> nu decreasing; nu_sorted increasing
    flux = case['flux'][:, :, ::-1]
    err = case['err'][:, :, ::-1]
    return np.sum(flux * resp, axis=2), np.sqrt(np.sum((err * resp) ** 2, axis=2))


def read_convolved_raw(path):
    """Read a convolved file with astropy.io.fits only"""
    with fits.open(path, memmap=False) as h:
        names = [str(x).strip() for x in np.char.decode(np.asarray(h['CONVOLVED FLUXES'].data['MODEL_NAME'], dtype='S'))] \
            if h['CONVOLVED FLUXES'].data['MODEL_NAME'].dtype.kind == 'S' else [str(x).strip() for x in h['CONVOLVED FLUXES'].data['MODEL_NAME']]
        flux = np.array(h['CONVOLVED FLUXES'].data['TOTAL_FLUX'], dtype=float)
        err = np.array(h['CONVOLVED FLUXES'].data['TOTAL_FLUX_ERR'], dtype=float)
        cols = h['CONVOLVED FLUXES'].columns
        units = (cols['TOTAL_FLUX'].unit, cols['TOTAL_FLUX_ERR'].unit)
        filtwav = h[0].header['FILTWAV']
        nmodels = h[0].header['NMODELS']
        nap = h[0].header['NAP']
        ap = np.array(h['APERTURES'].data['APERTURE'], dtype=float)
        ap_unit = h['APERTURES'].columns['APERTURE'].unit
    if flux.ndim == 1:
        flux = flux[:, None]
        err = err[:, None]
    return dict(names=names, flux=flux, err=err, units=units, filtwav=filtwav,
                ap=ap, ap_unit=ap_unit, nmodels=nmodels, nap=nap)


def check_package(model_dir, case, table_order, filters, label):
    """The convolved files of one package against the reference"""
    expected_names = [case['names'][i].strip() for i in table_order]
    out = {}
    for filt in filters:
        path = os.path.join(model_dir, 'convolved', filt.name + '.fits')
        check(os.path.exists(path), label + ": missing " + path)
        raw = read_convolved_raw(path)
        check(raw['names'] == expected_names, label + ": row order differs from the parameter table/cube order for " + filt.name)
        ef, ee = ref_convolved(case, filt)
        check(u.Unit(raw['units'][0]) == u.mJy and u.Unit(raw['units'][1]) == u.mJy, label + ": flux unit")
        check(close(raw['flux'], ef[table_order], rtol=1e-9), label + ": flux of row X is not the flux of SED X for " + filt.name)
        check(close(raw['err'], ee[table_order], rtol=1e-9), label + ": error of row X is not the error of SED X for " + filt.name)
        check(close(raw['filtwav'], filt.central_wavelength.to(u.micron).value, rtol=1e-12), label + ": FILTWAV")
        check(close((raw['ap'] * u.Unit(raw['ap_unit'])).to(u.au).value, case['ap'], rtol=1e-12), label + ": apertures not carried over")
        check(raw['nmodels'] == len(expected_names) and raw['nap'] == len(case['ap']), label + ": NMODELS/NAP")
        # the library's own reader must say the same thing
        c = ConvolvedFluxes.read(path)
        check([str(x).strip() for x in c.model_names] == expected_names, label + ": reader names")
        check(close(c.flux.to(u.mJy).value, raw['flux'], rtol=1e-14), label + ": reader flux")
        check(close(c.error.to(u.mJy).value, raw['err'], rtol=1e-14), label + ": reader error")
        check(close(c.apertures.to(u.au).value, case['ap'], rtol=1e-12), label + ": reader apertures")
        check(close(c.central_wavelength.to(u.micron).value, raw['filtwav'], rtol=1e-14), label + ": reader wavelength")
        check(c.n_models == len(expected_names) and c.n_ap == len(case['ap']), label + ": reader sizes")
        out[filt.name] = raw
    return out


def file_bytes(model_dir, filters):
    return [open(os.path.join(model_dir, 'convolved', f.name + '.fits'), 'rb').read() for f in filters]


def make_extinction():
    e = Extinction()
    e.wav = np.logspace(-2., 3.) * u.micron
    e.chi = e.wav.value ** -2 * u.cm ** 2 / u.g
    return e


def run_fit(model_dir, n_ap, source, use_memmap):
    fitter = Fitter(['bob', 'alice', 'eve'], [3., 3., 3.] * u.arcsec, model_dir,
                    extinction_law=make_extinction(), av_range=[0., 5.],
                    distance_range=[1., 2.] * u.kpc, use_memmap=use_memmap)
    info = fitter.fit(source)
    names = [str(x).strip() for x in info.model_name]
    return {n: (float(np.asarray(info.chi2, float)[i]), float(np.asarray(info.av, float)[i]),
                float(np.asarray(info.sc, float)[i])) for i, n in enumerate(names)}, names


def check_fits_agree(dirs_and_flags, case, rng, label):
    # source: close to one of the models so that the fit is meaningful
    k = int(rng.integers(len(case['names'])))
    s = Source()
    s.name = 'src'
    s.x = 0.
    s.y = 0.
    s.valid = np.array([1, 1, 1])
    base = case['flux'][k, -1, [20, 10, 30]] * (0.8 + 0.4 * rng.random(3))
    s.flux = base
    s.error = 0.1 * base
    results = []
    for d, mm in dirs_and_flags:
        res, names = run_fit(d, len(case['ap']), s, mm)
        check(sorted(names) == sorted(n.strip() for n in case['names']), label + ": fit does not list every model once")
        results.append(res)
    ref = results[0]
    for res in results[1:]:
        for n in ref:
            check(np.allclose(res[n], ref[n], rtol=2e-3, atol=2e-3), label + ": fits disagree for model " + n + " %r %r" % (res[n], ref[n]))


def run_scenario(rng, n_models, n_ap, reverse_pf, reverse_cube, tmp, tag, filters,
                 gz=False, subdirs=False, long_names=False, with_fits=True, convolve_pf=None, convolve_cube=None):
    case = make_case(rng, n_models, n_ap, long_names=long_names)
    table_order = rng.permutation(n_models)
    d1 = os.path.join(tmp, tag + '_pf')
    d2 = os.path.join(tmp, tag + '_cube')
    d3 = os.path.join(tmp, tag + '_cube_nomm')
    os.makedirs(d1)
    build_perfile(d1, case, table_order, rng, reverse_pf, gz=gz, subdirs=subdirs)
    build_cube(d2, case, table_order, rng, reverse_cube)
    build_cube(d3, case, table_order, rng, not reverse_cube)

    (convolve_pf or convolve_model_dir)(d1, filters)
    (convolve_cube or convolve_model_dir)(d2, filters, memmap=True)
    (convolve_cube or convolve_model_dir)(d3, filters, memmap=False)

    r1 = check_package(d1, case, table_order, filters, tag + " per-file")
    r2 = check_package(d2, case, table_order, filters, tag + " cube(memmap)")
    r3 = check_package(d3, case, table_order, filters, tag + " cube(no memmap)")
    for f in filters:
        for other in (r2, r3):
            check(r1[f.name]['names'] == other[f.name]['names'], tag + ": per-file and cube rows differ")
            check(close(r1[f.name]['flux'], other[f.name]['flux'], rtol=1e-10), tag + ": per-file and cube fluxes differ")
            check(close(r1[f.name]['err'], other[f.name]['err'], rtol=1e-10), tag + ": per-file and cube errors differ")

    # second call on the same packages: refused without overwrite, identical with
    before = [file_bytes(d, filters) for d in (d1, d2, d3)]
    for d in (d1, d2):
        try:
            convolve_model_dir(d, filters)
        except OSError:
            pass
        else:
            check(False, tag + ": existing output silently overwritten")
    convolve_model_dir(d1, filters, overwrite=True)
    convolve_model_dir(d2, filters, overwrite=True, memmap=False)
    convolve_model_dir(d3, filters, overwrite=True, memmap=True)
    after = [file_bytes(d, filters) for d in (d1, d2, d3)]
    check(before == after, tag + ": second convolution of the same package gives other files")

    if with_fits:
        check_fits_agree([(d1, True), (d1, False), (d2, True), (d2, False), (d3, True), (d3, False)], case, rng, tag)
    return case, table_order, (d1, d2, d3)


def standard_scenarios(rng, tmp, **kw):
    filters = make_filters(rng)
    out = []
    # boundary: a single model, a single aperture
    out.append(run_scenario(rng, 1, 1, False, False, tmp, 's1', filters, **kw))
    # boundary: 8 models, 5 apertures, 30-character names, SEDs stored by increasing wavelength, gz files
    out.append(run_scenario(rng, 8, 5, True, True, tmp, 's2', filters, long_names=True, gz=True, **kw))
    # mixed spectral order per file, sub-directories, filters given as a tuple
    out.append(run_scenario(rng, 5, 3, 'mixed', False, tmp, 's3', tuple(filters), subdirs=True, **kw))
    # several apertures but few models
    out.append(run_scenario(rng, 2, 2, False, True, tmp, 's4', filters, **kw))
    # many models, one aperture
    out.append(run_scenario(rng, 7, 1, True, False, tmp, 's5', filters, **kw))
    return filters, out


# ------------------------------------------------------------ specific to q3
# (interface hardening: more input forms, more specific exceptions, new
# trailing keywords).  An input form that only the hardened code accepts is
# tried too: it must either be refused (TypeError, nothing written) or give
# files for which the property holds.

def fresh_pair(rng, tmp, tag, n_models, n_ap):
    case = make_case(rng, n_models, n_ap)
    order = rng.permutation(n_models)
    d1 = os.path.join(tmp, tag + '_pf')
    os.makedirs(d1)
    build_perfile(d1, case, order, rng, 'mixed')
    d2 = os.path.join(tmp, tag + '_cube')
    build_cube(d2, case, order, rng, True)
    return case, order, d1, d2


def outputs(d):
    p = os.path.join(d, 'convolved')
    return sorted(os.listdir(p)) if os.path.exists(p) else []


def try_form(tag, rng, tmp, filters, call, n_models=4, n_ap=3, expected_filters=None):
    """call(model_dir_str, filters) -> None, using some input form"""
    case, order, d1, d2 = fresh_pair(rng, tmp, tag, n_models, n_ap)
    accepted = []
    for d, label in ((d1, 'per-file'), (d2, 'cube')):
        try:
            call(d, filters)
        except TypeError:
            check(outputs(d) == [], tag + ": refused but files were written")
            accepted.append(False)
        else:
            check_package(d, case, order, expected_filters or filters, tag + " " + label)
            check(outputs(d) == sorted(f.name + '.fits' for f in (expected_filters or filters)), tag + ": set of files")
            accepted.append(True)
    check(accepted[0] == accepted[1], tag + ": accepted for one format only")
    if accepted[0]:
        for f in (expected_filters or filters):
            a = read_convolved_raw(os.path.join(d1, 'convolved', f.name + '.fits'))
            b = read_convolved_raw(os.path.join(d2, 'convolved', f.name + '.fits'))
            check(a['names'] == b['names'] and close(a['flux'], b['flux'], rtol=1e-10) and close(a['err'], b['err'], rtol=1e-10),
                  tag + ": per-file and cube differ")
    return accepted[0]


def sort_checks(rng):
    from astropy.table import Column
    from sedfitter.utils.misc import order_to_match
    n, n_ap = 6, 3
    names = np.array(['nm_%02d' % i for i in rng.permutation(40)[:n]])
    flux = rng.random((n, n_ap)) + 1.
    err = rng.random((n, n_ap))
    lookup_f = {nm: flux[i].tolist() for i, nm in enumerate(names)}
    lookup_e = {nm: err[i].tolist() for i, nm in enumerate(names)}

    def new():
        return ConvolvedFluxes(wavelength=2. * u.micron, model_names=names.copy(), apertures=[1., 2., 3.] * u.au,
                               flux=flux.copy() * u.mJy, error=err.copy() * u.mJy)

    def holds(c, wanted):
        return ([str(x) for x in c.model_names] == [str(w).strip() for w in wanted]
                and all(c.flux.value[i].tolist() == lookup_f[str(w).strip()] for i, w in enumerate(wanted))
                and all(c.error.value[i].tolist() == lookup_e[str(w).strip()] for i, w in enumerate(wanted)))

    perm = rng.permutation(n)
    wanted = names[perm]
    forms = {
        'array': wanted,
        'list': list(wanted),
        'tuple': tuple(wanted),
        'column': Column(wanted, name='MODEL_NAME'),
        'padded': np.array([w + '   ' for w in wanted]),
        'object list of np.str_': [np.str_(w) for w in wanted],
    }
    for key, form in forms.items():
        c = new()
        c.sort_to_match(form)
        check(holds(c, wanted), "sort_to_match(%s): row X does not hold the values of model X" % key)
        c.sort_to_match(form)                                   # second call: nothing moves
        check(holds(c, wanted), "sort_to_match(%s) twice" % key)
        c.sort_to_match(names)                                  # and back
        check(holds(c, names), "sort_to_match(%s) back" % key)
    # forms that only the hardened code takes: refused, or right
    for key, form in {'bytes': wanted.astype('S30'), 'generator': (w for w in wanted)}.items():
        c = new()
        try:
            c.sort_to_match(form)
        except Exception:
            check(holds(c, names), "sort_to_match(%s): refused but the object was changed" % key)
        else:
            check(holds(c, wanted), "sort_to_match(%s): accepted but wrong" % key)
    # names that are not those of the models stay refused, object untouched
    bad_sets = [np.array(list(wanted[:-1]) + ['other']),
                np.array(list(wanted[:-1]) + [wanted[0]]),
                np.array(list(wanted) + ['extra'])]
    for bad in bad_sets:
        c = new()
        try:
            c.sort_to_match(bad)
        except Exception as e:
            check(isinstance(e, Exception) and ("Sorting failed" in str(e) or isinstance(e, (IndexError, ValueError))), "refused with an odd error %r" % e)
            check(holds(c, names), "refused but the object was changed")
        else:
            check(False, "names that are not the models' names were accepted")
    # order_to_match with plain sequences
    for a, r in [(list(names), list(wanted)), (tuple(names), wanted), (names, tuple(wanted)), ([3, 1, 2], [1, 2, 3]), ([5], [5])]:
        o = order_to_match(a, r)
        check([a[i] for i in o] == list(r), "order_to_match")
    # repr and == do not alter anything
    c = new()
    repr(c)
    check(c == new() and holds(c, names), "== / repr")


def main():
    import pathlib
    tmp = tempfile.mkdtemp()
    try:
        rng = np.random.default_rng(31337)
        # the whole property on the standard set of packages (usual input forms)
        filters, scen = standard_scenarios(rng, tmp)

        sort_checks(rng)

        # numpy booleans for the flags: legal before and after
        case, order, d1, d2 = fresh_pair(rng, tmp, 'npbool', 3, 2)
        convolve_model_dir(d1, filters, overwrite=np.False_)
        convolve_model_dir(d2, filters, overwrite=np.False_, memmap=np.True_)
        convolve_model_dir(d1, filters, overwrite=np.True_)
        convolve_model_dir(d2, filters, overwrite=np.True_, memmap=np.False_)
        check_package(d1, case, order, filters, "numpy bool per-file")
        check_package(d2, case, order, filters, "numpy bool cube")

        # other forms
        got = {}
        got['path'] = try_form('path', rng, tmp, filters, lambda d, f: convolve_model_dir(pathlib.Path(d), f))
        got['single'] = try_form('single', rng, tmp, filters, lambda d, f: convolve_model_dir(d, f[1]), expected_filters=[filters[1]])
        got['generator'] = try_form('generator', rng, tmp, filters, lambda d, f: convolve_model_dir(d, (x for x in f)))
        got['progress'] = try_form('progress', rng, tmp, filters, lambda d, f: convolve_model_dir(d, f, progress=False), n_models=8, n_ap=5)
        got['progress1'] = try_form('progress1', rng, tmp, filters, lambda d, f: convolve_model_dir(d, f, False, True, True), n_models=1, n_ap=1)
        got['trailing slash'] = try_form('slash', rng, tmp, filters, lambda d, f: convolve_model_dir(d + '/', f))
        check(got['trailing slash'], "a directory name with a trailing slash was refused")
        print("input forms accepted:", got)

        # parameter table / SED / convolved files through Path objects
        from sedfitter.models import load_parameter_table
        from sedfitter.sed import SED, SEDCube
        case, order, (d1, d2, d3) = scen[2]
        wanted = [case['names'][i] for i in order]
        for form in (d1, pathlib.Path(d1)):
            try:
                t = load_parameter_table(form)
            except TypeError:
                check(not isinstance(form, str), "load_parameter_table refused a string")
            else:
                check([str(x).strip() for x in t['MODEL_NAME']] == wanted, "load_parameter_table: order")
        cube = SEDCube.read(pathlib.Path(d2) / 'flux.fits')
        check([str(x) for x in cube.names] == wanted, "SEDCube.read(Path)")
        for f in filters:
            a = ConvolvedFluxes.read(pathlib.Path(d1) / 'convolved' / (f.name + '.fits'))
            b = ConvolvedFluxes.read(os.path.join(d2, 'convolved', f.name + '.fits'))
            check([str(x) for x in a.model_names] == wanted == [str(x) for x in b.model_names], "ConvolvedFluxes.read(Path)")
            check(close(a.flux.value, b.flux.value, rtol=1e-10) and close(a.error.value, b.error.value, rtol=1e-10), "ConvolvedFluxes.read(Path) values")
        import glob
        for path in sorted(glob.glob(os.path.join(d1, 'seds', '*.fits')) + glob.glob(os.path.join(d1, 'seds', '*', '*.fits'))):
            s1 = SED.read(path, unit_flux=u.mJy)
            s2 = SED.read(pathlib.Path(path), unit_flux=u.mJy)
            k = case['names'].index(s1.name)
            check(s1.name == s2.name and np.all(s1.flux == s2.flux) and np.all(np.diff(s1.nu.value) > 0), "SED.read(Path)")
            check(close(s1.flux.value, case['flux'][k][:, ::-1], rtol=1e-12), "SED.read: values")

        # refused inputs stay refused
        nameless = Filter()
        nameless.central_wavelength = 3. * u.micron
        nameless.nu = filters[0].nu
        nameless.response = filters[0].response
        nowav = Filter()
        nowav.name = 'nowav'
        nowav.nu = filters[0].nu
        nowav.response = filters[0].response
        for bad, msg in ((nameless, "filter name needs to be set"), (nowav, "filter central wavelength needs to be set")):
            case, order, e1, e2 = fresh_pair(rng, tmp, 'bad' + msg.split()[1], 2, 2)
            for d in (e1, e2):
                try:
                    convolve_model_dir(d, [filters[0], bad])
                except Exception as e:
                    check(msg in str(e), "bad filter: message")
                else:
                    check(False, "bad filter accepted")
                check(outputs(d) == [], "bad filter: files written")
        # cube with one model more than the parameter table / other names
        case, order, e1, e2 = fresh_pair(rng, tmp, 'mismatch', 4, 2)
        os.remove(os.path.join(e2, 'parameters.fits'))
        write_parameters(e2, [case['names'][i] for i in order][:-1], rng)
        try:
            convolve_model_dir(e2, filters)
        except ValueError:
            pass
        else:
            check(False, "cube with one model more than the table accepted")
        os.remove(os.path.join(e2, 'parameters.fits'))
        write_parameters(e2, [case['names'][i] for i in order][::-1], rng)
        try:
            convolve_model_dir(e2, filters)
        except ValueError as e:
            check("do not match" in str(e), "mismatch: message")
        else:
            check(False, "cube in another order than the table accepted")
        check(outputs(e2) == [], "mismatch: files written")
        # per-file package whose table misses a model / has no SEDs / has no table
        os.remove(os.path.join(e1, 'parameters.fits'))
        write_parameters(e1, [case['names'][i] for i in order][:-1] + ['zzz'], rng)
        try:
            convolve_model_dir(e1, filters)
        except Exception as e:
            check("Sorting failed" in str(e), "per-file mismatch: message")
        else:
            check(False, "per-file package with a foreign name in the table accepted")
        check(outputs(e1) == [], "per-file mismatch: files written")
        os.remove(os.path.join(e1, 'parameters.fits'))
        try:
            convolve_model_dir(e1, filters)
        except Exception as e:
            check("Parameter file not found" in str(e), "no table: message")
        else:
            check(False, "package without parameter table accepted")
        dempty = os.path.join(tmp, 'empty')
        os.makedirs(os.path.join(dempty, 'seds'))
        write_conf(dempty, False, 1)
        write_parameters(dempty, ['x'], rng)
        try:
            convolve_model_dir(dempty, filters)
        except Exception as e:
            check("No SEDs found" in str(e), "empty package: message")
        else:
            check(False, "empty package accepted")
    finally:
        shutil.rmtree(tmp, ignore_errors=True)
    print("demo q3 OK (%i checks)" % N_CHECKS[0])


if __name__ == '__main__':
    main()
