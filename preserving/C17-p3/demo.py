import sys, os
sys.path.insert(0, os.getcwd())

import io
import shutil
import tempfile
import contextlib

import numpy as np
import matplotlib
matplotlib.use('Agg')
from astropy import units as u
from astropy import constants as const
from astropy.table import Table

import sedfitter
assert os.path.dirname(os.path.abspath(sedfitter.__file__)) == os.path.join(os.getcwd(), 'sedfitter'), sedfitter.__file__

from sedfitter.sed import SED, SEDCube
from sedfitter.extinction import Extinction
from sedfitter.fit import Fitter
from sedfitter.fit_info import FitInfoFile
from sedfitter.source import Source
from sedfitter.plot import plot

RTOL = 3e-3   # rounding of the constants used by the library (c = 3e8, kpc = 3.086e21)
N_CHECKED = [0]


def quiet(func, *args, **kwargs):
    with contextlib.redirect_stdout(io.StringIO()):
        return func(*args, **kwargs)


def make_package(directory, seed, n_models, n_wav, n_ap, dtype=float, wav_decreasing=False):
    rng = np.random.RandomState(seed)
    os.makedirs(directory)
    cube = SEDCube()
    cube.names = np.array(['m_{0:03d}'.format(i) for i in range(n_models)])
    cube.distance = 1 * u.kpc
    wav = np.logspace(-1., 3., n_wav)
    if wav_decreasing:
        wav = wav[::-1]
    cube.wav = wav * u.micron
    shape_sed = (1. + 0.5 * np.sin(np.log10(wav) * 2.)) * (wav / 10.) ** rng.uniform(-0.5, 1.0, (n_models, 1, 1))
    if n_ap > 1:
        cube.apertures = np.logspace(2., 5., n_ap) * u.au
        growth = np.cumsum(rng.uniform(0.2, 1., (n_models, n_ap, n_wav)), axis=1)
        val = shape_sed * growth
    else:
        cube.apertures = None
        val = shape_sed * rng.uniform(1., 2., (n_models, 1, n_wav))
    cube.val = val.astype(dtype) * u.mJy
    cube.unc = (val * 0.01).astype(dtype) * u.mJy
    cube.write(os.path.join(directory, 'flux.fits'))
    with open(os.path.join(directory, 'models.conf'), 'w') as f:
        f.write("name = demo\n")
        f.write("length_subdir = 0\n")
        f.write("aperture_dependent = {0}\n".format('yes' if n_ap > 1 else 'no'))
        f.write("logd_step = 0.05\n")
        f.write("version = 2\n")
    t = Table()
    t['MODEL_NAME'] = np.array(cube.names, dtype='S')
    t['par1'] = rng.uniform(size=n_models)
    t.write(os.path.join(directory, 'parameters.fits'))
    return cube


def make_law(seed):
    rng = np.random.RandomState(seed)
    law = Extinction()
    law.wav = np.logspace(-2., 4., 40) * u.micron
    law.chi = (law.wav.value ** -1.5 * rng.uniform(0.8, 1.2, 40) * 200.) * u.cm ** 2 / u.g
    return law


def independent_av_factor(law, wav_micron, av):
    lw = law.wav.to(u.micron).value
    lc = law.chi.value
    o = np.argsort(lw)
    chi = np.interp(wav_micron, lw[o], lc[o], left=0., right=0.)
    chi_v = np.interp(0.55, lw[o], lc[o])
    return 10. ** (-0.4 * av * chi / chi_v)


def independent_curve_value(cube, model_name, wav_micron, aperture_arcsec, sc, av, law):
    """nu F_nu in erg/cm^2/s of model at one tabulated wavelength, computed from the cube alone"""
    im = list(cube.names).index(model_name)
    iw = int(np.argmin(np.abs(cube.wav.to(u.micron).value - wav_micron)))
    assert abs(cube.wav.to(u.micron).value[iw] / wav_micron - 1) < 1e-10
    col = np.asarray(cube.val.to(u.mJy).value[im, :, iw], dtype=float)
    if cube.apertures is None:
        f_mjy = col[0]
    else:
        tab = cube.apertures.to(u.au).value
        d_pc = 10. ** sc * 1000.
        a = min(aperture_arcsec * d_pc, tab.max())
        assert a >= tab.min()
        k = int(np.clip(np.searchsorted(tab, a), 1, len(tab) - 1))
        w = (a - tab[k - 1]) / (tab[k] - tab[k - 1])
        f_mjy = col[k - 1] * (1 - w) + col[k] * w
    f_mjy = f_mjy * 10. ** (-2. * sc) * independent_av_factor(law, wav_micron, av)
    nu = const.c.si.value / (wav_micron * 1e-6)
    return f_mjy * 1e-26 * nu   # mJy -> erg/s/cm2/Hz is 1e-26, times nu


def shown_apertures(mode, ap):
    if mode == 'interp':
        return [None]
    if mode == 'largest':
        return [ap.max()]
    if mode == 'largest+smallest':
        return [ap.min(), ap.max()]
    if mode == 'all':
        return list(np.unique(ap))
    raise ValueError(mode)


def check_figures(figs, infos, cube, law, mode, n_sel, multi_ap):
    """The property as stated, on the LineCollection segments"""
    assert set(figs) == set(i.source.name for i in infos), (sorted(figs), [i.source.name for i in infos])
    for info in infos:
        filters = info.meta.filters
        wav = np.array([f['wav'].to(u.micron).value for f in filters])
        ap = np.array([f['aperture_arcsec'] for f in filters])
        shown = shown_apertures(mode, ap)
        n_fits = min(n_sel, len(info.chi2))
        segs = figs[info.source.name]['lines'].get_segments()
        assert len(segs) == n_fits * len(shown), (mode, len(segs), n_fits, len(shown))
        chi2 = np.asarray(info.chi2, float)
        assert np.all(np.diff(chi2) >= 0)
        # fits are drawn from worst to best: group g corresponds to fit n_fits-1-g, best fit last
        for g in range(n_fits):
            i = n_fits - 1 - g
            name = str(info.model_name[i]).strip()
            av = float(np.asarray(info.av, float)[i])
            sc = float(np.asarray(info.sc, float)[i])
            for j, shown_ap in enumerate(shown):
                seg = np.asarray(segs[g * len(shown) + j])
                assert seg.shape == (cube.n_wav, 2)
                assert np.allclose(np.sort(seg[:, 0]), np.sort(cube.wav.to(u.micron).value), rtol=1e-12)
                assert np.all(np.isfinite(seg))
                for k in range(len(filters)):
                    if shown_ap is not None and multi_ap and ap[k] != shown_ap:
                        continue
                    row = int(np.argmin(np.abs(seg[:, 0] - wav[k])))
                    assert abs(seg[row, 0] / wav[k] - 1) < 1e-10
                    drawn = seg[row, 1]
                    # (1) predicted flux stored with the fit (log10 mJy) -> nu F_nu
                    stored = 10. ** (float(info.model_fluxes[i, k]) - 26.) * const.c.si.value / (wav[k] * 1e-6)
                    assert abs(drawn / stored - 1) < RTOL, ('stored', mode, name, k, drawn, stored)
                    # (2) independent evaluation from the cube
                    indep = independent_curve_value(cube, name, wav[k], ap[k], sc, av, law)
                    assert abs(drawn / indep - 1) < RTOL, ('indep', mode, name, k, drawn, indep)
                    N_CHECKED[0] += 1


def run_case(tmp, label, n_ap, filt_idx, apertures_arcsec, seed, dtype=float, wav_decreasing=False,
             n_models=7, n_wav=45, modes=('interp', 'largest', 'largest+smallest', 'all'), n_sources=2):
    pkg = os.path.join(tmp, 'pkg_' + label)
    cube = make_package(pkg, seed, n_models, n_wav, n_ap, dtype=dtype, wav_decreasing=wav_decreasing)
    law = make_law(seed + 1)
    filters = [cube.wav[k].to(u.micron) for k in filt_idx]
    fitter = quiet(Fitter, filters, np.array(apertures_arcsec) * u.arcsec, pkg,
                   extinction_law=law, av_range=[0., 12.], distance_range=[0.8, 3.] * u.kpc)
    rng = np.random.RandomState(seed + 2)
    infos = []
    for isrc in range(n_sources):
        # source = one of the models, reddened and moved, plus noise
        m = rng.randint(n_models)
        sc_true = rng.uniform(0.0, 0.4)
        av_true = rng.uniform(0.5, 8.)
        fl = []
        for k, a in zip(filt_idx, apertures_arcsec):
            w = cube.wav.to(u.micron).value[k]
            v = independent_curve_value(cube, cube.names[m], w, a, sc_true, av_true, law)
            fl.append(v / (const.c.si.value / (w * 1e-6)) * 1e26 * rng.uniform(0.9, 1.1))
        line = 'src_{0}_{1} 0.0 0.0 '.format(label, isrc) + ' '.join(['1'] * len(fl)) + ' ' + \
            ' '.join('{0:.6e} {1:.6e}'.format(f, 0.1 * f) for f in fl)
        info = quiet(fitter.fit, Source.from_ascii(line))
        infos.append(info)
    # results as a file
    fname = os.path.join(tmp, 'fits_' + label + '.fitinfo')
    fout = FitInfoFile(fname, 'w')
    for info in infos:
        fout.write(info)
    fout.close()
    forms = {1: ('tuple', 'file'), 2: ('list',), 3: ('single', 'file'), 4: ('list',), 5: ('list', 'file')}
    for mode in modes:
        for n_sel in (1, 2, 3, 4, 5):
            for form in forms[n_sel]:
                expected = infos
                if form == 'list':
                    arg = list(infos)
                elif form == 'tuple':
                    arg = tuple(infos)
                elif form == 'single':
                    arg = infos[0]
                    expected = infos[:1]
                else:
                    arg = fname
                figs = quiet(plot, arg, select_format=('N', n_sel), sed_type=mode)
                check_figures(figs, expected, cube, law, mode, n_sel, n_ap > 1)
                # second call on the very same objects / file gives the same answer
                figs2 = quiet(plot, arg, select_format=('N', n_sel), sed_type=mode)
                check_figures(figs2, expected, cube, law, mode, n_sel, n_ap > 1)
                for key in figs:
                    s1 = figs[key]['lines'].get_segments()
                    s2 = figs2[key]['lines'].get_segments()
                    assert len(s1) == len(s2) and all(np.array_equal(a, b) for a, b in zip(s1, s2))
                # caller's objects untouched
                assert all(len(i.chi2) == n_models for i in infos)
    return pkg, cube, law, fitter, infos, fname


def extra_checks(tmp, results):
    """Checks aimed at SED.scale_to_*, SED.interpolate*, and the way plot() walks through its input"""
    rng = np.random.RandomState(7)

    for key in ('multi', 'single', 'multi32'):
        pkg, cube, law, fitter, infos, fname = results[key]
        c = SEDCube.read(os.path.join(pkg, 'flux.fits'), memmap=False)
        for name in c.names[:3]:
            s = c.get_sed(name)
            f0 = np.array(s.flux.value, dtype=float)
            e0 = np.array(s.error.value, dtype=float)
            w0 = s.wav.to(u.micron).value.copy()
            for d_kpc, av in ((1., 0.), (2.5, 3.7), (0.31, 11.)):
                s1 = s.scale_to_distance(d_kpc * 3.086e21)
                s2 = s1.scale_to_av(av, law.get_av)
                s2b = s.scale_to_distance(d_kpc * 3.086e21).scale_to_av(av, law.get_av)    # again, same object
                red = independent_av_factor(law, w0, av)
                kpc_cm = (1 * u.kpc).to(u.cm).value
                dil = (kpc_cm / (d_kpc * 3.086e21)) ** 2
                assert np.allclose(s1.flux.value, f0 * dil, rtol=1e-6)
                assert np.allclose(s1.error.value, e0 * dil, rtol=1e-6)
                assert np.allclose(s2.flux.value, f0 * dil * red, rtol=1e-6)
                assert np.allclose(s2.error.value, e0 * dil * red, rtol=1e-6)
                assert np.array_equal(s2.flux.value, s2b.flux.value)
                assert s2.flux.unit == s.flux.unit and s2.error.unit == s.error.unit
                assert abs(s1.distance.to(u.cm).value / (d_kpc * 3.086e21) - 1) < 1e-12
                assert abs(s2.distance.to(u.cm).value / (d_kpc * 3.086e21) - 1) < 1e-12
                assert s2.name == s.name and s2.n_ap == s.n_ap and s2.n_wav == s.n_wav
                assert np.array_equal(s2.wav.to(u.micron).value, w0)
                # the original SED and the intermediate one are not touched
                assert np.array_equal(s.flux.value, f0.astype(s.flux.dtype))
                assert abs(s.distance.to(u.kpc).value - 1) < 1e-12
                assert np.allclose(s1.flux.value, f0 * dil, rtol=1e-6)
                # results do not share memory with the original
                s2.flux[...] = 0 * s2.flux.unit
                assert np.array_equal(s.flux.value, f0.astype(s.flux.dtype))
                assert np.allclose(s1.flux.value, f0 * dil, rtol=1e-6)
            if s.n_ap > 1:
                tab = s.apertures.to(u.au).value
                fv = np.array(s.flux.value, dtype=float)
                # SED.interpolate: fixed apertures; node, between nodes, above the table (reset to max)
                req = np.array([tab[0], tab[2], np.sqrt(tab[1] * tab[2]), tab[-1], tab[-1] * 4.])
                for form in ('array', 'quantity'):
                    arg = req.copy() if form == 'array' else (req / 206264.806) * u.pc
                    got = np.asarray(s.interpolate(arg))
                    assert got.shape == (s.n_wav, len(req))
                    for j, a in enumerate(np.minimum(req, tab[-1])):
                        ref = np.array([np.interp(a, tab, fv[:, iw]) for iw in range(s.n_wav)])
                        assert np.allclose(got[:, j], ref, rtol=1e-5 if form == 'quantity' else 1e-11)
                try:
                    s.interpolate(np.array([tab[0] * 0.9]))
                except Exception as exc:
                    assert 'too small' in str(exc)
                else:
                    raise AssertionError('aperture below table accepted')
                # SED.interpolate_variable
                sw = s.wav.to(u.micron).value
                fw = sw[[30, 4, 17]].copy()
                fa = np.array([tab[1] * 1.1, tab[-1] * 2., tab[3]])
                got = np.asarray(s.interpolate_variable(fw.copy(), fa.copy()))
                fa_eff = np.where(fa > tab.max(), tab.max() * 0.999, fa)
                o = np.argsort(fw)
                a = np.clip(10. ** np.interp(np.log10(sw), np.log10(fw[o]), np.log10(fa_eff[o])), tab.min(), tab.max())
                ref = np.array([np.interp(a[iw], tab, fv[:, iw]) for iw in range(len(sw))])
                assert np.allclose(got, ref, rtol=1e-11)

    # plot(): an unusable display mode is an error (and the results file can be used again afterwards)
    pkg, cube, law, fitter, infos, fname = results['multi']
    for arg in (fname, infos):
        try:
            quiet(plot, arg, select_format=('N', 2), sed_type='biggest')
        except Exception:
            pass
        else:
            raise AssertionError('unknown sed_type accepted')
        figs = quiet(plot, arg, select_format=('N', 2), sed_type='all')
        check_figures(figs, infos, cube, law, 'all', 2, True)
    # other ways of selecting 1..5 fits: plot_max on top of 'A', 'C' with a huge chi2 limit, subset of sources
    for mode in ('interp', 'largest+smallest'):
        figs = quiet(plot, fname, select_format=('A', None), plot_max=4, sed_type=mode)
        check_figures(figs, infos, cube, law, mode, 4, True)
        figs = quiet(plot, infos, select_format=('C', 1e300), plot_max=5, sed_type=mode)
        check_figures(figs, infos, cube, law, mode, 5, True)
        figs = quiet(plot, fname, select_format=('N', 3), sed_type=mode, sources=[infos[1].source.name])
        check_figures(figs, infos[1:], cube, law, mode, 3, True)
        figs = quiet(plot, fname, select_format=('N', 3), sed_type=mode, memmap=False)
        check_figures(figs, infos, cube, law, mode, 3, True)
    # writing to a directory still produces one file per source and returns nothing
    out = os.path.join(tmp, 'plots')
    ret = quiet(plot, fname, output_dir=out, select_format=('N', 3), sed_type='all', format='png')
    assert ret is None
    assert sorted(os.listdir(out)) == sorted(i.source.name + '.png' for i in infos)


def main():
    tmp = tempfile.mkdtemp(prefix='demoC17_')
    try:
        results = {}
        # multi-aperture package, several distinct apertures
        results['multi'] = run_case(tmp, 'multi', 9, [8, 17, 23, 31, 40], [1.5, 3., 3., 6., 12.], seed=11)
        # multi-aperture, float32 cube stored with decreasing wavelength, filters given in non-monotonic order,
        # one aperture that exceeds the table at the far distances
        results['multi32'] = run_case(tmp, 'multi32', 6, [30, 5, 18], [2., 45., 8.], seed=23, dtype=np.float32,
                                      wav_decreasing=True)
        # single-aperture package
        results['single'] = run_case(tmp, 'single', 1, [6, 20, 33, 41], [2., 2., 5., 9.], seed=37)
        # boundary: one single filter/one source/first and last tabulated wavelength
        results['edge'] = run_case(tmp, 'edge', 4, [0, 44], [3., 3.], seed=41, n_sources=1, n_models=5)
        extra_checks(tmp, results)
    finally:
        shutil.rmtree(tmp, ignore_errors=True)
    assert N_CHECKED[0] > 1000
    print('OK: property C17 verified on {0} curve points'.format(N_CHECKED[0]))


if __name__ == '__main__':
    main()
