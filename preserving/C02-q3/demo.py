import sys, os; sys.path.insert(0, os.getcwd())
# Demonstration for property C02 (distance-dependent fits pick the grid optimum
# of correctly scaled model fluxes).  Everything the library reports is compared
# with an independent, loop-based computation written only from the statement
# of the property.
import io
import math
import shutil
import tempfile
import contextlib

import numpy as np
from astropy import units as u
from astropy.io import fits

SCRATCH = tempfile.mkdtemp(prefix='demoQ_C02_')
tempfile.tempdir = SCRATCH          # the library never removes its mkdtemp() dirs

import sedfitter
assert os.path.dirname(os.path.dirname(os.path.abspath(sedfitter.__file__))) == os.getcwd(), sedfitter.__file__
from sedfitter.fit import Fitter
from sedfitter.source import Source
from sedfitter.extinction import Extinction
from sedfitter.sed import SEDCube

PC_IN_AU = 206264.80624709636       # 1 pc in au; 1 arcsec at 1 pc subtends 1 au
N_CHECKED = {'models': 0, 'clipped': 0, 'beyond': 0, 'interior_best': 0, 'cases': 0}


def quiet(func, *args, **kwargs):
    with contextlib.redirect_stdout(io.StringIO()):
        return func(*args, **kwargs)


# --------------------------------------------------------------------------
# building packages (written with astropy.io.fits only for format 1)
# --------------------------------------------------------------------------

def make_extinction():
    e = Extinction()
    e.wav = np.logspace(-1., 3., 60) * u.micron
    e.chi = (3. * e.wav.value ** -1.7 + 0.01) * u.cm ** 2 / u.g
    return e


def ext_coefficients(ext, wav_um):
    w = ext.wav.to(u.micron).value
    c = ext.chi.value
    return np.array([-0.4 * np.interp(x, w, c, left=0., right=0.) / np.interp(0.55, w, c) for x in wav_um])


def write_conf(directory, step, version):
    with open(os.path.join(directory, 'models.conf'), 'w') as f:
        f.write("name = demo\nlength_subdir = 0\naperture_dependent = yes\n")
        f.write("logd_step = %r\n" % step)
        if version == 2:
            f.write("version = 2\n")


def build_package_1(directory, names, ap_values, ap_unit_fits, flux, wav_um, filt_names, step):
    """flux: (n_models, n_ap, n_filt) in mJy at 1 kpc"""
    os.makedirs(os.path.join(directory, 'convolved'))
    write_conf(directory, step, 1)
    n_ap = len(ap_values)
    for k, fname in enumerate(filt_names):
        hdu0 = fits.PrimaryHDU()
        hdu0.header['FILTWAV'] = float(wav_um[k])
        hdu0.header['NMODELS'] = len(names)
        hdu0.header['NAP'] = n_ap
        cols = [fits.Column(name='MODEL_NAME', format='30A', array=np.array(names, dtype='S30')),
                fits.Column(name='TOTAL_FLUX', format='%dD' % n_ap, unit='mJy', array=flux[:, :, k]),
                fits.Column(name='TOTAL_FLUX_ERR', format='%dD' % n_ap, unit='mJy', array=0.01 * flux[:, :, k])]
        hdu1 = fits.BinTableHDU.from_columns(cols, name='CONVOLVED FLUXES')
        hdu2 = fits.BinTableHDU.from_columns([fits.Column(name='APERTURE', format='D', unit=ap_unit_fits,
                                                          array=np.asarray(ap_values, float))], name='APERTURES')
        fits.HDUList([hdu0, hdu1, hdu2]).writeto(os.path.join(directory, 'convolved', fname + '.fits'))


def build_package_2(directory, names, ap_au, flux, wav_um, step):
    """cube package; the bands are wavelengths of the cube"""
    os.makedirs(directory)
    write_conf(directory, step, 2)
    # embed the bands into a slightly larger wavelength grid
    all_wav = np.sort(np.concatenate([np.asarray(wav_um, float), [0.3, 900.]]))
    val = np.ones((len(names), len(ap_au), len(all_wav)))
    for k, w in enumerate(wav_um):
        val[:, :, int(np.nonzero(all_wav == w)[0][0])] = flux[:, :, k]
    cube = SEDCube()
    cube.names = np.array(names)
    cube.distance = 1. * u.kpc
    cube.wav = all_wav * u.micron
    cube.apertures = np.asarray(ap_au, float) * u.au
    cube.val = val * u.mJy
    cube.unc = 0.01 * val * u.mJy
    cube.write(os.path.join(directory, 'flux.fits'))


# --------------------------------------------------------------------------
# independent computation
# --------------------------------------------------------------------------

def expected_grid(dmin, dmax, step):
    """fewest log-uniform points containing both ends with spacing <= step"""
    if dmin == dmax:
        return [dmin]
    span = math.log10(dmax) - math.log10(dmin)
    n = 2
    while span / (n - 1) > step:
        n += 1
    return [dmin * (dmax / dmin) ** (i / (n - 1.)) for i in range(n)]


def interp_flux(ap_au, f_tab, r_au):
    """tabulated flux linearly interpolated to r_au; beyond the largest -> largest"""
    if r_au >= ap_au[-1]:
        return f_tab[-1]
    assert r_au >= ap_au[0] * (1 - 1e-12)
    for i in range(len(ap_au) - 1):
        if ap_au[i] <= r_au <= ap_au[i + 1]:
            t = (r_au - ap_au[i]) / (ap_au[i + 1] - ap_au[i])
            return f_tab[i] + t * (f_tab[i + 1] - f_tab[i])
    return f_tab[0]


def source_logs(valid, flux, error):
    n = len(valid)
    w = [0.] * n
    lf = [0.] * n
    for j in range(n):
        if valid[j] == 1:
            lf[j] = math.log10(flux[j]) - 0.5 * (error[j] / flux[j]) ** 2 / math.log(10.)
            w[j] = 1. / (abs(error[j] / flux[j]) / math.log(10.)) ** 2
        elif valid[j] in (2, 3):
            lf[j] = math.log10(flux[j])
        elif valid[j] == 4:
            lf[j] = flux[j]
            w[j] = 1. / error[j] ** 2
    return w, lf


def oracle(ap_au, flux, theta, grid, valid, sflux, serror, kcoef, av_min, av_max):
    """returns av[m][d], chi2[m][d] and the number of (band, distance) beyond the largest aperture"""
    w, lf = source_logs(valid, sflux, serror)
    n_models, n_ap, n_filt = flux.shape
    av = np.zeros((n_models, len(grid)))
    c2 = np.zeros((n_models, len(grid)))
    beyond = 0
    for id_, d in enumerate(grid):
        r_au = [theta[k] * d * 1000. for k in range(n_filt)]     # arcsec x pc = au
        beyond += sum(r > ap_au[-1] for r in r_au)
        for m in range(n_models):
            mf = [interp_flux(ap_au, flux[m, :, k], r_au[k]) * (1. / d) ** 2 for k in range(n_filt)]
            res = [lf[k] - math.log10(mf[k]) for k in range(n_filt)]
            num = math.fsum(w[k] * res[k] * kcoef[k] for k in range(n_filt))
            den = math.fsum(w[k] * kcoef[k] ** 2 for k in range(n_filt))
            a = min(max(num / den, av_min), av_max)
            terms = []
            for k in range(n_filt):
                if valid[k] in (1, 4):
                    terms.append(w[k] * (res[k] - a * kcoef[k]) ** 2)
                elif valid[k] == 2 and a * kcoef[k] < res[k]:
                    terms.append(-2. * math.log(1. - serror[k]))
                elif valid[k] == 3 and a * kcoef[k] > res[k]:
                    terms.append(-2. * math.log(1. - serror[k]))
            av[m, id_] = a
            c2[m, id_] = math.fsum(terms)
    return av, c2, beyond


def check_fit(label, fitter, source, ap_au, flux, theta, drange_kpc, step, ext, wav_um, av_range,
              names, rtol=1e-8):
    info = quiet(fitter.fit, source)
    grid = expected_grid(drange_kpc[0], drange_kpc[1], step)

    # the trial distances themselves
    lib_d = fitter.models.distances.to(u.kpc).value
    assert len(lib_d) == len(grid), (label, len(lib_d), len(grid))
    assert np.allclose(lib_d, grid, rtol=1e-11, atol=0), (label, lib_d, grid)
    assert abs(lib_d[0] / drange_kpc[0] - 1) < 1e-12 and abs(lib_d[-1] / drange_kpc[1] - 1) < 1e-12
    if len(grid) > 1:
        spacing = np.diff(np.log10(lib_d))
        assert np.all(spacing <= step * (1 + 1e-9)), (label, spacing, step)
        assert np.allclose(spacing, spacing[0], rtol=1e-9)
        if len(grid) > 2:   # one point fewer would be too coarse
            assert (math.log10(drange_kpc[1]) - math.log10(drange_kpc[0])) / (len(grid) - 2) > step

    kcoef = ext_coefficients(ext, wav_um)
    av_o, c2_o, beyond = oracle(ap_au, flux, theta, grid, list(source.valid), list(source.flux),
                                list(source.error), kcoef, av_range[0], av_range[1])

    av = np.asarray(info.av, float)
    sc = np.asarray(info.sc, float)
    c2 = np.asarray(info.chi2, float)
    assert av.shape == sc.shape == c2.shape == (len(names),)
    assert np.all(np.diff(c2) >= 0), label                      # best first
    assert sorted(np.asarray(info.model_id).tolist()) == list(range(len(names)))
    logd = [math.log10(d) for d in grid]
    for i in range(len(names)):
        m = int(info.model_id[i])
        assert str(info.model_name[i]).strip() == names[m]
        tol = rtol * (1. + abs(c2_o[m]).max())
        # reported chi^2 is the minimum over the grid
        assert abs(c2[i] - c2_o[m].min()) <= tol, (label, m, c2[i], c2_o[m].min())
        # reported scale is log10(d / kpc) of a grid distance
        j = int(np.argmin([abs(sc[i] - x) for x in logd]))
        assert abs(sc[i] - logd[j]) < 1e-11, (label, m, sc[i], logd)
        # ... namely one where the minimum is reached
        assert abs(c2_o[m, j] - c2_o[m].min()) <= tol, (label, m, j, c2_o[m])
        # reported A_V is the clipped optimum at the reported distance
        assert abs(av[i] - av_o[m, j]) <= max(rtol, 1e-9) * 10 * (1. + abs(av_o[m, j])), (label, m, av[i], av_o[m, j])
        assert av_range[0] <= av[i] <= av_range[1]
        N_CHECKED['models'] += 1
        N_CHECKED['clipped'] += int(av[i] in (av_range[0], av_range[1]))
        N_CHECKED['interior_best'] += int(0 < j < len(grid) - 1)
    N_CHECKED['beyond'] += beyond
    N_CHECKED['cases'] += 1
    return info


def same_info(a, b):
    return (np.array_equal(np.asarray(a.av, float), np.asarray(b.av, float)) and
            np.array_equal(np.asarray(a.sc, float), np.asarray(b.sc, float)) and
            np.array_equal(np.asarray(a.chi2, float), np.asarray(b.chi2, float)) and
            np.array_equal(np.asarray(a.model_id), np.asarray(b.model_id)) and
            np.array_equal(np.asarray(a.model_fluxes, float), np.asarray(b.model_fluxes, float)))


def make_source(valid, flux, error, name='src'):
    s = Source()
    s.name = name
    s.x = 1.
    s.y = 2.
    s.valid = np.array(valid)
    s.flux = np.array(flux, float)
    s.error = np.array(error, float)
    return s


def random_grid(rng, n_models, n_ap, n_filt, monotone):
    if monotone:
        f = np.cumsum(rng.uniform(0.05, 1., (n_models, n_ap, n_filt)), axis=1)
    else:
        f = rng.uniform(0.05, 3., (n_models, n_ap, n_filt))
    return f * 10 ** rng.uniform(-1, 1.5, (n_models, 1, n_filt))


EXT = make_extinction()
WAV3 = [0.6, 1.6, 4.5]
NAMES6 = ['model_%04d' % i for i in range(6)]


def standard_cases(version, use_memmap=False, rtol=1e-8):
    """A handful of packages / ranges / sources, each checked against the oracle.
    Returns (fitter, source, info) of the first case for further use."""
    rng = np.random.default_rng(20260927 + version)
    keep = None
    cases = [
        # n_ap, monotone, ap range (log10 au), theta (arcsec), distance range (kpc), step, av range
        dict(n_ap=4, mono=True, lap=(1.5, 5.), theta=[1., 3., 6.], dr=(0.5, 3.), step=0.07, avr=(-20., 20.)),
        dict(n_ap=2, mono=False, lap=(2., 4.5), theta=[2., 2., 5.], dr=(1.7, 1.7), step=0.02, avr=(0., 5.)),
        dict(n_ap=8, mono=False, lap=(1., 3.8), theta=[3., 5., 9.], dr=(0.2, 4.), step=0.11, avr=(1.5, 2.5)),
        dict(n_ap=5, mono=True, lap=(1., 6.), theta=[1., 1., 1.], dr=(1., 100.), step=0.5, avr=(-5., 30.)),
        dict(n_ap=3, mono=True, lap=(2., 5.), theta=[1.5, 2.5, 4.], dr=(2., 2.2), step=0.3, avr=(-3., 3.)),
    ]
    sources = [
        make_source([1, 1, 1], [12., 30., 55.], [1.2, 2., 7.]),
        make_source([1, 3, 4], [4., 9., 1.3], [0.3, 0.9, 0.05]),
        make_source([1, 0, 1], [0.8, 5., 2.], [0.1, 1., 0.3]),
        make_source([2, 1, 1], [1.5, 20., 70.], [0.8, 3., 9.]),
    ]
    for ic, c in enumerate(cases):
        ap_au = np.logspace(c['lap'][0], c['lap'][1], c['n_ap'])
        flux = random_grid(rng, len(NAMES6), c['n_ap'], 3, c['mono'])
        directory = os.path.join(SCRATCH, 'pkg_v%d_%d_%d' % (version, int(use_memmap), ic))
        if version == 1:
            filt = ['FA', 'FB', 'FC']
            build_package_1(directory, NAMES6, ap_au, 'AU', flux, WAV3, filt, c['step'])
        else:
            filt = [w * u.micron for w in WAV3]
            build_package_2(directory, NAMES6, ap_au, flux, WAV3, c['step'])
        fitter = quiet(Fitter, filt, np.array(c['theta']) * u.arcsec, directory, extinction_law=EXT,
                       av_range=c['avr'], distance_range=np.array(c['dr']) * u.kpc, use_memmap=use_memmap)
        for s in sources:
            info = check_fit('v%d case %d %s' % (version, ic, s.valid), fitter, s, ap_au, flux, c['theta'],
                             c['dr'], c['step'], EXT, WAV3, c['avr'], NAMES6, rtol=rtol)
            # a second call on the same objects gives the same answer
            assert same_info(info, quiet(fitter.fit, s))
        # a second Fitter on the same files as well
        fitter2 = quiet(Fitter, filt, np.array(c['theta']) * u.arcsec, directory, extinction_law=EXT,
                        av_range=c['avr'], distance_range=np.array(c['dr']) * u.kpc, use_memmap=use_memmap)
        assert same_info(quiet(fitter2.fit, sources[0]), quiet(fitter.fit, sources[0]))
        if keep is None:
            keep = (fitter, sources[0], directory, ap_au, flux, c)
    return keep


# --------------------------------------------------------------------------
# specific to this change: input forms and refusals.  Forms that the library
# only accepts after the change are tried and, if accepted, must give exactly
# the result of the classic form (and hence satisfy the property); forms and
# refusals that existed before are checked unconditionally.
# --------------------------------------------------------------------------

NEW_FORMS = {'accepted': 0, 'not_supported': 0}


def maybe(func, *args, **kwargs):
    """result of a call in a form that older versions refuse (None if refused)"""
    try:
        out = quiet(func, *args, **kwargs)
    except (TypeError, AttributeError, IndexError):
        NEW_FORMS['not_supported'] += 1
        return None
    NEW_FORMS['accepted'] += 1
    return out


def refused(exc_type, text, func, *args, **kwargs):
    try:
        quiet(func, *args, **kwargs)
    except Exception as exc:
        assert isinstance(exc, exc_type), (type(exc), exc_type)
        assert text in str(exc), (text, str(exc))
    else:
        raise AssertionError("accepted: %r %r" % (args, kwargs))


def extra_interface_checks():
    import pathlib
    from sedfitter.models import Models
    from sedfitter.convolved_fluxes import ConvolvedFluxes

    fitter, source, directory, ap_au, flux, c = standard_cases(1)
    theta, dr, avr, step = c['theta'], c['dr'], c['avr'], c['step']
    ref = quiet(fitter.fit, source)
    names = ['FA', 'FB', 'FC']

    # ---- forms that have always worked --------------------------------
    for kwargs in (
        dict(filter_names=np.array(names), apertures=np.array(theta) * u.arcsec, model_dir=pathlib.Path(directory),
             av_range=np.array(avr), distance_range=np.array(dr) * u.kpc),
        dict(filter_names=tuple(names), apertures=(np.array(theta) / 3600.) * u.deg, model_dir=directory,
             av_range=[np.float64(avr[0]), np.float32(avr[1])], distance_range=(np.array(dr) * u.kpc).to(u.lyr)),
    ):
        ft = quiet(Fitter, kwargs.pop('filter_names'), kwargs.pop('apertures'), kwargs.pop('model_dir'),
                   extinction_law=EXT, **kwargs)
        info = check_fit('old form', ft, source, ap_au, flux, theta, dr, step, EXT, WAV3, avr, NAMES6)
        assert np.allclose(np.asarray(info.chi2, float), np.asarray(ref.chi2, float), rtol=1e-9)
        assert same_info(info, quiet(ft.fit, source))
        assert isinstance(repr(ft), str) and isinstance(repr(ft.models), str)

    # ---- forms that may be new ------------------------------------------
    ft = maybe(Fitter, names, [t * u.arcsec for t in theta[:2]] + [(theta[2] / 60.) * u.arcmin], directory,
               extinction_law=EXT, av_range=avr, distance_range=(dr[0] * 1000. * u.pc, dr[1] * u.kpc))
    if ft is not None:
        info = check_fit('list of quantities', ft, source, ap_au, flux, theta, dr, step, EXT, WAV3, avr, NAMES6)
        assert np.allclose(np.asarray(info.chi2, float), np.asarray(ref.chi2, float), rtol=1e-9)
        assert np.array_equal(np.asarray(info.model_id), np.asarray(ref.model_id))

    got = maybe(fitter.fit, source.to_dict())
    if got is not None:
        assert same_info(got, ref)
        assert same_info(quiet(fitter.fit, source.to_dict()), ref)     # again, same objects
    line = source.to_ascii()
    got = maybe(fitter.fit, line)
    if got is not None:
        assert same_info(got, quiet(fitter.fit, Source.from_ascii(line)))

    filters = [{'aperture_arcsec': t, 'name': n} for t, n in zip(theta, names)]
    m = quiet(Models.read, directory, filters, distance_range=np.array(dr) * u.kpc)
    m_alt = maybe(Models.read, directory, filters, distance_range=[dr[0] * u.kpc, dr[1] * u.kpc])
    if m_alt is not None:
        assert np.array_equal(m_alt.distances.value, m.distances.value) and np.array_equal(m_alt.fluxes.value, m.fluxes.value)
    kcoef = EXT.get_av(m.wavelengths)
    direct = quiet(m.fit, source, kcoef, -2. * np.ones(3), avr[0], avr[1])
    assert same_info(direct, ref)
    got = maybe(m.fit, source, [float(x) for x in kcoef], (-2., -2., -2.), avr[0], avr[1])
    if got is not None:
        assert np.array_equal(np.asarray(got.chi2, float), np.asarray(ref.chi2, float))
        assert np.array_equal(np.asarray(got.sc, float), np.asarray(ref.sc, float))
        assert np.array_equal(np.asarray(got.av, float), np.asarray(ref.av, float))

    conv = ConvolvedFluxes.read(os.path.join(directory, 'convolved', 'FB.fits'))
    request = [ap_au[0], 0.5 * (ap_au[1] + ap_au[2]), ap_au[-1], 7. * ap_au[-1]]
    classic = conv.interpolate(np.array(request) * u.au)
    want = np.array([[interp_flux(ap_au, flux[im, :, 1], r) for r in request] for im in range(len(NAMES6))])
    assert np.allclose(classic.flux.value, want, rtol=1e-12)
    assert isinstance(repr(conv), str)
    got = maybe(conv.interpolate, [r * u.au for r in request])
    if got is not None:
        assert np.array_equal(got.flux.value, classic.flux.value) and got.flux.unit == classic.flux.unit
        assert np.array_equal(got.apertures.value, classic.apertures.value)
    got = maybe(conv.interpolate, np.array(request) * u.au, clip_to_largest=True)
    if got is not None:
        assert np.array_equal(got.flux.value, classic.flux.value)
        refused(ValueError, 'too large', conv.interpolate, np.array(request) * u.au, clip_to_largest=False)
        inside = conv.interpolate(np.array(request[:3]) * u.au, clip_to_largest=False)
        assert np.array_equal(inside.flux.value, classic.flux.value[:, :3])

    # ---- refusals stay refusals (same family of exception, same leading text) ----
    refused(Exception, 'For aperture-dependent models, a distange range is required', Models.read, directory, filters)
    refused(Exception, 'File not found: ' + directory + '/convolved/NOPE.fits', Models.read, directory,
            [{'aperture_arcsec': 1., 'name': 'NOPE'}], distance_range=[1., 2.] * u.kpc)
    refused(Exception, 'Aperture(s) requested too small', conv.interpolate, [0.5 * ap_au[0], ap_au[1]] * u.au)
    refused(Exception, 'Aperture(s) requested too small', Fitter, names, [1e-4, 1., 1.] * u.arcsec, directory,
            extinction_law=EXT, av_range=avr, distance_range=[0.1, 1.] * u.kpc)
    refused(TypeError, 'apertures should be given as a Quantity object', Fitter, names, theta, directory,
            extinction_law=EXT, av_range=avr, distance_range=np.array(dr) * u.kpc)
    refused(TypeError, 'distance_range should be given as a Quantity object', Fitter, names, np.array(theta) * u.arcsec,
            directory, extinction_law=EXT, av_range=avr, distance_range=list(dr))
    refused(TypeError, 'distance_range should be given in units of length', Fitter, names, np.array(theta) * u.arcsec,
            directory, extinction_law=EXT, av_range=avr, distance_range=np.array(dr) * u.s)
    refused(TypeError, 'distance_range should be a 1-d sequence', Fitter, names, np.array(theta) * u.arcsec,
            directory, extinction_law=EXT, av_range=avr, distance_range=1. * u.kpc)
    refused(ValueError, 'distance_range has incorrect length', Fitter, names, np.array(theta) * u.arcsec,
            directory, extinction_law=EXT, av_range=avr, distance_range=[1., 2., 3.] * u.kpc)
    refused(ValueError, 'length of apertures list should match', Fitter, names, [1., 2.] * u.arcsec,
            directory, extinction_law=EXT, av_range=avr, distance_range=np.array(dr) * u.kpc)
    refused(ValueError, 'filter should be a string or a Quantity', Fitter, [1, 2, 3], np.array(theta) * u.arcsec,
            directory, extinction_law=EXT, av_range=avr, distance_range=np.array(dr) * u.kpc)
    refused(TypeError, 'apertures should be given as a Quantity object', conv.interpolate, [1e3, 1e4])


if __name__ == '__main__':
    try:
        extra_interface_checks()
        standard_cases(2, use_memmap=False)
        standard_cases(2, use_memmap=True, rtol=2e-4)
        assert N_CHECKED['clipped'] > 20 and N_CHECKED['models'] - N_CHECKED['clipped'] > 20
        assert N_CHECKED['beyond'] > 0 and N_CHECKED['interior_best'] > 0
        print("C02 demo (interface hardening): OK", N_CHECKED, NEW_FORMS)
    finally:
        shutil.rmtree(SCRATCH, ignore_errors=True)
