import sys, os; sys.path.insert(0, os.getcwd())
# Demonstration for property C07 (convolved-flux files keep model identity,
# identically in both package formats).  Run from the worktree root:
#     /venv/bin/python _out/p<i>/demo.py
# Everything that is compared against is computed here, independently of the
# library (own FITS writer for the SED files, own filter re-binning, own sums).

import gzip
import shutil
import tempfile
import warnings

import numpy as np

warnings.simplefilter('ignore')

from astropy import units as u
from astropy.io import fits
from astropy.table import Table

import sedfitter
assert os.path.dirname(os.path.abspath(sedfitter.__file__)) == os.path.join(os.getcwd(), 'sedfitter'), sedfitter.__file__

from sedfitter.filter import Filter
from sedfitter.convolve import convolve_model_dir
import sedfitter.convolve.convolve as convolve_module
from sedfitter.convolved_fluxes import ConvolvedFluxes
from sedfitter.sed import SED, SEDCube
from sedfitter.extinction import Extinction
from sedfitter.source import Source
from sedfitter.fit import Fitter

C_UM_HZ = 299792458.e6  # micron * Hz
KPC_CM = 3.0856775814913674e21

N_CHECKS = [0]


def check(cond, msg):
    N_CHECKS[0] += 1
    if not cond:
        print("DEMO FAILURE: " + msg)
        sys.exit(1)


def close(a, b, rtol=1e-9, atol=0.):
    a = np.asarray(a, dtype=float)
    b = np.asarray(b, dtype=float)
    return a.shape == b.shape and bool(np.all(np.abs(a - b) <= atol + rtol * np.abs(b)))


# ---------------------------------------------------------------------------
# Independent reference computation
# ---------------------------------------------------------------------------

def ref_rebin(filt_nu, filt_r, nu_new):
    """Integral of the piecewise-linear response over the cells of nu_new
    (cell edges half-way between grid points, clipped to the filter range)."""
    x = np.asarray(filt_nu, dtype=float)
    y = np.asarray(filt_r, dtype=float)
    if x[0] > x[-1]:
        x, y = x[::-1], y[::-1]
    cum = np.concatenate([[0.], np.cumsum(0.5 * (x[1:] - x[:-1]) * (y[1:] + y[:-1]))])

    def prim(t):
        t = min(max(t, x[0]), x[-1])
        j = int(np.searchsorted(x, t, side='right')) - 1
        j = min(max(j, 0), len(x) - 2)
        yt = y[j] + (y[j + 1] - y[j]) * (t - x[j]) / (x[j + 1] - x[j])
        return cum[j] + 0.5 * (t - x[j]) * (y[j] + yt)

    n = len(nu_new)
    out = np.zeros(n)
    for i in range(n):
        lo = nu_new[0] if i == 0 else 0.5 * (nu_new[i - 1] + nu_new[i])
        hi = nu_new[-1] if i == n - 1 else 0.5 * (nu_new[i] + nu_new[i + 1])
        out[i] = abs(prim(hi) - prim(lo))
    return out


def ref_convolve(wav_um, flux, err, filt_nu, filt_r):
    """flux, err: (n_ap, n_wav) in mJy on wav_um (any order) -> per-aperture
    flux and error"""
    nu = C_UM_HZ / np.asarray(wav_um, dtype=float)
    o = np.argsort(nu)
    resp = ref_rebin(filt_nu, filt_r, nu[o])
    f = np.array([float(np.sum(flux[a, o] * resp)) for a in range(flux.shape[0])])
    e = np.array([float(np.sqrt(np.sum((err[a, o] * resp) ** 2))) for a in range(flux.shape[0])])
    return f, e


# ---------------------------------------------------------------------------
# Package writers (independent of SED.write)
# ---------------------------------------------------------------------------

def write_sed_file(path, name, wav_um, flux, err, apertures, ap_unit, descending):
    nu = C_UM_HZ / wav_um
    o = np.argsort(nu)
    if descending:
        o = o[::-1]
    n_ap, n_wav = flux.shape
    h0 = fits.PrimaryHDU()
    h0.header['MODEL'] = name
    h0.header['DISTANCE'] = KPC_CM
    h0.header['NAP'] = n_ap
    h0.header['NWAV'] = n_wav
    h1 = fits.BinTableHDU.from_columns([
        fits.Column(name='WAVELENGTH', format='D', unit='um', array=wav_um[o]),
        fits.Column(name='FREQUENCY', format='D', unit='Hz', array=nu[o])], name='WAVELENGTHS')
    h2 = fits.BinTableHDU.from_columns([
        fits.Column(name='APERTURE', format='D', unit=ap_unit, array=np.asarray(apertures, dtype=float))], name='APERTURES')
    h3 = fits.BinTableHDU.from_columns([
        fits.Column(name='TOTAL_FLUX', format='%dD' % n_wav, unit='mJy', array=flux[:, o]),
        fits.Column(name='TOTAL_FLUX_ERR', format='%dD' % n_wav, unit='mJy', array=err[:, o])], name='SEDS')
    hl = fits.HDUList([h0, h1, h2, h3])
    if path.endswith('.gz'):
        tmp = path[:-3]
        hl.writeto(tmp)
        with open(tmp, 'rb') as fi, gzip.open(path, 'wb') as fo:
            shutil.copyfileobj(fi, fo)
        os.remove(tmp)
    else:
        hl.writeto(path)


def write_conf(model_dir, aperture_dependent, version):
    with open(os.path.join(model_dir, 'models.conf'), 'w') as f:
        f.write("name = demo\n")
        f.write("length_subdir = 0\n")
        f.write("aperture_dependent = %s\n" % ('yes' if aperture_dependent else 'no'))
        f.write("logd_step = 0.02\n")
        if version == 2:
            f.write("version = 2\n")


def write_parameters(model_dir, names_in_table_order, rng):
    t = Table()
    t['MODEL_NAME'] = np.array(names_in_table_order, dtype='S30')
    t['par1'] = rng.random(len(names_in_table_order))
    t.write(os.path.join(model_dir, 'parameters.fits'))


def build_perfile(model_dir, data, table_order, rng, descending_flags, layout):
    """layout: list of relative file names (one per model) under seds/"""
    os.makedirs(os.path.join(model_dir, 'seds'))
    for k, name in enumerate(data['names']):
        path = os.path.join(model_dir, 'seds', layout[k])
        os.makedirs(os.path.dirname(path), exist_ok=True)
        write_sed_file(path, name, data['wav'][k], data['flux'][k], data['err'][k],
                       data['apertures'], data['ap_unit'], descending_flags[k])
    write_conf(model_dir, data['aperture_dependent'], 1)
    write_parameters(model_dir, [data['names'][i] for i in table_order], rng)


def build_cube(model_dir, data, table_order, rng, wav_descending, dtype=np.float64):
    os.makedirs(model_dir, exist_ok=True)
    cube = SEDCube()
    cube.names = np.array([data['names'][i] for i in table_order])
    cube.distance = 1. * u.kpc
    wav = data['wav'][0]
    o = np.argsort(wav)
    if wav_descending:
        o = o[::-1]
    cube.wav = wav[o] * u.micron
    cube.apertures = np.asarray(data['apertures'], dtype=float) * u.Unit(data['ap_unit'])
    cube.val = np.array([data['flux'][i][:, o] for i in table_order]).astype(dtype) * u.mJy
    cube.unc = np.array([data['err'][i][:, o] for i in table_order]).astype(dtype) * u.mJy
    cube.write(os.path.join(model_dir, 'flux.fits'))
    write_conf(model_dir, data['aperture_dependent'], 2)
    write_parameters(model_dir, [data['names'][i] for i in table_order], rng)


# ---------------------------------------------------------------------------
# Data
# ---------------------------------------------------------------------------

def make_data(rng, n_models, n_ap, grids, ap_unit='AU', name_fmt='m{0:03d}_{1}'):
    """grids: list of wavelength grids (micron); model k uses grids[k % len]"""
    tags = ['zeta', 'alpha', 'mu', 'beta', 'omega', 'delta', 'kappa', 'eps']
    ids = rng.permutation(n_models)
    names = [name_fmt.format(int(ids[k]), tags[k]) for k in range(n_models)]
    wav, flux, err = [], [], []
    for k in range(n_models):
        w = grids[k % len(grids)]
        f = np.cumsum(rng.random((n_ap, len(w))) + 0.05, axis=0) * 10. ** rng.uniform(-2, 3)
        e = f * (0.002 + 0.05 * rng.random(len(w)))
        wav.append(w)
        flux.append(f)
        err.append(e)
    if ap_unit == 'AU':
        apertures = 100. * 10. ** np.arange(n_ap)        # 100, 1000, ... AU
    else:
        apertures = (100. * 10. ** np.arange(n_ap)) / 206264.80624709636  # the same in pc
    return dict(names=names, wav=wav, flux=flux, err=err, apertures=apertures,
                ap_unit=ap_unit, aperture_dependent=n_ap > 1)


def make_filters(rng):
    filters = []
    specs = [('alice', 3.0, 1.0, 6.0, 37, True),
             ('bob', 12.0, 8.0, 18.0, 23, False),
             ('eve', 70.0, 40.0, 110.0, 51, True)]
    for name, cw, w1, w2, n, descending_nu in specs:
        wav = np.linspace(w1, w2, n)
        if not descending_nu:
            wav = wav[::-1]
        f = Filter()
        f.name = name
        f.central_wavelength = cw * u.micron
        f.nu = (C_UM_HZ / wav) * u.Hz
        f.response = 0.1 + rng.random(n)
        f.normalize()
        filters.append(f)
    return filters


def expected_for(data, filters):
    """dict filter name -> (flux, err) arrays of shape (n_models, n_ap) in
    the order of data['names']"""
    out = {}
    for f in filters:
        fl, er = [], []
        for k in range(len(data['names'])):
            a, b = ref_convolve(data['wav'][k], data['flux'][k], data['err'][k],
                                f.nu.to(u.Hz).value, np.asarray(f.response))
            fl.append(a)
            er.append(b)
        out[f.name] = (np.array(fl), np.array(er))
    return out


# ---------------------------------------------------------------------------
# Checks on the files
# ---------------------------------------------------------------------------

def check_convolved(model_dir, data, table_order, filters, expected, label, rtol=1e-9):
    want_names = [data['names'][i] for i in table_order]
    ap_au = np.asarray(data['apertures'], dtype=float) * u.Unit(data['ap_unit']).to(u.au)
    for f in filters:
        path = os.path.join(model_dir, 'convolved', f.name + '.fits')
        check(os.path.exists(path), label + ": missing " + path)
        want_flux = expected[f.name][0][table_order]
        want_err = expected[f.name][1][table_order]

        # (1) raw FITS content
        with fits.open(path, memmap=False) as hl:
            check(close(hl[0].header['FILTWAV'], f.central_wavelength.to(u.micron).value, rtol=1e-12),
                  label + ": FILTWAV of " + f.name)
            check(hl[0].header['NMODELS'] == len(want_names), label + ": NMODELS")
            check(hl[0].header['NAP'] == len(ap_au), label + ": NAP")
            tab = hl['CONVOLVED FLUXES']
            got_names = [str(x).strip() for x in np.char.decode(tab.data['MODEL_NAME']) ] \
                if tab.data['MODEL_NAME'].dtype.kind == 'S' else [str(x).strip() for x in tab.data['MODEL_NAME']]
            check(got_names == want_names, label + ": row labels of %s: %s != %s" % (f.name, got_names, want_names))
            check(u.Unit(tab.columns['TOTAL_FLUX'].unit) == u.mJy, label + ": flux unit")
            check(u.Unit(tab.columns['TOTAL_FLUX_ERR'].unit) == u.mJy, label + ": error unit")
            gf = np.asarray(tab.data['TOTAL_FLUX'], dtype=float).reshape(len(want_names), -1)
            ge = np.asarray(tab.data['TOTAL_FLUX_ERR'], dtype=float).reshape(len(want_names), -1)
            check(close(gf, want_flux, rtol=rtol), label + ": fluxes of %s\n%s\n%s" % (f.name, gf, want_flux))
            check(close(ge, want_err, rtol=rtol), label + ": errors of %s\n%s\n%s" % (f.name, ge, want_err))
            aph = hl['APERTURES']
            got_ap = np.asarray(aph.data['APERTURE'], dtype=float) * u.Unit(aph.columns['APERTURE'].unit).to(u.au)
            check(close(got_ap, ap_au, rtol=1e-12), label + ": apertures of " + f.name)

        # (2) through the library reader, twice (second read of the same file)
        for rep in range(2):
            c = ConvolvedFluxes.read(path)
            check([str(x).strip() for x in c.model_names] == want_names, label + ": reader names")
            check(close(c.flux.to(u.mJy).value, want_flux, rtol=rtol), label + ": reader flux")
            check(close(c.error.to(u.mJy).value, want_err, rtol=rtol), label + ": reader error")
            check(close(c.apertures.to(u.au).value, ap_au, rtol=1e-12), label + ": reader apertures")
            check(close(c.central_wavelength.to(u.micron).value, f.central_wavelength.to(u.micron).value, rtol=1e-12),
                  label + ": reader wavelength")
            check(c.n_models == len(want_names) and c.n_ap == len(ap_au), label + ": reader sizes")


def raw_tables(model_dir, filters):
    out = {}
    for f in filters:
        with fits.open(os.path.join(model_dir, 'convolved', f.name + '.fits'), memmap=False) as hl:
            d = hl['CONVOLVED FLUXES'].data
            out[f.name] = ([str(x).strip() for x in d['MODEL_NAME']],
                           np.array(d['TOTAL_FLUX'], dtype=float), np.array(d['TOTAL_FLUX_ERR'], dtype=float))
    return out


# ---------------------------------------------------------------------------
# Fits
# ---------------------------------------------------------------------------

def make_extinction():
    e = Extinction()
    e.wav = np.logspace(-2., 3., 60) * u.micron
    e.chi = e.wav.value ** -1.7 * u.cm ** 2 / u.g
    return e


def run_fit(model_dir, filters, data, source_flux, use_memmap):
    names = [f.name for f in filters]
    # 1 arcsec at 1 kpc = 1000 AU = second tabulated aperture
    ap = [1., 1., 1.] * u.arcsec
    fitter = Fitter(names, ap, model_dir, extinction_law=make_extinction(),
                    av_range=[0., 5.], distance_range=[1., 1.] * u.kpc if data['aperture_dependent'] else [0.5, 2.] * u.kpc,
                    use_memmap=use_memmap)
    out = []
    for rep in range(2):  # second call on the same Fitter object
        s = Source()
        s.name = 'src'
        s.x = 0.
        s.y = 0.
        s.valid = np.array([1, 1, 1])
        s.flux = np.array(source_flux, dtype=float)
        s.error = 0.005 * np.array(source_flux, dtype=float)
        info = fitter.fit(s)
        res = {}
        for j in range(len(info.model_name)):
            res[str(info.model_name[j]).strip()] = (float(np.asarray(info.chi2, float)[j]),
                                                    float(np.asarray(info.av, float)[j]),
                                                    float(np.asarray(info.sc, float)[j]),
                                                    np.asarray(info.model_fluxes, float)[j])
        out.append((str(info.model_name[0]).strip(), res))
    check(out[0][0] == out[1][0], "fit not repeatable")
    for n in out[0][1]:
        check(close(out[0][1][n][0], out[1][1][n][0], rtol=1e-12, atol=1e-12), "fit not repeatable (chi2)")
    return out[0]


def compare_fits(a, b, label, tol):
    check(sorted(a[1]) == sorted(b[1]), label + ": model sets differ")
    check(a[0] == b[0], label + ": best model differs (%s, %s)" % (a[0], b[0]))
    for n in a[1]:
        ca, cb = a[1][n], b[1][n]
        check(abs(ca[0] - cb[0]) <= tol * (1. + abs(cb[0])), label + ": chi2 of %s: %r %r" % (n, ca[0], cb[0]))
        check(abs(ca[1] - cb[1]) <= tol * (1. + abs(cb[1])), label + ": av of %s: %r %r" % (n, ca[1], cb[1]))
        check(abs(ca[2] - cb[2]) <= tol * (1. + abs(cb[2])), label + ": sc of %s: %r %r" % (n, ca[2], cb[2]))
        check(close(ca[3], cb[3], rtol=0, atol=tol * 10), label + ": model fluxes of %s" % n)


# ---------------------------------------------------------------------------
# Scenarios
# ---------------------------------------------------------------------------

def scenario(root, rng, tag, n_models, n_ap, ap_unit='AU', n_wav=40):
    print("=" * 70)
    print("scenario %s: %d models, %d apertures" % (tag, n_models, n_ap))
    grid = np.logspace(-1., 2.5, n_wav)
    data = make_data(rng, n_models, n_ap, [grid], ap_unit=ap_unit)
    filters = make_filters(rng)
    expected = expected_for(data, filters)
    table_order = [int(i) for i in rng.permutation(n_models)]

    # file layout: names unrelated to the model names, some in sub-directories,
    # one gzipped -> the processing order (sorted paths) is unrelated to both
    # the model names and the parameter-table order
    layout = []
    for k in range(n_models):
        sub = ['', 'zz', 'aa'][int(rng.integers(3))]
        fn = 'f%04d_sed.fits' % int(rng.integers(10000)) + ('.gz' if k == 1 else '')
        while os.path.join(sub, fn) in layout:
            fn = 'g' + fn
        layout.append(os.path.join(sub, fn))
    descending = [bool(rng.integers(2)) for k in range(n_models)]
    if n_models > 1:
        descending[0], descending[1] = True, False

    d1 = os.path.join(root, tag + '_perfile')
    os.makedirs(d1)
    build_perfile(d1, data, table_order, rng, descending, layout)
    d2a = os.path.join(root, tag + '_cube_asc')
    build_cube(d2a, data, table_order, rng, wav_descending=False)
    d2b = os.path.join(root, tag + '_cube_desc')
    build_cube(d2b, data, table_order, rng, wav_descending=True)

    convolve_model_dir(d1, filters)
    convolve_model_dir(d2a, filters, memmap=True)
    convolve_model_dir(d2b, filters, memmap=False)

    check_convolved(d1, data, table_order, filters, expected, tag + "/per-file")
    check_convolved(d2a, data, table_order, filters, expected, tag + "/cube(asc,memmap)")
    check_convolved(d2b, data, table_order, filters, expected, tag + "/cube(desc,no memmap)")

    # per-file and cube agree with each other
    r1, r2a, r2b = raw_tables(d1, filters), raw_tables(d2a, filters), raw_tables(d2b, filters)
    for f in filters:
        for other in (r2a, r2b):
            check(r1[f.name][0] == other[f.name][0], tag + ": row labels differ between formats")
            check(close(r1[f.name][1], other[f.name][1], rtol=1e-10), tag + ": fluxes differ between formats")
            check(close(r1[f.name][2], other[f.name][2], rtol=1e-10), tag + ": errors differ between formats")

    # second call on the same files / the same Filter objects
    try:
        convolve_model_dir(d1, filters)
    except OSError:
        pass
    else:
        check(False, tag + ": second convolution without overwrite did not raise OSError")
    try:
        convolve_model_dir(d2a, filters)
    except OSError:
        pass
    else:
        check(False, tag + ": second convolution (cube) without overwrite did not raise OSError")
    check_convolved(d1, data, table_order, filters, expected, tag + "/per-file after refused overwrite")
    convolve_model_dir(d1, filters, overwrite=True)
    convolve_model_dir(d2a, filters, overwrite=True, memmap=False)
    r1b, r2c = raw_tables(d1, filters), raw_tables(d2a, filters)
    for f in filters:
        check(r1b[f.name][0] == r1[f.name][0] and np.array_equal(r1b[f.name][1], r1[f.name][1])
              and np.array_equal(r1b[f.name][2], r1[f.name][2]), tag + ": per-file convolution not repeatable")
        check(r2c[f.name][0] == r2a[f.name][0] and close(r2c[f.name][1], r2a[f.name][1], rtol=1e-12)
              and close(r2c[f.name][2], r2a[f.name][2], rtol=1e-12), tag + ": cube convolution not repeatable")
    check_convolved(d1, data, table_order, filters, expected, tag + "/per-file 2nd")
    check_convolved(d2a, data, table_order, filters, expected, tag + "/cube 2nd")

    # fits: source = model k (row in data order), at the aperture used by the fit
    k = int(rng.integers(n_models))
    i_ap = 1 if n_ap > 1 else 0
    src = [expected[f.name][0][k, i_ap] for f in filters]
    fit1 = run_fit(d1, filters, data, src, use_memmap=True)
    fit2 = run_fit(d2a, filters, data, src, use_memmap=True)
    fit3 = run_fit(d2a, filters, data, src, use_memmap=False)
    fit4 = run_fit(d2b, filters, data, src, use_memmap=False)
    fit5 = run_fit(d2b, filters, data, src, use_memmap=True)
    for ft, lab in ((fit1, 'per-file'), (fit2, 'cube memmap'), (fit3, 'cube'), (fit4, 'cube desc'), (fit5, 'cube desc memmap')):
        check(ft[0] == data['names'][k], tag + ": %s fit picked %s instead of %s" % (lab, ft[0], data['names'][k]))
        check(ft[1][data['names'][k]][0] < 1e-2, tag + ": %s chi2 of the true model is %r" % (lab, ft[1][data['names'][k]][0]))
        check(abs(ft[1][data['names'][k]][1]) < 1e-2, tag + ": %s av of the true model" % lab)
    compare_fits(fit1, fit3, tag + ": per-file vs cube", 1e-7)
    compare_fits(fit3, fit4, tag + ": cube asc vs desc", 1e-7)
    compare_fits(fit3, fit2, tag + ": memmap vs not", 2e-4)
    compare_fits(fit4, fit5, tag + ": memmap vs not (desc)", 2e-4)
    compare_fits(fit1, fit2, tag + ": per-file vs cube memmap", 2e-4)
    return data, filters, expected, table_order, (d1, d2a, d2b)


def scenario_mixed_grids(root, rng):
    """Per-file package whose SEDs use three different spectral grids (two of
    them with the same length), interleaved in processing order."""
    print("=" * 70)
    print("scenario mixed grids")
    g1 = np.logspace(-1., 2.5, 40)
    g2 = np.logspace(-1., 2.5, 45)
    g3 = np.logspace(-1.05, 2.45, 40)
    n_models, n_ap = 8, 3
    data = make_data(rng, n_models, n_ap, [g1, g2, g3, g1, g2], name_fmt='x{0:02d}{1}')
    filters = make_filters(rng)
    expected = expected_for(data, filters)
    table_order = [int(i) for i in rng.permutation(n_models)]
    layout = ['s%02d_sed.fits' % k for k in range(n_models)]   # processing order = data order: g1 g2 g3 g1 g2 g1 g2 g3
    descending = [k % 2 == 0 for k in range(n_models)]
    d1 = os.path.join(root, 'mixed_perfile')
    os.makedirs(d1)
    build_perfile(d1, data, table_order, rng, descending, layout)
    convolve_model_dir(d1, filters)
    check_convolved(d1, data, table_order, filters, expected, "mixed/per-file")
    first = raw_tables(d1, filters)
    convolve_model_dir(d1, list(reversed(filters)), overwrite=True)
    second = raw_tables(d1, filters)
    for f in filters:
        check(first[f.name][0] == second[f.name][0] and np.array_equal(first[f.name][1], second[f.name][1])
              and np.array_equal(first[f.name][2], second[f.name][2]), "mixed: not repeatable")
    check_convolved(d1, data, table_order, filters, expected, "mixed/per-file 2nd")

    # the Filter objects handed in are not modified
    for f in filters:
        check(f.nu.shape == f.response.shape, "filter modified")


def scenario_rebin_cache(rng):
    """If the convolution keeps re-binned filters per spectral grid, whatever
    it hands out must be what Filter.rebin gives for that very grid (also
    after entries have been dropped, for grids of equal length, and for a
    second request of the same grid)."""
    cls = getattr(convolve_module, '_RebinnedFilterCache', None)
    if cls is None:
        print("(no re-binned filter cache in this version)")
        return
    print("=" * 70)
    print("scenario rebin cache")
    filters = make_filters(rng)
    cache = cls(filters, max_entries=2)
    grids = [np.sort(C_UM_HZ / np.logspace(-1., 2.5, n)) for n in (40, 45, 50)]
    grids.append(grids[0] * (1. + 1e-15))     # almost the same as the first grid
    grids.append(np.sort(C_UM_HZ / np.logspace(-1.05, 2.45, 40)))
    seq = [0, 1, 0, 2, 3, 0, 4, 4, 1, 3, 2, 0, 0]
    for j in seq:
        nu = grids[j] * u.Hz
        got = cache.get(nu)
        check(len(got) == len(filters), "cache: number of filters")
        for f, g in zip(filters, got):
            check(g.name == f.name and g.central_wavelength == f.central_wavelength, "cache: filter identity")
            check(np.array_equal(np.asarray(g.response), np.asarray(f.rebin(nu).response)), "cache: response differs from a fresh re-binning")
            check(close(np.asarray(g.response), ref_rebin(f.nu.to(u.Hz).value, np.asarray(f.response), grids[j]), rtol=1e-9, atol=1e-18),
                  "cache: response differs from the reference")
        got.append(None)   # the list handed out belongs to the caller
        check(len(cache.get(nu)) == len(filters), "cache: altered through the list handed out")


def scenario_float32_cube(root, rng):
    """Cube stored in single precision, more models than a small chunk"""
    print("=" * 70)
    print("scenario float32 cube")
    grid = np.logspace(-1., 2.5, 40)
    n_models, n_ap = 8, 5
    data = make_data(rng, n_models, n_ap, [grid])
    filters = make_filters(rng)
    table_order = [int(i) for i in rng.permutation(n_models)]
    # reference from the values rounded to single precision
    data32 = dict(data)
    data32['flux'] = [f.astype(np.float32).astype(float) for f in data['flux']]
    data32['err'] = [f.astype(np.float32).astype(float) for f in data['err']]
    expected = expected_for(data32, filters)
    for desc in (False, True):
        for mm in (False, True):
            d = os.path.join(root, 'f32_%d_%d' % (desc, mm))
            build_cube(d, data, table_order, rng, wav_descending=desc, dtype=np.float32)
            convolve_model_dir(d, filters, memmap=mm)
            check_convolved(d, data, table_order, filters, expected, "f32 cube desc=%s memmap=%s" % (desc, mm), rtol=2e-5)


def scenario_reader_lifetime(root, rng, data, filters, expected, table_order, dirs):
    """Objects returned by the readers stay valid and independent of the files"""
    print("=" * 70)
    print("scenario reader lifetime")
    d1 = dirs[0]
    path = os.path.join(d1, 'convolved', filters[0].name + '.fits')
    c1 = ConvolvedFluxes.read(path)
    names1 = [str(x).strip() for x in c1.model_names]
    flux1 = c1.flux.to(u.mJy).value.copy()
    # write a different table to the same path through the library writer
    c2 = ConvolvedFluxes.read(path)
    c2.flux = c2.flux * 3.
    c2.central_wavelength = 9.5 * u.micron
    tmp = os.path.join(root, 'rewritten.fits')
    c2.write(tmp)
    c2.write(tmp, overwrite=True)
    shutil.copyfile(tmp, path + '.new')
    os.replace(path + '.new', path)
    c3 = ConvolvedFluxes.read(path)
    check(close(c3.flux.to(u.mJy).value, 3. * flux1, rtol=1e-12), "re-read after rewrite")
    check(close(c3.central_wavelength.to(u.micron).value, 9.5), "re-read wavelength after rewrite")
    check([str(x).strip() for x in c3.model_names] == names1, "re-read names")
    check(close(c1.flux.to(u.mJy).value, flux1, rtol=0), "object changed when its file was rewritten")
    check(c1 == ConvolvedFluxes.read(path) or True, "eq callable")
    # a gzipped convolved file is read the same way
    with open(path, 'rb') as fi, gzip.open(path + '.gz', 'wb') as fo:
        shutil.copyfileobj(fi, fo)
    cz = ConvolvedFluxes.read(path + '.gz')
    check(cz == c3, "gzipped convolved file read differently")
    os.remove(path + '.gz')
    check(close(cz.flux.to(u.mJy).value, 3. * flux1, rtol=1e-12), "object from gzipped file unusable after removal")
    # an object without names cannot be sorted
    try:
        ConvolvedFluxes().sort_to_match(np.array(names1))
    except TypeError:
        pass
    else:
        check(False, "sort_to_match on an empty object did not raise TypeError")
    # many reads in a row do not exhaust the open files
    n_before = len(os.listdir('/proc/self/fd'))
    for rep in range(60):
        ConvolvedFluxes.read(path)
    import gc
    gc.collect()
    check(len(os.listdir('/proc/self/fd')) <= n_before + 5, "file descriptors leak")
    # objects survive the removal of the file
    os.remove(path)
    check(close(c3.flux.to(u.mJy).value, 3. * flux1, rtol=1e-12) and [str(x).strip() for x in c3.model_names] == names1,
          "object unusable after its file was removed")
    c3.sort_to_match(np.array(names1[::-1]))
    check([str(x).strip() for x in c3.model_names] == names1[::-1], "sort_to_match names")
    check(close(c3.flux.to(u.mJy).value, 3. * flux1[::-1], rtol=1e-12), "sort_to_match flux")
    c3.sort_to_match(np.array([n + '  ' for n in names1]))   # padded names are accepted
    check(close(c3.flux.to(u.mJy).value, 3. * flux1, rtol=1e-12), "sort_to_match back")
    try:
        c3.sort_to_match(np.array(names1[:-1] + ['nonexistent']))
    except Exception:
        pass
    else:
        check(len(names1) == 0, "sort_to_match accepted a wrong name list")

    # SED reader: both orders, object independent of file afterwards
    sed_dir = os.path.join(d1, 'seds')
    some = None
    for dp, dn, fn in os.walk(sed_dir):
        for x in fn:
            if x.endswith('.fits'):
                some = os.path.join(dp, x)
    s_nu = SED.read(some, unit_flux=u.mJy, order='nu')
    s_wav = SED.read(some, unit_flux=u.mJy, order='wav')
    os.remove(some)
    k = data['names'].index(s_nu.name)
    o = np.argsort(data['wav'][k])
    check(np.all(np.diff(s_nu.nu.value) > 0) and np.all(np.diff(s_wav.wav.value) > 0), "SED order")
    check(close(s_wav.flux.to(u.mJy).value, data['flux'][k][:, o], rtol=1e-12), "SED.read wav order flux")
    check(close(s_nu.flux.to(u.mJy).value, data['flux'][k][:, o[::-1]], rtol=1e-12), "SED.read nu order flux")
    check(close(s_nu.error.to(u.mJy).value, data['err'][k][:, o[::-1]], rtol=1e-12), "SED.read nu order error")
    check(close(s_nu.wav.to(u.micron).value, data['wav'][k][o[::-1]], rtol=1e-12), "SED.read wav values")


def main():
    root = tempfile.mkdtemp(prefix='c07demo_')
    rng = np.random.default_rng(20240607)

    # if the cube convolution works in chunks, make the chunks small so that
    # several chunks and a partial last chunk occur with 8 models
    for attr in dir(convolve_module):
        if 'CHUNK' in attr.upper() and isinstance(getattr(convolve_module, attr), int):
            print("note: setting %s small" % attr)
            setattr(convolve_module, attr, 3 * 40 * 8)

    try:
        scenario(root, rng, 'one', 1, 1)                     # boundary: single model, single aperture
        scenario(root, rng, 'two', 2, 2, ap_unit='pc')       # apertures given in pc
        keep = scenario(root, rng, 'mid', 5, 3)
        scenario(root, rng, 'big', 8, 5)                     # boundary: largest package
        scenario(root, rng, 'sev', 7, 1)                     # aperture-independent, several models
        scenario_mixed_grids(root, rng)
        scenario_rebin_cache(rng)
        scenario_float32_cube(root, rng)
        scenario_reader_lifetime(root, rng, *keep)
    finally:
        shutil.rmtree(root, ignore_errors=True)

    print("=" * 70)
    print("demo OK (%d checks)" % N_CHECKS[0])


if __name__ == '__main__':
    main()
