import sys, os; sys.path.insert(0, os.getcwd())
# Demonstration that property C14 holds (clean worktree and with the patch).
# Independent reference: pure-python piecewise-linear interpolation (bisect).
import bisect
import copy
import gzip
import io
import pickle
import tempfile
import warnings
from pathlib import Path

import numpy as np
from astropy import units as u

import sedfitter
from sedfitter.extinction import Extinction
from sedfitter.extinction.extinction import Extinction as Extinction2

assert os.path.abspath(sedfitter.__file__).startswith(os.getcwd()), sedfitter.__file__
assert Extinction is Extinction2

N_CHECKS = [0]


def ref_pattern(w, c, x):
    """Reference: (-0.4 chi(x)/chi(0.55), absolute tolerance); w, x in micron."""
    w = [float(v) for v in w]
    c = [float(v) for v in c]

    def chi_at(x):
        if x < w[0] or x > w[-1]:
            return 0., 0.
        j = min(max(bisect.bisect_right(w, x) - 1, 0), len(w) - 2)
        val = c[j] + (c[j + 1] - c[j]) * (x - w[j]) / (w[j + 1] - w[j])
        return val, max(c[j], c[j + 1])
    cv, _ = chi_at(0.55)
    assert cv > 0
    val, scale = chi_at(float(x))
    return -0.4 * val / cv, 1e-12 * 0.4 * scale / cv


def check(law, w, c, x_micron, x_quantity, label):
    """Compare law.get_av(x_quantity) with the reference for x_micron."""
    got = law.get_av(x_quantity)
    assert isinstance(got, u.Quantity), (label, type(got))
    assert got.unit == u.dimensionless_unscaled, (label, got.unit)
    got = np.asarray(got.value, float)
    assert got.shape == np.shape(x_micron), (label, got.shape)
    for g, x in zip(got, x_micron):
        r, tol = ref_pattern(w, c, x)
        assert abs(g - r) <= tol, (label, x, g, r)
        if x < w[0] or x > w[-1]:
            assert g == 0., (label, x, g)
        N_CHECKS[0] += 1


def make_table(rng, n):
    """Increasing wavelengths (micron) that cover 0.55, positive opacities."""
    lo = 10 ** rng.uniform(-2.5, -0.4)
    hi = 10 ** rng.uniform(-0.2, 3.)
    steps = rng.uniform(0.05, 1., n - 1)
    frac = np.concatenate([[0.], np.cumsum(steps) / steps.sum()])
    w = lo * (hi / lo) ** frac
    w[-1] = hi
    assert np.all(np.diff(w) > 0) and w[0] < 0.55 < w[-1]
    c = 10 ** rng.uniform(-2, 3) * w ** rng.uniform(-2., -0.5) * rng.uniform(0.5, 2., n)
    return w, c


def make_queries(rng, w):
    inside = 10 ** rng.uniform(np.log10(w[0]), np.log10(w[-1]), 12)
    nodes = w[rng.integers(0, len(w), 5)]
    outside = np.array([w[0] * 0.5, np.nextafter(w[0], 0), np.nextafter(w[-1], np.inf),
                        w[-1] * 3., 1e-6, 1e7])
    ends = np.array([w[0], w[-1], 0.55])
    return np.concatenate([inside, nodes, outside, ends])


rng = np.random.default_rng(20140)
sizes = [2, 2, 3, 5, 17, 50, 121, 200, 200]
tmp = tempfile.mkdtemp()

for it, n in enumerate(sizes):
    w, c = make_table(rng, n)
    law = Extinction()
    if it % 2:
        law.wav = w * u.micron
        law.chi = c * u.cm ** 2 / u.g
    else:  # other order of assignment
        law.chi = c * u.cm ** 2 / u.g
        law.wav = w * u.micron
    xq = make_queries(rng, w)

    # 1. values, twice on the same object (second call must give the same)
    check(law, w, c, xq, xq * u.micron, 'first')
    first = law.get_av(xq * u.micron)
    check(law, w, c, xq, xq * u.micron, 'second')
    assert np.array_equal(first.value, law.get_av(xq * u.micron).value)

    # 2. normalisation at V: -0.4 (to rounding) at 0.55 micron in any unit
    for q in ([0.55] * u.micron, [550.] * u.nm, [5.5e-7] * u.m, [5500.] * u.AA, [0.55e-4] * u.cm):
        v = law.get_av(q).value
        assert v.shape == (1,) and abs(v[0] + 0.4) <= 1e-12, (q, v)
    assert abs(law.get_av([0.55] * u.micron).value[0] + 0.4) <= 2e-16

    # 3. boundary values: end nodes are inside the table, the next floats are not
    ends = law.get_av([w[0], w[-1]] * u.micron).value
    cv = ref_pattern(w, c, 0.55)[0]
    assert np.all(ends < 0)
    just_out = law.get_av([np.nextafter(w[0], 0), np.nextafter(w[-1], np.inf)] * u.micron).value
    assert np.all(just_out == 0.)

    # 4. scalar Quantity as query (unusual but legal): one-element result
    s = law.get_av(xq[0] * u.micron)
    assert isinstance(s, u.Quantity) and np.shape(s) == (1,)
    r, tol = ref_pattern(w, c, xq[0])
    assert abs(s.value[0] - r) <= tol
    # float32 and integer-valued queries, non-contiguous query arrays
    x32 = xq.astype(np.float32)
    check(law, w, c, x32.astype(float), x32 * u.micron, 'float32')
    check(law, w, c, xq[::2], (np.repeat(xq, 2)[::4]) * u.micron, 'strided')
    check(law, w, c, [1., 2., 1000.], np.array([1, 2, 1000]) * u.micron, 'int')

    # 5. query wavelengths in other length units (interior points: a unit
    # conversion may move a point across the end of the table by one ulp)
    interior = xq[(xq > w[0] * 1.001) & (xq < w[-1] * 0.999) | (xq < w[0] * 0.999) | (xq > w[-1] * 1.001)]
    for unit in (u.nm, u.m, u.AA, u.cm, u.mm, u.km):
        check(law, w, c, interior, (interior * u.micron).to(unit), 'query in %s' % unit)

    # 6. table in other units and scaled opacities
    for wunit in (u.micron, u.nm, u.m, u.cm):
        for cunit in (u.cm ** 2 / u.g, u.m ** 2 / u.kg, u.cm ** 2 / u.kg):
            for factor in (1., 2. ** 40, 3.7e-9, 12345.678):
                other = Extinction()
                other.wav = (w * u.micron).to(wunit)
                other.chi = (c * factor * u.cm ** 2 / u.g).to(cunit)
                got = other.get_av(interior * u.micron).value
                ref = law.get_av(interior * u.micron).value
                assert np.allclose(got, ref, rtol=1e-11, atol=1e-13 * np.abs(ref).max()), (wunit, cunit, factor)
                assert np.all(got[ref == 0] == 0)
                if factor == 2. ** 40 and wunit is u.micron and cunit == u.cm ** 2 / u.g:
                    assert np.array_equal(got, ref)  # power of two: exact
                N_CHECKS[0] += 1

    # 7. pickling, copying, table round trip
    clones = [pickle.loads(pickle.dumps(law, protocol=p)) for p in range(pickle.HIGHEST_PROTOCOL + 1)]
    clones += [copy.copy(law), copy.deepcopy(law), Extinction.from_table(law.to_table()),
               pickle.loads(pickle.dumps(Extinction.from_table(law.to_table())))]
    # a law in other units through the same channels
    alt = Extinction()
    alt.wav = (w * u.micron).to(u.nm)
    alt.chi = (c * u.cm ** 2 / u.g).to(u.m ** 2 / u.kg)
    alt_clones = [pickle.loads(pickle.dumps(alt)), Extinction.from_table(alt.to_table())]
    assert alt_clones[0].wav.unit == u.nm and alt_clones[1].chi.unit == u.m ** 2 / u.kg
    for cl in clones:
        assert type(cl) is Extinction
        assert np.array_equal(cl.wav.value, w) and cl.wav.unit == u.micron
        assert np.array_equal(cl.chi.value, c) and cl.chi.unit == u.cm ** 2 / u.g
        assert np.array_equal(cl.get_av(xq * u.micron).value, first.value)
        check(cl, w, c, xq, xq * u.micron, 'clone')
    for cl in alt_clones:
        check(cl, w, c, interior, interior * u.micron, 'alt clone')
    t = law.to_table()
    assert t.colnames == ['wav', 'chi'] and len(t) == n
    assert t['wav'].unit == u.micron and t['chi'].unit == u.cm ** 2 / u.g

    # 8. text-file reader with column selections
    extra1 = rng.uniform(1, 2, n)
    extra2 = rng.uniform(1, 2, n)
    layouts = {
        (0, 1): [w, c], (1, 0): [c, w], (0, 2): [w, extra1, c], (3, 1): [extra1, c, extra2, w],
        (-1, 0): [c, extra1, w], (-2, -1): [extra1, w, c],
    }
    for k, (cols, data) in enumerate(layouts.items()):
        fn = os.path.join(tmp, 'law_%i_%i.txt' % (it, k))
        np.savetxt(fn, np.transpose(data), fmt='%.18e',
                   header='a header line\nanother one' if k % 2 else '')
        for name in (fn, Path(fn)):
            if cols == (0, 1) and len(data) == 2:
                e = Extinction.from_file(name)
            else:
                e = Extinction.from_file(name, columns=cols if k % 2 else list(cols))
            assert np.array_equal(e.wav.value, w) and e.wav.unit == u.micron
            assert np.array_equal(e.chi.value, c) and e.chi.unit == u.cm ** 2 / u.g
            assert np.array_equal(e.get_av(xq * u.micron).value, first.value)
            check(e, w, c, xq, xq * u.micron, 'file')
            check(e, w, c, xq, xq * u.micron, 'file again')
    # a file in other units, read twice
    fn = os.path.join(tmp, 'law_%i_nm.txt' % it)
    np.savetxt(fn, np.transpose([extra1, c * 0.1, w * 1000.]), fmt='%.18e')
    for _ in range(2):
        e = Extinction.from_file(fn, columns=(2, 1), wav_unit=u.nm, chi_unit=u.m ** 2 / u.kg)
        assert e.wav.unit == u.nm and e.chi.unit == u.m ** 2 / u.kg
        assert np.array_equal(e.wav.value, w * 1000.) and np.array_equal(e.chi.value, c * 0.1)
        check(e, w, c, interior, interior * u.micron, 'file nm')
    # hand-formatted file: comments, blank lines, tabs, trailing comment, no final newline
    fn = os.path.join(tmp, 'hand_%i.txt' % it)
    with open(fn, 'w') as f:
        f.write('# wav  chi\n\n')
        for i in range(n):
            f.write('  %r\t %r   # row %i\n' % (float(w[i]), float(c[i]), i))
            if i == 0:
                f.write('   \n# in between\n')
        f.write('#end')
    e = Extinction.from_file(fn)
    assert np.array_equal(e.wav.value, w) and np.array_equal(e.chi.value, c)
    check(e, w, c, xq, xq * u.micron, 'hand file')
    with gzip.open(fn + '.gz', 'wt') as f:
        f.write(open(fn).read())
    e = Extinction.from_file(fn + '.gz')
    assert np.array_equal(e.wav.value, w) and np.array_equal(e.chi.value, c)
    with open(fn) as f:  # open file object and list of lines
        e = Extinction.from_file(f)
    assert np.array_equal(e.wav.value, w) and np.array_equal(e.chi.value, c)
    e = Extinction.from_file(open(fn).read().splitlines())
    assert np.array_equal(e.wav.value, w) and np.array_equal(e.chi.value, c)
    check(e, w, c, xq, xq * u.micron, 'lines')

# 9. inputs that are refused stay refused, with the same exception types
w, c = make_table(rng, 10)
law = Extinction()
law.wav = w * u.micron
law.chi = c * u.cm ** 2 / u.g
for bad in (w, list(w), 1., w * u.s, w * u.Hz, w * u.dimensionless_unscaled, None, '0.55'):
    try:
        law.get_av(bad)
    except TypeError as exc:
        assert str(exc) == "wav should be given as a Quantity object with units of length"
    else:
        raise AssertionError('accepted %r' % (bad,))
half = Extinction()
half.wav = w * u.micron
other_half = Extinction()
other_half.chi = c * u.cm ** 2 / u.g
for incomplete, exc_type in ((half, ValueError), (other_half, AttributeError), (Extinction(), AttributeError)):
    try:
        incomplete.get_av(w * u.micron)
    except exc_type:
        pass
    else:
        raise AssertionError('incomplete law accepted')
for attr, val, exc_type in (('wav', w, TypeError), ('wav', w * u.s, TypeError), ('wav', w[:3] * u.micron, ValueError),
                            ('chi', c * u.micron, TypeError), ('chi', c[:3] * u.cm ** 2 / u.g, ValueError),
                            ('chi', 3. * u.cm ** 2 / u.g, TypeError)):
    try:
        setattr(law, attr, val)
    except exc_type:
        pass
    else:
        raise AssertionError('accepted %s=%r' % (attr, val))
# still intact after the refused assignments
check(law, w, c, w, w * u.micron, 'after refusals')


def refused(text, exc_type, **kwargs):
    with warnings.catch_warnings():
        warnings.simplefilter('ignore')
        try:
            Extinction.from_file(io.StringIO(text), **kwargs)
        except exc_type:
            return
    raise AssertionError('file accepted: %r %r' % (text, kwargs))


refused('0.1 2.\n', TypeError)                      # a single row is not a 1-d table
refused('0.1 2.\n1. 3.\n', ValueError, columns=(0, 2))   # no such column
refused('0.1 2.\n1. 3.\n', ValueError, columns=(0, -3))
refused('0.1 2.\n1. 3.\n', TypeError, columns=(0, 1, 1))
refused('0.1 2.\n1. 3.\n', TypeError, columns=(0,))
refused('0.1 2. 3.\n1. 3. 4.\n', ValueError, columns=None)
refused('0.1 x\n1. 3.\n', ValueError)
refused('0.1 2_0\n1. 3.\n', ValueError)
refused('0.1,2.\n1.,3.\n', ValueError)
try:
    Extinction.from_file(os.path.join(tmp, 'does_not_exist.txt'))
except OSError:
    pass
else:
    raise AssertionError('missing file accepted')

print('C14 demo: %i comparisons with the independent reference passed' % N_CHECKS[0])
