import sys, os
sys.path.insert(0, os.getcwd())

import io
import math
import pickle
import shutil
import tempfile
import contextlib

import numpy as np
from astropy import units as u
from astropy.io import fits as pyfits
from astropy.table import Table

import sedfitter
assert os.path.dirname(os.path.abspath(sedfitter.__file__)) == os.path.join(os.getcwd(), 'sedfitter'), sedfitter.__file__

from sedfitter.sed import SED, SEDCube
from sedfitter.filter import Filter
from sedfitter.extinction import Extinction
from sedfitter.convolve import convolve_model_dir
from sedfitter.fit import fit, Fitter
from sedfitter.source import Source
from sedfitter.write_parameters import write_parameters

N_MODELS = 7
N_AP = 9
FILTER_DEFS = [('alice', 3.0, (1., 5.)), ('bob', 12.0, (10., 15.)),
               ('eve', 20.0, (15., 25.)), ('zed', 60.0, (40., 90.))]
LOGD_STEP = 0.025

CHECKS = [0]


def check(cond, msg):
    CHECKS[0] += 1
    if not cond:
        print("DEMO FAILURE: " + msg, file=sys.__stdout__)
        sys.exit(1)


@contextlib.contextmanager
def quiet():
    buf = io.StringIO()
    with contextlib.redirect_stdout(buf):
        yield


# ----------------------------------------------------------------------------
# package construction (same recipe as the library's own pipeline test)
# ----------------------------------------------------------------------------

def make_package(version, aperture_dependent, seed, permutation=None):
    d = tempfile.mkdtemp(prefix='c08demo_')
    rng = np.random.RandomState(seed)
    names = ['model_{0:04d}'.format(i) for i in range(N_MODELS)]
    wav = np.logspace(-2., 3., 120) * u.micron
    if aperture_dependent:
        apertures = np.logspace(1., 6., N_AP) * u.au
        val = np.cumsum(0.2 + rng.random_sample((N_MODELS, N_AP, 120)), axis=1)
        # give every model its own colour so that no two are related by
        # reddening + scaling
        val *= (np.linspace(0.5, 2.0, 120)[None, None, :] ** rng.uniform(-2, 2, N_MODELS)[:, None, None])
    else:
        apertures = None
        val = 1. + rng.random_sample((N_MODELS, 1, 120))
        val *= (np.linspace(0.5, 2.0, 120)[None, None, :] ** rng.uniform(-2, 2, N_MODELS)[:, None, None])
    unc = val * 0.01 * rng.random_sample(val.shape)

    if version == 1:
        os.mkdir(os.path.join(d, 'seds'))
        for i in range(N_MODELS):
            sed = SED()
            sed.name = names[i]
            sed.distance = 1 * u.kpc
            sed.wav = wav
            sed.nu = sed.wav.to(u.Hz, equivalencies=u.spectral())
            sed.apertures = apertures
            sed.flux = val[i] * u.mJy
            sed.error = unc[i] * u.mJy
            sed.write(os.path.join(d, 'seds', sed.name + '_sed.fits'))
    else:
        cube = SEDCube()
        cube.names = np.array(names)
        cube.distance = 1 * u.kpc
        cube.wav = wav
        cube.apertures = apertures
        cube.val = val * u.mJy
        cube.unc = unc * u.mJy
        cube.write(os.path.join(d, 'flux.fits'))

    with open(os.path.join(d, 'models.conf'), 'w') as f:
        f.write("name = test\n")
        f.write("length_subdir = 0\n")
        f.write("aperture_dependent = {0}\n".format('yes' if aperture_dependent else 'no'))
        f.write("logd_step = {0}\n".format(LOGD_STEP))
        if version == 2:
            f.write("version = 2\n")

    t = Table()
    t['MODEL_NAME'] = np.array(names, dtype='S30' if version == 1 else 'S')
    t['par1'] = rng.random_sample(N_MODELS) * 10.
    t['par2'] = 10. ** rng.uniform(-3, 3, N_MODELS)
    if permutation is not None:
        t = t[list(permutation)]
    t.write(os.path.join(d, 'parameters.fits'))
    return d, names


def make_filters(seed):
    rng = np.random.RandomState(seed)
    filters = []
    for name, cen, (w1, w2) in FILTER_DEFS:
        f = Filter()
        f.name = name
        f.central_wavelength = cen * u.micron
        f.nu = (np.linspace(w2, w1, 60) * u.micron).to(u.Hz, equivalencies=u.spectral())
        f.response = 0.2 + rng.random_sample(60)
        f.normalize()
        filters.append(f)
    return filters


def make_extinction():
    e = Extinction()
    e.wav = np.logspace(-2., 3., 50) * u.micron
    e.chi = e.wav.value ** -2 * u.cm ** 2 / u.g
    return e


# ----------------------------------------------------------------------------
# independent computations (astropy.io.fits + plain python only)
# ----------------------------------------------------------------------------

def lin_interp(x, xs, ys):
    """Plain linear interpolation on an increasing grid (pure python)."""
    xs = [float(v) for v in xs]
    ys = [float(v) for v in ys]
    if x <= xs[0]:
        return ys[0] if x == xs[0] else None
    for k in range(1, len(xs)):
        if x <= xs[k]:
            t = (x - xs[k - 1]) / (xs[k] - xs[k - 1])
            return ys[k - 1] + t * (ys[k] - ys[k - 1])
    return None


def av_law_independent(cen_micron):
    xs = np.logspace(-2., 3., 50)
    ys = xs ** -2
    chi_v = lin_interp(0.55, xs, ys)
    return [-0.4 * lin_interp(w, xs, ys) / chi_v for w in cen_micron]


def read_convolved_independent(model_dir, filt_name):
    with pyfits.open(os.path.join(model_dir, 'convolved', filt_name + '.fits')) as h:
        names = [str(n).strip() for n in h['CONVOLVED FLUXES'].data['MODEL_NAME']]
        flux = np.array(h['CONVOLVED FLUXES'].data['TOTAL_FLUX'], dtype=float)
        if flux.ndim == 1:
            flux = flux[:, None]
        try:
            ap = np.array(h['APERTURES'].data['APERTURE'], dtype=float)
        except KeyError:
            ap = None
    return names, flux, ap


def distance_grid(dmin, dmax):
    if dmin == dmax:
        return [dmin]
    n = int(math.ceil(1 + (math.log10(dmax) - math.log10(dmin)) / LOGD_STEP))
    lo, hi = math.log10(dmin), math.log10(dmax)
    return [10. ** (lo + (hi - lo) * k / (n - 1)) for k in range(n)]


def synthesise(model_dir, filt_order, ap_arcsec, m_name, av0, aperture_dependent, d0_kpc=None, scale0=None):
    cen = dict((n, c) for n, c, _ in FILTER_DEFS)
    law = av_law_independent([cen[n] for n in filt_order])
    out = []
    for k, fn in enumerate(filt_order):
        names, flux, ap = read_convolved_independent(model_dir, fn)
        row = flux[names.index(m_name)]
        if aperture_dependent:
            ap_au = ap_arcsec[k] * d0_kpc * 1000.
            if ap_au > ap[-1]:
                ap_au = ap[-1]
            base = lin_interp(ap_au, ap, row) / d0_kpc ** 2
        else:
            base = row[0] * 10. ** (-2. * scale0)
        out.append(base * 10. ** (av0 * law[k]))
    return out


def data_line(name, fluxes, rel):
    """valid=1 points; the flux is pre-compensated for the (documented)
    -0.5 (sigma/F)^2 / ln 10 bias of the log-flux, so that the planted model
    fits exactly"""
    bias = 0.5 * rel ** 2 / math.log(10.)
    cols = [name, '0.0', '0.0'] + ['1'] * len(fluxes)
    for f in fluxes:
        fl = f * 10. ** bias
        cols += [repr(float(fl)), repr(float(fl * rel))]
    return ' '.join(cols)


def parameter_row_independent(model_dir, m_name):
    with pyfits.open(os.path.join(model_dir, 'parameters.fits')) as h:
        d = h[1].data
        names = [str(n).strip() for n in d['MODEL_NAME']]
        i = names.index(m_name)
        return ['%10.3e' % float(d['par1'][i]), '%10.3e' % float(d['par2'][i])]


def first_data_row(path):
    lines = open(path).read().split('\n')
    check(lines[2].startswith('-----'), 'header rule missing')
    src = lines[3].split()
    row = lines[4].split()
    return src, row


def first_record(path):
    with open(path, 'rb') as f:
        model_dir = pickle.load(f)
        filters = pickle.load(f)
        law = pickle.load(f)
        info = pickle.load(f)
    info.meta.model_dir = model_dir
    info.meta.filters = filters
    info.meta.extinction_law = law
    return model_dir, filters, info


# ----------------------------------------------------------------------------
# one full planted-model experiment
# ----------------------------------------------------------------------------

def run_case(version, aperture_dependent, seed, m_index, av0, rel, av_range,
             dist_range_kpc, d_index=None, scale0=None, permutation=None,
             data_as_handle=False, aperture_unit=u.arcsec, dist_unit=u.kpc,
             select=('N', 1), fits_input='file', label=''):

    model_dir, names = make_package(version, aperture_dependent, seed, permutation)
    try:
        filters = make_filters(seed + 1)
        with quiet():
            convolve_model_dir(model_dir, filters)
            # second call on the same files
            convolve_model_dir(model_dir, filters, overwrite=True)

        filt_order = ['bob', 'zed', 'alice', 'eve']
        ap_arcsec = [2., 4., 1., 3.]
        m_name = names[m_index]

        if aperture_dependent:
            grid = distance_grid(*dist_range_kpc)
            d0 = grid[d_index]
            expected_scale = math.log10(d0)
            fluxes = synthesise(model_dir, filt_order, ap_arcsec, m_name, av0, True, d0_kpc=d0)
        else:
            expected_scale = scale0
            fluxes = synthesise(model_dir, filt_order, ap_arcsec, m_name, av0, False, scale0=scale0)

        line = data_line('planted', fluxes, rel)
        data_file = os.path.join(model_dir, 'data.txt')
        with open(data_file, 'w') as f:
            f.write(line + '\n')

        apertures = (np.array(ap_arcsec) * u.arcsec).to(aperture_unit)
        distance_range = (np.array(dist_range_kpc) * u.kpc).to(dist_unit)
        ext = make_extinction()

        out1 = os.path.join(model_dir, 'out1.fitinfo')
        with quiet():
            if data_as_handle:
                with open(data_file) as handle:
                    fit(handle, filt_order, apertures, model_dir, out1,
                        extinction_law=ext, distance_range=distance_range,
                        av_range=av_range, output_format=('A', 0), output_convolved=True)
            else:
                fit(data_file, filt_order, apertures, model_dir, out1,
                    extinction_law=ext, distance_range=distance_range,
                    av_range=av_range, output_format=('A', 0), output_convolved=True)

        # --- first record of the fit output file
        md, flt, info = first_record(out1)
        check(md == model_dir, label + ': model_dir in output file')
        check([f['name'] for f in flt] == filt_order, label + ': filters in output file')
        check(str(info.model_name[0]).strip() == m_name, label + ': planted model not ranked first in the output file (%s)' % info.model_name[0])
        chi2 = np.asarray(info.chi2, float)
        check(len(chi2) == N_MODELS, label + ': all fits kept')
        check(np.all(np.diff(chi2) >= 0), label + ': chi2 sorted')
        check(chi2[0] < 1e-5, label + ': chi2 of planted model %g' % chi2[0])
        check(chi2[1] > 0.05 and chi2[1] > 1e3 * chi2[0], label + ': second best not separated (%g)' % chi2[1])
        check(abs(float(np.asarray(info.av, float)[0]) - av0) < 2e-4, label + ': av %r vs %r' % (info.av[0], av0))
        check(abs(float(np.asarray(info.sc, float)[0]) - expected_scale) < 2e-4, label + ': scale %r vs %r' % (info.sc[0], expected_scale))
        check(int(info.model_id[0]) == list(read_convolved_independent(model_dir, 'bob')[0]).index(m_name), label + ': model_id')
        # best-fit convolved model fluxes reproduce the planted photometry
        mf = np.asarray(info.model_fluxes, float)[0]
        bias = 0.5 * rel ** 2 / math.log(10.)
        check(np.allclose(mf, np.log10(fluxes), atol=2e-5, rtol=0), label + ': model_fluxes of best fit')
        check(info.source.name == 'planted' and int(info.source.n_data) == 4, label + ': source')

        # --- write_parameters, first data row (twice, and from several input forms)
        for rep in range(2):
            outp = os.path.join(model_dir, 'pars_%i.txt' % rep)
            with quiet():
                if fits_input == 'file' or rep == 0:
                    write_parameters(out1, outp, select_format=select)
                elif fits_input == 'object':
                    write_parameters(info, outp, select_format=select)
                else:
                    write_parameters([info], outp, select_format=select)
            src, row = first_data_row(outp)
            check(src[0] == 'planted' and src[1] == '4', label + ': source header line')
            check(row[0] == '1', label + ': fit_id')
            check(row[1] == m_name, label + ': first row is %s, planted %s' % (row[1], m_name))
            check(abs(float(row[2])) < 1e-3, label + ': chi2 column ' + row[2])
            check(abs(float(row[3]) - av0) <= 1.001e-3, label + ': av column %s vs %r' % (row[3], av0))
            check(abs(float(row[4]) - expected_scale) <= 1.001e-3, label + ': scale column %s vs %r' % (row[4], expected_scale))
            want = [w.strip() for w in parameter_row_independent(model_dir, m_name)]
            check(row[5:7] == want, label + ': parameter row %r vs %r' % (row[5:7], want))
        check(open(os.path.join(model_dir, 'pars_0.txt')).read().split('\n')[4] ==
              open(os.path.join(model_dir, 'pars_1.txt')).read().split('\n')[4], label + ': repeated write_parameters')

        # --- Fitter driven directly, twice on the same objects
        with quiet():
            fitter = Fitter(filt_order, apertures, model_dir, extinction_law=ext,
                            av_range=av_range, distance_range=distance_range,
                            use_memmap=False)
        src_obj = Source.from_ascii(line)
        res = []
        for rep in range(2):
            inf = fitter.fit(src_obj)
            res.append((str(inf.model_name[0]).strip(), float(np.asarray(inf.chi2, float)[0]),
                        float(np.asarray(inf.av, float)[0]), float(np.asarray(inf.sc, float)[0])))
            check(res[-1][0] == m_name, label + ': Fitter best model')
            check(res[-1][1] < 1e-8, label + ': Fitter chi2 (float64 path) %g' % res[-1][1])
            check(abs(res[-1][2] - av0) < 1e-6, label + ': Fitter av')
            check(abs(res[-1][3] - expected_scale) < 1e-6, label + ': Fitter scale')
        check(res[0] == res[1], label + ': second Fitter.fit call differs')
        return model_dir, fitter, src_obj, info
    finally:
        shutil.rmtree(model_dir, ignore_errors=True)


def standard_cases():
    # (version, aperture_dependent) = both formats x both fitting modes
    n = 0
    for version in (1, 2):
        for apdep in (False, True):
            seed = 100 * version + (7 if apdep else 3)
            perm = [3, 0, 6, 1, 5, 2, 4] if version == 1 else None
            if apdep:
                grid = distance_grid(0.5, 4.0)
                # interior grid distance, interior A_V
                run_case(version, True, seed, 2, 3.7, 0.05, [0., 10.], (0.5, 4.0), d_index=11,
                         permutation=perm, label='v%i-apdep-interior' % version)
                # boundary: nearest and farthest grid distance, A_V on the edges of the range
                run_case(version, True, seed + 1, 5, 0.0, 0.01, [0., 10.], (0.5, 4.0), d_index=0,
                         permutation=perm, data_as_handle=True, aperture_unit=u.arcmin,
                         dist_unit=u.pc, fits_input='object', label='v%i-apdep-dmin-avmin' % version)
                run_case(version, True, seed + 2, 0, 10.0, 0.2, [0., 10.], (0.5, 4.0), d_index=len(grid) - 1,
                         permutation=perm, select=('F', 3.), fits_input='list', label='v%i-apdep-dmax-avmax' % version)
                # single distance (dmin == dmax)
                run_case(version, True, seed + 3, 6, 1.25, 0.1, [0., 10.], (2.0, 2.0), d_index=0,
                         permutation=perm, label='v%i-apdep-single-distance' % version)
                n += 4
            else:
                run_case(version, False, seed, 4, 2.2, 0.03, [0., 30.], (1., 2.), scale0=0.4,
                         permutation=perm, label='v%i-apindep-interior' % version)
                run_case(version, False, seed + 1, 1, 0.0, 0.1, [0., 30.], (1., 2.), scale0=-1.3,
                         permutation=perm, data_as_handle=True, dist_unit=u.pc,
                         fits_input='list', label='v%i-apindep-avmin' % version)
                run_case(version, False, seed + 2, 6, 30.0, 0.01, [0., 30.], (1., 2.), scale0=2.0,
                         permutation=perm, select=('D', 5.), fits_input='object', label='v%i-apindep-avmax' % version)
                n += 3
    return n


# ----------------------------------------------------------------------------
# checks specific to this change: Models.read / Models.fit / fit() internals
# ----------------------------------------------------------------------------

def extra_checks():
    from sedfitter.models import Models
    from sedfitter.fit_info import FitInfoFile

    for version in (1, 2):
        for apdep in (False, True):
            label = 'models-v%i-%s' % (version, 'apdep' if apdep else 'apindep')
            model_dir, names = make_package(version, apdep, 900 + version, [6, 5, 4, 3, 2, 1, 0] if version == 1 else None)
            try:
                with quiet():
                    convolve_model_dir(model_dir, make_filters(5))
                filt_order = ['eve', 'alice', 'zed']
                ap_arcsec = [3., 1., 5.]
                filters = [{'name': n, 'aperture_arcsec': a} for n, a in zip(filt_order, ap_arcsec)]
                rng = (np.array([0.8, 3.0]) * u.kpc)

                reads = []
                for use_memmap in (True, False, False):   # the last one is a repeated call
                    with quiet():
                        m = Models.read(model_dir, filters, distance_range=rng, use_memmap=use_memmap)
                    reads.append(m)
                    conv_names = read_convolved_independent(model_dir, 'eve')[0]
                    check([str(n) for n in m.names] == conv_names, label + ': names')
                    check(m.n_models == N_MODELS and m.n_wav == 3, label + ': sizes')
                    check(np.allclose(m.wavelengths.to(u.micron).value, [20., 3., 60.]), label + ': wavelengths')
                    grid = distance_grid(0.8, 3.0)
                    if apdep:
                        check(m.fluxes.shape == (N_MODELS, len(grid), 3), label + ': flux shape')
                        check(np.allclose(m.distances.to(u.kpc).value, grid, rtol=1e-12), label + ': distance grid')
                        check(np.allclose(m.logd, np.log10(grid), rtol=0, atol=1e-12), label + ': logd')
                        check(isinstance(m.extended, np.ndarray) and not np.any(m.extended), label + ': extended')
                        for k, fn in enumerate(filt_order):
                            _, flux, ap = read_convolved_independent(model_dir, fn)
                            for im in (0, 3, 6):
                                for idist in (0, len(grid) // 2, len(grid) - 1):
                                    want = lin_interp(min(ap_arcsec[k] * grid[idist] * 1000., ap[-1]), ap, flux[im]) / grid[idist] ** 2
                                    got = float(m.fluxes[im, idist, k].to(u.mJy).value)
                                    check(abs(got - want) <= 3e-7 * abs(want), label + ': flux cube value')
                    else:
                        check(m.fluxes.shape == (N_MODELS, 3), label + ': flux shape')
                        check(m.distances is None and m.logd is None and m.extended == [], label + ': no distances')
                        for k, fn in enumerate(filt_order):
                            _, flux, ap = read_convolved_independent(model_dir, fn)
                            check(np.allclose(m.fluxes[:, k].to(u.mJy).value, flux[:, 0], rtol=3e-7), label + ': flux values')
                    expected_dtype = np.float32 if (use_memmap and version == 2) else np.float64
                    check(m.fluxes.dtype == expected_dtype, label + ': flux dtype %s' % m.fluxes.dtype)
                    lf = m.log_fluxes_mJy
                    check(lf.dtype == np.float64 and lf.shape == m.fluxes.shape, label + ': log fluxes')
                check(np.array_equal(reads[1].fluxes.value, reads[2].fluxes.value), label + ': repeated read')

                # Models.fit driven directly, twice on the same objects, with
                # a numpy-scalar A_V range
                m = reads[1]
                law = np.array(av_law_independent([20., 3., 60.]))
                if apdep:
                    d0 = distance_grid(0.8, 3.0)[5]
                    fl = synthesise(model_dir, filt_order, ap_arcsec, names[3], 4.5, True, d0_kpc=d0)
                    want_sc = math.log10(d0)
                else:
                    fl = synthesise(model_dir, filt_order, ap_arcsec, names[3], 4.5, False, scale0=0.75)
                    want_sc = 0.75
                s = Source.from_ascii(data_line('direct', fl, 0.02))
                got = []
                for rep in range(2):
                    info = m.fit(s, law, -2. * np.ones(3), np.float64(0.), np.float32(20.))
                    check(str(info.model_name[0]) == names[3], label + ': Models.fit best')
                    check(float(info.chi2[0]) < 1e-8 and abs(float(info.av[0]) - 4.5) < 1e-6 and abs(float(info.sc[0]) - want_sc) < 1e-6, label + ': Models.fit values')
                    check(np.array_equal(np.asarray(info.model_name)[np.argsort(info.model_id)], m.names), label + ': model_id is the sort order')
                    check(info.model_fluxes.shape == (N_MODELS, 3), label + ': model_fluxes shape')
                    got.append((info.chi2.copy(), info.av.copy(), info.sc.copy()))
                check(all(np.array_equal(a, b) for a, b in zip(got[0], got[1])), label + ': repeated Models.fit')

                # refused inputs stay refused
                if apdep:
                    try:
                        with quiet():
                            Models.read(model_dir, filters, distance_range=None)
                        check(False, label + ': missing distance range accepted')
                    except Exception as e:
                        check('distange range is required' in str(e), label + ': message for missing distance range')
                try:
                    with quiet():
                        Models.read(model_dir, [{'name': 'nofilter', 'aperture_arcsec': 1.}], distance_range=rng)
                    check(False, label + ': missing file accepted')
                except Exception as e:
                    check(str(e).startswith('File not found: '), label + ': message for missing file')
                try:
                    with quiet():
                        Fitter([3.0, 'alice', 'zed'], [1., 2., 3.] * u.arcsec, model_dir, extinction_law=make_extinction(),
                               av_range=[0., 1.], distance_range=rng)
                    check(False, label + ': float filter accepted')
                except ValueError as e:
                    check(str(e) == 'filter should be a string or a Quantity', label + ': message for bad filter')

                # fit(): several sources, one with too few points, reading stops at a blank line
                l1 = data_line('s1', fl, 0.02)
                cols = l1.split()
                cols[0] = 's2'
                cols[3] = '0'     # only two valid points -> skipped (n_data_min=3)
                l2 = ' '.join(cols)
                l3 = l1.replace('s1', 's3', 1)
                data_file = os.path.join(model_dir, 'multi.txt')
                with open(data_file, 'w') as fh:
                    fh.write(l1 + '\n' + l2 + '\n' + l3 + '\n\n' + l1.replace('s1', 's4', 1) + '\n')
                out = os.path.join(model_dir, 'multi.fitinfo')
                with quiet():
                    fit(data_file, tuple(filt_order), (np.array(ap_arcsec) / 3600.) * u.deg, model_dir, out,
                        extinction_law=make_extinction(), distance_range=rng, av_range=(0., 20.),
                        output_format=('N', 2))
                fin = FitInfoFile(out, 'r')
                got = [(i.source.name, str(i.model_name[0]), len(i.chi2), i.model_fluxes) for i in fin]
                fin.close()
                check([g[0] for g in got] == ['s1', 's3'], label + ': sources in output %r' % [g[0] for g in got])
                check(all(g[1] == names[3] and g[2] == 2 and g[3] is None for g in got), label + ': records')
                check(fin.meta.filters == [{'aperture_arcsec': a, 'name': n, 'wav': w * u.micron} for a, n, w in zip(ap_arcsec, filt_order, [20., 3., 60.])] or
                      all(abs(f['aperture_arcsec'] - a) < 1e-12 and f['name'] == n for f, a, n in zip(fin.meta.filters, ap_arcsec, filt_order)), label + ': meta.filters')
            finally:
                shutil.rmtree(model_dir, ignore_errors=True)


if __name__ == '__main__':
    n = standard_cases()
    extra_checks()
    print("demo OK: %i planted-model pipelines, %i checks" % (n, CHECKS[0]))
