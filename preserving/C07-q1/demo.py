import sys, os; sys.path.insert(0, os.getcwd())
# Demonstration for property C07: convolved-flux files keep model identity,
# identically in both package formats.  Everything that is compared against
# the library is computed here independently (files are written/read with
# astropy.io.fits directly, the filter re-binning and the convolution are
# re-implemented below).

import shutil
import tempfile
import warnings

import numpy as np
from astropy import units as u
from astropy.io import fits
from astropy.table import Table

warnings.simplefilter('ignore')

import sedfitter
assert os.path.dirname(os.path.abspath(sedfitter.__file__)) == os.path.join(os.getcwd(), 'sedfitter'), sedfitter.__file__

from sedfitter.filter import Filter
from sedfitter.convolve import convolve_model_dir
from sedfitter.convolved_fluxes import ConvolvedFluxes
from sedfitter.extinction import Extinction
from sedfitter.source import Source
from sedfitter.fit import Fitter

C_UM_HZ = 299792458.e6  # micron * Hz

N_CHECKS = [0]


def check(cond, msg):
    N_CHECKS[0] += 1
    if not cond:
        print("DEMO FAILURE: " + msg)
        sys.exit(1)


def close(a, b, rtol=1e-9, atol=0.):
    a = np.asarray(a, float)
    b = np.asarray(b, float)
    return a.shape == b.shape and bool(np.allclose(a, b, rtol=rtol, atol=atol))


# ---------------------------------------------------------------- generation

def make_case(rng, n_models, n_ap, n_wav=41, long_names=False):
    """Random SEDs: dict with names, wav (increasing, micron), apertures (au),
    flux/err of shape (n_models, n_ap, n_wav) in mJy."""
    ids = rng.permutation(900)[:n_models] + 100
    if long_names:
        names = ['m{0:03d}_'.format(i).ljust(30, 'x') for i in ids]  # exactly 30 chars
    else:
        names = ['mod_{0:03d}_{1}'.format(i, 'abcdefgh'[k]) for k, i in enumerate(ids)]
    wav = np.logspace(-0.5, 2.5, n_wav)
    ap = np.logspace(2., 5., n_ap) if n_ap > 1 else np.array([1.e5])
    base = 10. ** rng.uniform(-1., 2., size=(n_models, 1, 1))
    shape = 1. + rng.random((n_models, n_ap, n_wav))
    flux = np.cumsum(base * shape, axis=1)
    err = flux * (0.01 + 0.05 * rng.random(flux.shape))
    return dict(names=names, wav=wav, ap=ap, flux=flux, err=err)


def write_sed_file(path, name, wav, ap, flux, err, reverse):
    """One SED file, written by hand. flux/err: (n_ap, n_wav), wav increasing.
    reverse=False: stored in increasing frequency; True: increasing wavelength"""
    nu = C_UM_HZ / wav
    if not reverse:
        sl = slice(None, None, -1)   # increasing frequency
    else:
        sl = slice(None)             # increasing wavelength
    h0 = fits.PrimaryHDU()
    h0.header['MODEL'] = name
    h0.header['DISTANCE'] = (1. * u.kpc).to(u.cm).value
    h0.header['NAP'] = len(ap)
    h0.header['NWAV'] = len(wav)
    h1 = fits.BinTableHDU.from_columns([
        fits.Column(name='WAVELENGTH', format='D', unit='um', array=wav[sl]),
        fits.Column(name='FREQUENCY', format='D', unit='Hz', array=nu[sl])], name='WAVELENGTHS')
    h2 = fits.BinTableHDU.from_columns([
        fits.Column(name='APERTURE', format='D', unit='AU', array=ap)], name='APERTURES')
    h3 = fits.BinTableHDU.from_columns([
        fits.Column(name='TOTAL_FLUX', format='%iD' % len(wav), unit='mJy', array=flux[:, sl]),
        fits.Column(name='TOTAL_FLUX_ERR', format='%iD' % len(wav), unit='mJy', array=err[:, sl])], name='SEDS')
    fits.HDUList([h0, h1, h2, h3]).writeto(path)


def write_conf(model_dir, aperture_dependent, version):
    with open(os.path.join(model_dir, 'models.conf'), 'w') as f:
        f.write("name = demo\n")
        f.write("length_subdir = 0\n")
        f.write("aperture_dependent = {0}\n".format('yes' if aperture_dependent else 'no'))
        f.write("logd_step = 0.05\n")
        if version == 2:
            f.write("version = 2\n")


def write_parameters(model_dir, names_in_table_order, rng):
    t = Table()
    t['MODEL_NAME'] = np.array(names_in_table_order, dtype='S30')
    t['par1'] = rng.random(len(names_in_table_order))
    t.write(os.path.join(model_dir, 'parameters.fits'))


def build_perfile(model_dir, case, table_order, rng, reverse, gz=False, subdirs=False):
    os.makedirs(os.path.join(model_dir, 'seds'))
    # files are created in yet another random order
    for k in rng.permutation(len(case['names'])):
        name = case['names'][k]
        d = os.path.join(model_dir, 'seds')
        if subdirs and k % 2 == 0:
            d = os.path.join(d, name[:5])
            os.makedirs(d, exist_ok=True)
        path = os.path.join(d, name.strip() + '_sed.fits' + ('.gz' if gz else ''))
        rev = reverse if reverse in (True, False) else bool(rng.integers(2))
        write_sed_file(path, name, case['wav'], case['ap'], case['flux'][k], case['err'][k], rev)
    write_conf(model_dir, len(case['ap']) > 1, 1)
    write_parameters(model_dir, [case['names'][i] for i in table_order], rng)


def build_cube(model_dir, case, table_order, rng, reverse, dtype=np.float64):
    os.makedirs(model_dir)
    names = [case['names'][i] for i in table_order]
    wav = case['wav']
    nu = C_UM_HZ / wav
    sl = slice(None) if reverse else slice(None, None, -1)
    val = case['flux'][table_order][:, :, sl].astype(dtype)
    unc = case['err'][table_order][:, :, sl].astype(dtype)
    h0 = fits.PrimaryHDU(data=np.ones(len(names), dtype=int))
    h0.header['DISTANCE'] = (1. * u.kpc).to(u.cm).value
    h0.header['NWAV'] = len(wav)
    h0.header['NAP'] = len(case['ap'])
    h1 = fits.BinTableHDU.from_columns([
        fits.Column(name='MODEL_NAME', format='30A', array=np.array(names, dtype='S30'))], name='MODEL_NAMES')
    h2 = fits.BinTableHDU.from_columns([
        fits.Column(name='WAVELENGTH', format='D', unit='um', array=wav[sl]),
        fits.Column(name='FREQUENCY', format='D', unit='Hz', array=nu[sl])], name='SPECTRAL_INFO')
    h3 = fits.BinTableHDU.from_columns([
        fits.Column(name='APERTURE', format='D', unit='AU', array=case['ap'])], name='APERTURES')
    h4 = fits.ImageHDU(val, name='VALUES')
    h4.header['BUNIT'] = 'mJy'
    h5 = fits.ImageHDU(unc, name='UNCERTAINTIES')
    h5.header['BUNIT'] = 'mJy'
    fits.HDUList([h0, h1, h2, h3, h4, h5]).writeto(os.path.join(model_dir, 'flux.fits'))
    write_conf(model_dir, len(case['ap']) > 1, 2)
    write_parameters(model_dir, names, rng)


def make_filters(rng, as_tuple=False):
    out = []
    for name, lo, hi, cw, n in [('alice', 1., 5., 3., 30), ('bob', 8., 15., 12., 17), ('eve', 15., 60., 20.5, 50)]:
        wav = np.linspace(hi, lo, n) if name != 'bob' else np.linspace(lo, hi, n)
        f = Filter()
        f.name = name
        f.central_wavelength = cw * u.micron
        f.nu = (C_UM_HZ / wav) * u.Hz
        f.response = 0.1 + rng.random(n)
        f.normalize()
        out.append(f)
    return tuple(out) if as_tuple else out


# ------------------------------------------------- independent reference maths

def ref_rebin(f_nu, f_resp, sed_nu):
    """Integral of the piecewise-linear filter response over the bins centred
    on the SED frequencies (bins limited to the filter's own range)."""
    o = np.argsort(f_nu)
    x = np.asarray(f_nu, float)[o]
    y = np.asarray(f_resp, float)[o]
    cum = np.concatenate([[0.], np.cumsum(0.5 * np.diff(x) * (y[1:] + y[:-1]))])

    def F(t):
        t = min(max(t, x[0]), x[-1])
        i = min(max(np.searchsorted(x, t, side='right') - 1, 0), len(x) - 2)
        yt = y[i] + (y[i + 1] - y[i]) * (t - x[i]) / (x[i + 1] - x[i])
        return cum[i] + 0.5 * (t - x[i]) * (y[i] + yt)

    s = np.sort(np.asarray(sed_nu, float))
    edges = np.concatenate([[s[0]], 0.5 * (s[1:] + s[:-1]), [s[-1]]])
    return s, np.array([F(edges[i + 1]) - F(edges[i]) for i in range(len(s))])


def ref_convolved(case, filt):
    """Expected flux/error (n_models, n_ap) in mJy, rows in case order"""
    nu_sorted, resp = ref_rebin(filt.nu.to(u.Hz).value, filt.response, C_UM_HZ / case['wav'])
    # case['wav'] increasing -> nu decreasing; nu_sorted increasing
    flux = case['flux'][:, :, ::-1]
    err = case['err'][:, :, ::-1]
    return np.sum(flux * resp, axis=2), np.sqrt(np.sum((err * resp) ** 2, axis=2))


def read_convolved_raw(path):
    """Read a convolved file with astropy.io.fits only"""
    with fits.open(path, memmap=False) as h:
        names = [str(x).strip() for x in np.char.decode(np.asarray(h['CONVOLVED FLUXES'].data['MODEL_NAME'], dtype='S'))] \
            if h['CONVOLVED FLUXES'].data['MODEL_NAME'].dtype.kind == 'S' else [str(x).strip() for x in h['CONVOLVED FLUXES'].data['MODEL_NAME']]
        flux = np.array(h['CONVOLVED FLUXES'].data['TOTAL_FLUX'], dtype=float)
        err = np.array(h['CONVOLVED FLUXES'].data['TOTAL_FLUX_ERR'], dtype=float)
        cols = h['CONVOLVED FLUXES'].columns
        units = (cols['TOTAL_FLUX'].unit, cols['TOTAL_FLUX_ERR'].unit)
        filtwav = h[0].header['FILTWAV']
        nmodels = h[0].header['NMODELS']
        nap = h[0].header['NAP']
        ap = np.array(h['APERTURES'].data['APERTURE'], dtype=float)
        ap_unit = h['APERTURES'].columns['APERTURE'].unit
    if flux.ndim == 1:
        flux = flux[:, None]
        err = err[:, None]
    return dict(names=names, flux=flux, err=err, units=units, filtwav=filtwav,
                ap=ap, ap_unit=ap_unit, nmodels=nmodels, nap=nap)


def check_package(model_dir, case, table_order, filters, label):
    """The convolved files of one package against the reference"""
    expected_names = [case['names'][i].strip() for i in table_order]
    out = {}
    for filt in filters:
        path = os.path.join(model_dir, 'convolved', filt.name + '.fits')
        check(os.path.exists(path), label + ": missing " + path)
        raw = read_convolved_raw(path)
        check(raw['names'] == expected_names, label + ": row order differs from the parameter table/cube order for " + filt.name)
        ef, ee = ref_convolved(case, filt)
        check(u.Unit(raw['units'][0]) == u.mJy and u.Unit(raw['units'][1]) == u.mJy, label + ": flux unit")
        check(close(raw['flux'], ef[table_order], rtol=1e-9), label + ": flux of row X is not the flux of SED X for " + filt.name)
        check(close(raw['err'], ee[table_order], rtol=1e-9), label + ": error of row X is not the error of SED X for " + filt.name)
        check(close(raw['filtwav'], filt.central_wavelength.to(u.micron).value, rtol=1e-12), label + ": FILTWAV")
        check(close((raw['ap'] * u.Unit(raw['ap_unit'])).to(u.au).value, case['ap'], rtol=1e-12), label + ": apertures not carried over")
        check(raw['nmodels'] == len(expected_names) and raw['nap'] == len(case['ap']), label + ": NMODELS/NAP")
        # the library's own reader must say the same thing
        c = ConvolvedFluxes.read(path)
        check([str(x).strip() for x in c.model_names] == expected_names, label + ": reader names")
        check(close(c.flux.to(u.mJy).value, raw['flux'], rtol=1e-14), label + ": reader flux")
        check(close(c.error.to(u.mJy).value, raw['err'], rtol=1e-14), label + ": reader error")
        check(close(c.apertures.to(u.au).value, case['ap'], rtol=1e-12), label + ": reader apertures")
        check(close(c.central_wavelength.to(u.micron).value, raw['filtwav'], rtol=1e-14), label + ": reader wavelength")
        check(c.n_models == len(expected_names) and c.n_ap == len(case['ap']), label + ": reader sizes")
        out[filt.name] = raw
    return out


def file_bytes(model_dir, filters):
    return [open(os.path.join(model_dir, 'convolved', f.name + '.fits'), 'rb').read() for f in filters]


def make_extinction():
    e = Extinction()
    e.wav = np.logspace(-2., 3.) * u.micron
    e.chi = e.wav.value ** -2 * u.cm ** 2 / u.g
    return e


def run_fit(model_dir, n_ap, source, use_memmap):
    fitter = Fitter(['bob', 'alice', 'eve'], [3., 3., 3.] * u.arcsec, model_dir,
                    extinction_law=make_extinction(), av_range=[0., 5.],
                    distance_range=[1., 2.] * u.kpc, use_memmap=use_memmap)
    info = fitter.fit(source)
    names = [str(x).strip() for x in info.model_name]
    return {n: (float(np.asarray(info.chi2, float)[i]), float(np.asarray(info.av, float)[i]),
                float(np.asarray(info.sc, float)[i])) for i, n in enumerate(names)}, names


def check_fits_agree(dirs_and_flags, case, rng, label):
    # source: close to one of the models so that the fit is meaningful
    k = int(rng.integers(len(case['names'])))
    s = Source()
    s.name = 'src'
    s.x = 0.
    s.y = 0.
    s.valid = np.array([1, 1, 1])
    base = case['flux'][k, -1, [20, 10, 30]] * (0.8 + 0.4 * rng.random(3))
    s.flux = base
    s.error = 0.1 * base
    results = []
    for d, mm in dirs_and_flags:
        res, names = run_fit(d, len(case['ap']), s, mm)
        check(sorted(names) == sorted(n.strip() for n in case['names']), label + ": fit does not list every model once")
        results.append(res)
    ref = results[0]
    for res in results[1:]:
        for n in ref:
            check(np.allclose(res[n], ref[n], rtol=2e-3, atol=2e-3), label + ": fits disagree for model " + n + " %r %r" % (res[n], ref[n]))


def run_scenario(rng, n_models, n_ap, reverse_pf, reverse_cube, tmp, tag, filters,
                 gz=False, subdirs=False, long_names=False, with_fits=True, convolve_pf=None, convolve_cube=None):
    case = make_case(rng, n_models, n_ap, long_names=long_names)
    table_order = rng.permutation(n_models)
    d1 = os.path.join(tmp, tag + '_pf')
    d2 = os.path.join(tmp, tag + '_cube')
    d3 = os.path.join(tmp, tag + '_cube_nomm')
    os.makedirs(d1)
    build_perfile(d1, case, table_order, rng, reverse_pf, gz=gz, subdirs=subdirs)
    build_cube(d2, case, table_order, rng, reverse_cube)
    build_cube(d3, case, table_order, rng, not reverse_cube)

    (convolve_pf or convolve_model_dir)(d1, filters)
    (convolve_cube or convolve_model_dir)(d2, filters, memmap=True)
    (convolve_cube or convolve_model_dir)(d3, filters, memmap=False)

    r1 = check_package(d1, case, table_order, filters, tag + " per-file")
    r2 = check_package(d2, case, table_order, filters, tag + " cube(memmap)")
    r3 = check_package(d3, case, table_order, filters, tag + " cube(no memmap)")
    for f in filters:
        for other in (r2, r3):
            check(r1[f.name]['names'] == other[f.name]['names'], tag + ": per-file and cube rows differ")
            check(close(r1[f.name]['flux'], other[f.name]['flux'], rtol=1e-10), tag + ": per-file and cube fluxes differ")
            check(close(r1[f.name]['err'], other[f.name]['err'], rtol=1e-10), tag + ": per-file and cube errors differ")

    # second call on the same packages: refused without overwrite, identical with
    before = [file_bytes(d, filters) for d in (d1, d2, d3)]
    for d in (d1, d2):
        try:
            convolve_model_dir(d, filters)
        except OSError:
            pass
        else:
            check(False, tag + ": existing output silently overwritten")
    convolve_model_dir(d1, filters, overwrite=True)
    convolve_model_dir(d2, filters, overwrite=True, memmap=False)
    convolve_model_dir(d3, filters, overwrite=True, memmap=True)
    after = [file_bytes(d, filters) for d in (d1, d2, d3)]
    check(before == after, tag + ": second convolution of the same package gives other files")

    if with_fits:
        check_fits_agree([(d1, True), (d1, False), (d2, True), (d2, False), (d3, True), (d3, False)], case, rng, tag)
    return case, table_order, (d1, d2, d3)


def standard_scenarios(rng, tmp, **kw):
    filters = make_filters(rng)
    out = []
    # boundary: a single model, a single aperture
    out.append(run_scenario(rng, 1, 1, False, False, tmp, 's1', filters, **kw))
    # boundary: 8 models, 5 apertures, 30-character names, SEDs stored by increasing wavelength, gz files
    out.append(run_scenario(rng, 8, 5, True, True, tmp, 's2', filters, long_names=True, gz=True, **kw))
    # mixed spectral order per file, sub-directories, filters given as a tuple
    out.append(run_scenario(rng, 5, 3, 'mixed', False, tmp, 's3', tuple(filters), subdirs=True, **kw))
    # several apertures but few models
    out.append(run_scenario(rng, 2, 2, False, True, tmp, 's4', filters, **kw))
    # many models, one aperture
    out.append(run_scenario(rng, 7, 1, True, False, tmp, 's5', filters, **kw))
    return filters, out


# ------------------------------------------------------------ specific to q1
# (restructured sedfitter/convolve/convolve.py)

def main():
    from sedfitter.convolve import convolve as conv_mod
    tmp = tempfile.mkdtemp()
    try:
        rng = np.random.default_rng(20260927)

        # the whole property on the standard set of packages, through the public entry point
        filters, scen = standard_scenarios(rng, tmp)

        # the same through the two format-specific entry points
        run_scenario(rng, 6, 4, 'mixed', True, tmp, 'p1', filters,
                     convolve_pf=lambda d, f, **kw: conv_mod._convolve_model_dir_1(d, f),
                     convolve_cube=lambda d, f, memmap=True: conv_mod._convolve_model_dir_2(d, f, memmap=memmap))

        # per-file package whose SEDs are NOT all on the same wavelength grid
        # (filters re-binned again and again): A, B, A in directory order
        cA = make_case(rng, 2, 3, n_wav=41)
        cB = make_case(rng, 1, 3, n_wav=47)
        cA['names'] = ['a_first', 'c_third']
        cB['names'] = ['b_second']
        d = os.path.join(tmp, 'grids')
        os.makedirs(os.path.join(d, 'seds'))
        write_sed_file(os.path.join(d, 'seds', 'a_first_sed.fits'), 'a_first', cA['wav'], cA['ap'], cA['flux'][0], cA['err'][0], False)
        write_sed_file(os.path.join(d, 'seds', 'b_second_sed.fits'), 'b_second', cB['wav'], cB['ap'], cB['flux'][0], cB['err'][0], True)
        write_sed_file(os.path.join(d, 'seds', 'c_third_sed.fits'), 'c_third', cA['wav'], cA['ap'], cA['flux'][1], cA['err'][1], True)
        write_conf(d, True, 1)
        write_parameters(d, ['c_third', 'a_first', 'b_second'], rng)
        convolve_model_dir(d, filters)
        for f in filters:
            raw = read_convolved_raw(os.path.join(d, 'convolved', f.name + '.fits'))
            check(raw['names'] == ['c_third', 'a_first', 'b_second'], "grids: row order")
            fa, ea = ref_convolved(cA, f)
            fb, eb = ref_convolved(cB, f)
            check(close(raw['flux'], np.array([fa[1], fa[0], fb[0]])), "grids: flux of row X is not from SED X")
            check(close(raw['err'], np.array([ea[1], ea[0], eb[0]])), "grids: error of row X is not from SED X")
            check(close(raw['ap'], cA['ap'], rtol=1e-12), "grids: apertures")

        # single-precision cube in Jy: same fluxes as the double-precision per-file package, to single precision
        case = make_case(rng, 4, 2)
        order = rng.permutation(4)
        d1 = os.path.join(tmp, 'sp_pf')
        os.makedirs(d1)
        build_perfile(d1, case, order, rng, 'mixed')
        d2 = os.path.join(tmp, 'sp_cube')
        case_jy = dict(case)
        build_cube(d2, dict(case, flux=case['flux'] / 1000., err=case['err'] / 1000.), order, rng, True, dtype=np.float32)
        with fits.open(os.path.join(d2, 'flux.fits'), mode='update') as h:
            h['VALUES'].header['BUNIT'] = 'Jy'
            h['UNCERTAINTIES'].header['BUNIT'] = 'Jy'
        d3 = os.path.join(tmp, 'sp_cube2')
        shutil.copytree(d2, d3)
        convolve_model_dir(d1, filters)
        convolve_model_dir(d2, filters, memmap=True)
        convolve_model_dir(d3, filters, memmap=False)
        check(file_bytes(d2, filters) == file_bytes(d3, filters), "single precision: memmap changes the files")
        for f in filters:
            r1 = read_convolved_raw(os.path.join(d1, 'convolved', f.name + '.fits'))
            r2 = read_convolved_raw(os.path.join(d2, 'convolved', f.name + '.fits'))
            ef, ee = ref_convolved(case, f)
            check(r1['names'] == r2['names'] == [case['names'][i] for i in order], "single precision: rows")
            check(close(r1['flux'], ef[order]) and close(r1['err'], ee[order]), "single precision: per-file")
            check(close(r2['flux'], ef[order], rtol=2e-5) and close(r2['err'], ee[order], rtol=2e-5), "single precision: cube")
            check(u.Unit(r2['units'][0]) == u.mJy, "single precision: unit of the file")

        # inputs that are refused stay refused (and nothing is written for them)
        nameless = Filter()
        nameless.central_wavelength = 3. * u.micron
        nameless.nu = filters[0].nu
        nameless.response = filters[0].response
        for dd in (scen[1][2][0], scen[1][2][1]):
            before = sorted(os.listdir(os.path.join(dd, 'convolved')))
            try:
                convolve_model_dir(dd, [filters[0], nameless], overwrite=True)
            except Exception as e:
                check("filter name needs to be set" in str(e), "nameless filter: message")
            else:
                check(False, "nameless filter accepted")
            check(sorted(os.listdir(os.path.join(dd, 'convolved'))) == before, "nameless filter: files changed")
        # cube whose names are not those of the parameter table
        dbad = os.path.join(tmp, 'badcube')
        shutil.copytree(scen[2][2][1], dbad)
        shutil.rmtree(os.path.join(dbad, 'convolved'))
        os.remove(os.path.join(dbad, 'parameters.fits'))
        write_parameters(dbad, [scen[2][0]['names'][i] for i in scen[2][1]][::-1], rng)
        try:
            convolve_model_dir(dbad, filters)
        except ValueError as e:
            check("do not match" in str(e), "mismatching cube: message")
        else:
            check(False, "mismatching cube accepted")
        check(not os.listdir(os.path.join(dbad, 'convolved')) if os.path.exists(os.path.join(dbad, 'convolved')) else True, "mismatching cube: files written")
        # per-file package without SEDs
        dempty = os.path.join(tmp, 'empty')
        os.makedirs(os.path.join(dempty, 'seds'))
        write_conf(dempty, False, 1)
        write_parameters(dempty, ['x'], rng)
        try:
            convolve_model_dir(dempty, filters)
        except Exception as e:
            check("No SEDs found" in str(e), "empty package: message")
        else:
            check(False, "empty package accepted")
    finally:
        shutil.rmtree(tmp, ignore_errors=True)
    print("demo q1 OK (%i checks)" % N_CHECKS[0])


if __name__ == '__main__':
    main()
