import sys, os
sys.path.insert(0, os.getcwd())

import itertools
import pathlib
import shutil
import tempfile

import numpy as np
from astropy import units as u
from astropy.io import fits

import sedfitter
from sedfitter.sed import SED
from sedfitter.sed.helpers import convert_flux

assert os.path.abspath(sedfitter.__file__).startswith(os.getcwd()), sedfitter.__file__

RTOL = 1e-11
TMP = tempfile.mkdtemp(prefix='c15demo_')
N_CHECKS = [0]

# ---------------------------------------------------------------------------
# Independent model of the conversions (plain numpy, cgs constants by hand)
# ---------------------------------------------------------------------------

# name -> (family, factor to the cgs unit of that family)
#   family 'fnu'  : cgs unit erg/cm^2/s/Hz
#   family 'flux' : cgs unit erg/cm^2/s
#   family 'lum'  : cgs unit erg/s
FAMILY = {
    'mJy': ('fnu', 1e-26),
    'Jy': ('fnu', 1e-23),
    'erg/cm^2/s': ('flux', 1.0),
    'erg/s': ('lum', 1.0),
    'W/m^2': ('flux', 1e3),
}

ASTROPY_UNIT = {
    'mJy': u.mJy,
    'Jy': u.Jy,
    'erg/cm^2/s': u.erg / u.cm ** 2 / u.s,
    'erg/s': u.erg / u.s,
    'W/m^2': u.W / u.m ** 2,
}

# Spellings of the stored unit in the TUNIT keywords (including legacy ones)
STORED_SPELLINGS = {
    'mJy': ['mJy', 'MJY'],
    'Jy': ['Jy'],
    'erg/cm^2/s': ['erg cm-2 s-1', 'ergs/cm^2/s', 'erg/cm^2/s'],
    'erg/s': ['erg s-1', 'erg/s'],
    'W/m^2': ['W m-2', 'W/m^2'],
}


def to_cgs_flux(values, name, nu_hz, d_cm):
    family, fac = FAMILY[name]
    v = np.asarray(values, dtype=np.float64) * fac
    if family == 'fnu':
        return v * nu_hz
    elif family == 'lum':
        return v / d_cm ** 2
    return v


def from_cgs_flux(values, name, nu_hz, d_cm):
    family, fac = FAMILY[name]
    if family == 'fnu':
        v = values / nu_hz
    elif family == 'lum':
        v = values * d_cm ** 2
    else:
        v = values
    return v / fac


def expected(values, stored, requested, nu_hz, d_cm):
    return from_cgs_flux(to_cgs_flux(values, stored, nu_hz, d_cm), requested, nu_hz, d_cm)


def close(actual, desired, what):
    N_CHECKS[0] += 1
    actual = np.asarray(actual, dtype=np.float64)
    desired = np.asarray(desired, dtype=np.float64)
    assert actual.shape == desired.shape, (what, actual.shape, desired.shape)
    assert np.all(np.isfinite(desired)), what
    # purely relative comparison (values span hundreds of orders of magnitude)
    ok = np.abs(actual - desired) <= RTOL * np.abs(desired)
    assert np.all(ok), (what, actual[~ok][:3], desired[~ok][:3])


# ---------------------------------------------------------------------------
# Writing SED files by hand (independent of SED.write)
# ---------------------------------------------------------------------------

KPC_CM = 3.0856775814913673e21
C_MICRON_HZ = 2.99792458e14


def write_file(path, nu_hz, flux, err, flux_unit_str, err_unit_str=None,
               d_cm=None, dtype='>f4', freq_unit=('HZ', 1.0), n_ap=None):
    nu_hz = np.asarray(nu_hz, dtype=np.float64)
    if err_unit_str is None:
        err_unit_str = flux_unit_str
    n_wav = len(nu_hz)
    n_ap = flux.shape[0]
    hdu0 = fits.PrimaryHDU()
    hdu0.header['MODEL'] = 'demo'
    if d_cm is not None:
        hdu0.header['DISTANCE'] = d_cm
    hdu0.header['NAP'] = n_ap
    hdu0.header['NWAV'] = n_wav
    wav = C_MICRON_HZ / nu_hz
    c1 = fits.Column(name='WAVELENGTH', format='D', unit='MICRONS', array=wav)
    c2 = fits.Column(name='FREQUENCY', format='D', unit=freq_unit[0], array=nu_hz / freq_unit[1])
    hdu1 = fits.BinTableHDU.from_columns([c1, c2])
    hdu1.header['EXTNAME'] = 'WAVELENGTHS'
    ap = 10. ** np.linspace(2., 5., n_ap)
    hdu2 = fits.BinTableHDU.from_columns([fits.Column(name='APERTURE', format='D', unit='AU', array=ap)])
    hdu2.header['EXTNAME'] = 'APERTURES'
    fmt = '%i%s' % (n_wav, 'E' if dtype == '>f4' else 'D')
    f1 = fits.Column(name='TOTAL_FLUX', format=fmt, unit=flux_unit_str, array=flux.astype(dtype).reshape(n_ap, n_wav))
    f2 = fits.Column(name='TOTAL_FLUX_ERR', format=fmt, unit=err_unit_str, array=err.astype(dtype).reshape(n_ap, n_wav))
    hdu3 = fits.BinTableHDU.from_columns([f1, f2])
    hdu3.header['EXTNAME'] = 'SEDS'
    fits.HDUList([hdu0, hdu1, hdu2, hdu3]).writeto(path, overwrite=True)


def check_read(path, stored, stored_err, requested, nu_hz, flux, err, d_cm, dtype, **kwargs):
    """Read with a requested unit and compare with the independent model"""
    d_eff = KPC_CM if d_cm is None else d_cm
    s = SED.read(path, unit_flux=ASTROPY_UNIT[requested], **kwargs)
    nu_read = s.nu.to(u.Hz).value
    # the ordering of the result is not part of this property: identify each
    # returned frequency with the (unique) frequency of the grid it came from
    lg = np.log(np.asarray(nu_hz, dtype=np.float64))
    idx = np.array([np.argmin(np.abs(lg - np.log(x))) for x in nu_read])
    assert sorted(idx.tolist()) == list(range(len(nu_hz)))
    close(nu_read, np.asarray(nu_hz)[idx], 'nu')
    order = kwargs.get('order', 'nu')
    if np.all(np.diff(nu_hz) > 0) or np.all(np.diff(nu_hz) < 0):
        assert np.all(np.diff(nu_read) > 0) if order == 'nu' else np.all(np.diff(nu_read) < 0)
    fl = flux.astype(dtype).astype(np.float64)[:, idx]
    er = err.astype(dtype).astype(np.float64)[:, idx]
    nus = np.asarray(nu_hz, dtype=np.float64)[idx]
    assert s.flux.unit.is_equivalent(ASTROPY_UNIT[requested])
    assert s.error.unit.is_equivalent(ASTROPY_UNIT[requested])
    got_f = s.flux.to(ASTROPY_UNIT[requested]).value
    got_e = s.error.to(ASTROPY_UNIT[requested]).value
    assert got_f.dtype == np.float64 and got_e.dtype == np.float64
    close(got_f, expected(fl, stored, requested, nus, d_eff), ('flux', stored, requested))
    close(got_e, expected(er, stored_err, requested, nus, d_eff), ('error', stored_err, requested))
    if d_cm is None:
        close(s.distance.to(u.cm).value, KPC_CM, 'distance')
    else:
        close(s.distance.to(u.cm).value, d_cm, 'distance')
    return s


rng = np.random.RandomState(15)
NAMES = list(FAMILY)

# ---------------------------------------------------------------------------
# 1. every stored unit x every requested unit, several shapes / distances /
#    frequency grids / precisions
# ---------------------------------------------------------------------------

configs = []
# (n_ap, nu grid, distance in cm or None, dtype, frequency unit in file)
configs.append((1, np.logspace(15.5, 11.0, 7), None, '>f4', ('HZ', 1.0)))           # decreasing grid, no DISTANCE keyword
configs.append((2, np.logspace(9.0, 16.0, 12), KPC_CM, '>f4', ('Hz', 1.0)))           # increasing grid
configs.append((3, np.array([3.1e14, 2.9e12, 7.7e13, 1.2e10]), 4.7e17, '>f8', ('GHz', 1e9)))  # unsorted grid, GHz in file
configs.append((4, np.array([5.45e14, 5.44e14]), 1.0, '>f8', ('HZ', 1.0)))            # two frequencies, distance 1 cm
configs.append((5, np.logspace(17.0, 8.0, 31), 3.3e27, '>f4', ('HZ', 1.0)))           # Gpc distance

for icfg, (n_ap, nu_hz, d_cm, dtype, freq_unit) in enumerate(configs):
    n_wav = len(nu_hz)
    base = 10. ** rng.uniform(-3, 3, size=(n_ap, n_wav))
    base[0, 0] = 0.                       # boundary value: an exactly zero flux
    if n_wav > 2:
        base[-1, 1] = -base[-1, 1]        # negative flux (noise) is legal
    berr = 10. ** rng.uniform(-4, 1, size=(n_ap, n_wav))
    for stored in NAMES:
        # put the stored values at a sensible magnitude for that unit so that
        # single-precision storage is representable
        scale = {'mJy': 1., 'Jy': 1e-3, 'erg/cm^2/s': 1e-12, 'erg/s': 1e30, 'W/m^2': 1e-15}[stored]
        flux = base * scale
        err = berr * scale
        for ispell, spelling in enumerate(STORED_SPELLINGS[stored]):
            path = os.path.join(TMP, 'cfg%i_%s_%i_sed.fits' % (icfg, stored.replace('/', '_').replace('^', ''), ispell))
            write_file(path, nu_hz, flux, err, spelling, d_cm=d_cm, dtype=dtype, freq_unit=freq_unit)
            for requested in NAMES:
                if d_cm is not None and dtype == '>f4' and 'erg/s' in (stored, requested) and d_cm > 1e25 and stored != requested:
                    pass  # still fine in double precision; checked like the others
                s1 = check_read(path, stored, stored, requested, nu_hz, flux, err, d_cm, dtype)
                if ispell == 0:
                    # second call on the same file: identical, also after the
                    # first result has been modified in place, and after an
                    # interleaved read with another unit
                    f1 = s1.flux.value.copy()
                    e1 = s1.error.value.copy()
                    s1.flux.value[...] = -1.
                    s1.error.value[...] = -1.
                    SED.read(path, unit_flux=ASTROPY_UNIT[NAMES[(NAMES.index(requested) + 1) % len(NAMES)]])
                    s2 = check_read(path, stored, stored, requested, nu_hz, flux, err, d_cm, dtype)
                    assert np.array_equal(s2.flux.value, f1) and np.array_equal(s2.error.value, e1)
                    # the other ordering
                    check_read(path, stored, stored, requested, nu_hz, flux, err, d_cm, dtype, order='wav')

# ---------------------------------------------------------------------------
# 2. flux and error columns stored in DIFFERENT units; file overwritten in
#    place with other contents (same size) and read again
# ---------------------------------------------------------------------------

nu_hz = np.logspace(14.8, 11.5, 9)
flux = 10. ** rng.uniform(-2, 2, size=(3, 9))
err = 10. ** rng.uniform(-3, 0, size=(3, 9))
path = os.path.join(TMP, 'mixed_sed.fits')
write_file(path, nu_hz, flux, err * 1e-3, 'mJy', err_unit_str='Jy', d_cm=2.2e20, dtype='>f8')
for requested in NAMES:
    check_read(path, 'mJy', 'Jy', requested, nu_hz, flux, err * 1e-3, 2.2e20, '>f8')
# overwrite: other values, other unit, other distance, same shapes
flux2 = flux[::-1] * 3.3e-11
err2 = err[::-1] * 1.1e-12
write_file(path, nu_hz, flux2, err2, 'W m-2', err_unit_str='erg cm-2 s-1', d_cm=8.8e21, dtype='>f8')
for requested in NAMES:
    check_read(path, 'W/m^2', 'erg/cm^2/s', requested, nu_hz, flux2, err2, 8.8e21, '>f8')

# ---------------------------------------------------------------------------
# 3. faint single-precision values (intermediate F_nu in cgs would underflow
#    in single precision) and large ones
# ---------------------------------------------------------------------------

nu_hz = np.logspace(15., 10., 6)
faint = np.array([[1e-30, 3e-33, 2e-36, 1.5e-37, 7e-20, 1e-25]])
path = os.path.join(TMP, 'faint_sed.fits')
write_file(path, nu_hz, faint, faint * 0.1, 'MJY', d_cm=KPC_CM, dtype='>f4')
for requested in NAMES:
    check_read(path, 'mJy', 'mJy', requested, nu_hz, faint, faint * 0.1, KPC_CM, '>f4')
bright = np.array([[1e30, 3e33, 2e36, 1.5e38, 7e20, 1e25]])
path = os.path.join(TMP, 'bright_sed.fits')
write_file(path, nu_hz, bright, bright * 0.1, 'erg s-1', d_cm=1e3, dtype='>f4')
for requested in NAMES:
    check_read(path, 'erg/s', 'erg/s', requested, nu_hz, bright, bright * 0.1, 1e3, '>f4')

# ---------------------------------------------------------------------------
# 4. A -> B -> A is the identity, A -> B -> C equals A -> C
#    (a) through files: read in B, write, read in A / C
#    (b) directly with convert_flux
# ---------------------------------------------------------------------------

nu_hz = np.logspace(15.2, 10.7, 11)
flux = 10. ** rng.uniform(-2, 2, size=(4, 11))
err = 10. ** rng.uniform(-3, 0, size=(4, 11))
d_cm = 6.1e20
scale = {'mJy': 1., 'Jy': 1e-3, 'erg/cm^2/s': 1e-12, 'erg/s': 1e30, 'W/m^2': 1e-15}
for a in NAMES:
    path_a = os.path.join(TMP, 'chain_a_sed.fits')
    write_file(path_a, nu_hz, flux * scale[a], err * scale[a], STORED_SPELLINGS[a][0], d_cm=d_cm, dtype='>f8')
    s_a = SED.read(path_a, unit_flux=ASTROPY_UNIT[a])
    close(s_a.flux.value, (flux * scale[a])[:, ::-1], 'A->A')
    for b in NAMES:
        s_b = SED.read(path_a, unit_flux=ASTROPY_UNIT[b])
        path_b = os.path.join(TMP, 'chain_b_sed.fits')
        s_b.write(path_b, overwrite=True)
        s_aba = SED.read(path_b, unit_flux=ASTROPY_UNIT[a])
        close(s_aba.flux.to(ASTROPY_UNIT[a]).value, (flux * scale[a])[:, ::-1], ('A->B->A', a, b))
        close(s_aba.error.to(ASTROPY_UNIT[a]).value, (err * scale[a])[:, ::-1], ('A->B->A err', a, b))
        for c in NAMES:
            s_abc = SED.read(path_b, unit_flux=ASTROPY_UNIT[c])
            s_ac = SED.read(path_a, unit_flux=ASTROPY_UNIT[c])
            close(s_abc.flux.to(ASTROPY_UNIT[c]).value, s_ac.flux.to(ASTROPY_UNIT[c]).value, ('A->B->C', a, b, c))
            close(s_abc.error.to(ASTROPY_UNIT[c]).value, s_ac.error.to(ASTROPY_UNIT[c]).value, ('A->B->C err', a, b, c))
            close(s_ac.flux.to(ASTROPY_UNIT[c]).value,
                  expected((flux * scale[a])[:, ::-1], a, c, nu_hz[::-1], d_cm), ('A->C', a, c))

# (b) directly: various legal forms (frequencies in GHz, distance in kpc / pc,
# single-precision quantities, 1-d flux)
nu_q = (nu_hz / 1e9) * u.GHz
for d_q in (0.2 * u.kpc, 3.0e5 * u.pc, 1.0 * u.cm, 7e26 * u.cm):
    d_val = d_q.to(u.cm).value
    for a, b, c in itertools.product(NAMES, repeat=3):
        q_a = (flux * scale[a]) * ASTROPY_UNIT[a]
        q_a_before = q_a.value.copy()
        q_b = convert_flux(nu_q, q_a, ASTROPY_UNIT[b], distance=d_q)
        assert np.array_equal(q_a.value, q_a_before)   # input not modified
        q_aba = convert_flux(nu_q, q_b, ASTROPY_UNIT[a], distance=d_q)
        q_abc = convert_flux(nu_q, q_b, ASTROPY_UNIT[c], distance=d_q)
        q_ac = convert_flux(nu_q, q_a, ASTROPY_UNIT[c], distance=d_q)
        close(q_b.to(ASTROPY_UNIT[b]).value, expected(flux * scale[a], a, b, nu_hz, d_val), ('direct A->B', a, b))
        close(q_aba.to(ASTROPY_UNIT[a]).value, flux * scale[a], ('direct A->B->A', a, b))
        close(q_abc.to(ASTROPY_UNIT[c]).value, q_ac.to(ASTROPY_UNIT[c]).value, ('direct A->B->C', a, b, c))
# 1-d single-precision input
q32 = (flux[0].astype(np.float32)) * u.mJy
out = convert_flux(nu_hz * u.Hz, q32, u.erg / u.s, distance=1 * u.kpc)
close(out.to(u.erg / u.s).value, expected(flux[0].astype(np.float32), 'mJy', 'erg/s', nu_hz, KPC_CM), '1-d f4')
assert out.dtype == np.float64
# equivalent but differently scaled requested units (kW/m^2 is W/m^2-type, MJy is Jy-type, Lsun is erg/s-type)
for tgt, name, fac in ((u.kW / u.m ** 2, 'W/m^2', 1e3), (u.MJy, 'Jy', 1e6), (u.Lsun, 'erg/s', 3.828e33)):
    s = SED.read(path_a, unit_flux=tgt)
    close(s.flux.to(tgt).value * fac, expected((flux * scale[NAMES[-1]])[:, ::-1], NAMES[-1], name, nu_hz[::-1], d_cm), ('scaled', name))

# ---------------------------------------------------------------------------
# 5. unusual but legal input forms: pathlib.Path, gzipped file found without
#    the .gz extension
# ---------------------------------------------------------------------------

s_p = SED.read(pathlib.Path(path_a), unit_flux=u.Jy)
s_s = SED.read(path_a, unit_flux=u.Jy)
assert np.array_equal(s_p.flux.value, s_s.flux.value) and s_p.flux.unit == s_s.flux.unit
import gzip
with open(path_a, 'rb') as fin, gzip.open(os.path.join(TMP, 'zipped_sed.fits.gz'), 'wb') as fout:
    shutil.copyfileobj(fin, fout)
s_z = SED.read(os.path.join(TMP, 'zipped_sed.fits'), unit_flux=u.Jy)
assert np.array_equal(s_z.flux.value, s_s.flux.value)
s_z = SED.read(os.path.join(TMP, 'zipped_sed.fits.gz'), unit_flux=u.Jy)
assert np.array_equal(s_z.flux.value, s_s.flux.value)

# ---------------------------------------------------------------------------
# 6. unsupported units are refused (requested and stored)
# ---------------------------------------------------------------------------


def refused(func, *args, **kwargs):
    N_CHECKS[0] += 1
    try:
        func(*args, **kwargs)
    except Exception:
        return True
    raise AssertionError("not refused: %r %r" % (args, kwargs))


for bad in (u.K, u.m, u.Jy / u.sr, u.erg / u.cm ** 3, u.W / u.m ** 2 / u.micron, u.dimensionless_unscaled, u.Hz):
    refused(SED.read, path_a, unit_flux=bad)
    refused(convert_flux, nu_hz * u.Hz, flux * u.mJy, bad, distance=1 * u.kpc)
    refused(convert_flux, nu_hz * u.Hz, flux * bad, u.mJy, distance=1 * u.kpc)
for bad_str in ('K', 'Jy/sr', 'm', 'furlongs'):
    path = os.path.join(TMP, 'bad_sed.fits')
    write_file(path, nu_hz, flux, err, bad_str, d_cm=d_cm, dtype='>f8')
    for requested in NAMES:
        refused(SED.read, path, unit_flux=ASTROPY_UNIT[requested])
    write_file(path, nu_hz, flux, err, 'mJy', err_unit_str=bad_str, d_cm=d_cm, dtype='>f8')
    refused(SED.read, path, unit_flux=u.mJy)
# after refusals a normal read still works
check_read(path_a, NAMES[-1], NAMES[-1], 'mJy', nu_hz, flux * scale[NAMES[-1]], err * scale[NAMES[-1]], d_cm, '>f8')
refused(SED.read, path_a, unit_flux=u.mJy, order='frequency')

# ---------------------------------------------------------------------------
# 7. state that is kept between conversions must never leak between SEDs:
#    files with the same frequencies but different distances read alternately,
#    the same SED object inspected / copied / compared after reading, and (if
#    the library has a reusable converter object) many conversions with one
#    converter, in both directions, interleaved with another converter
# ---------------------------------------------------------------------------

nu_hz = np.logspace(15., 11., 8)
flux = 10. ** rng.uniform(-2, 2, size=(2, 8))
err = 10. ** rng.uniform(-3, 0, size=(2, 8))
paths = []
dists = [1.1e19, 4.2e22, None]
for i, d in enumerate(dists):
    path = os.path.join(TMP, 'alt%i_sed.fits' % i)
    write_file(path, nu_hz, flux * 1e30, err * 1e-3, 'erg s-1', err_unit_str='Jy', d_cm=d, dtype='>f4')
    paths.append(path)
for rep in range(3):
    for requested in NAMES:
        for path, d in zip(paths, dists):
            s = check_read(path, 'erg/s', 'Jy', requested, nu_hz, flux * 1e30, err * 1e-3, d, '>f4')
            s2 = s.copy()
            assert s == s2
            assert np.array_equal(s2.flux.value, s.flux.value) and s2.flux.unit == s.flux.unit
            # an SED built by hand has the same public content as one read from a file
            s3 = SED()
            s3.name = s.name
            s3.distance = s.distance
            s3.wav = s.wav
            s3.nu = s.nu
            s3.apertures = s.apertures
            s3.flux = s.flux
            s3.error = s.error
            assert s3 == s and s == s3
            # scaling to another distance and reading back in luminosity gives the same luminosity
            if requested == 'erg/cm^2/s':
                s4 = s.scale_to_distance(7.7e20)
                p4 = os.path.join(TMP, 'scaled_sed.fits')
                s4.write(p4, overwrite=True)
                l4 = SED.read(p4, unit_flux=u.erg / u.s)
                l0 = SED.read(path, unit_flux=u.erg / u.s)
                close(l4.flux.value, l0.flux.value, 'luminosity after scale_to_distance')

from sedfitter.sed import helpers
conv_cls = getattr(helpers, '_FluxConverter', None)
if conv_cls is not None:
    d1, d2 = 3.3e20 * u.cm, 2.0 * u.kpc
    nu_a = nu_hz * u.Hz
    nu_b = (nu_hz[::-1] / 1e9 * 1.7) * u.GHz
    c1 = conv_cls(nu_a, distance=d1)
    c2 = conv_cls(nu_b, distance=d2)
    for rep in range(2):
        for a, b in itertools.product(NAMES, repeat=2):
            q = (flux * scale[a]) * ASTROPY_UNIT[a]
            r1 = c1.convert(q, ASTROPY_UNIT[b])
            r2 = c2.convert(q.astype(np.float32), ASTROPY_UNIT[b])
            close(r1.to(ASTROPY_UNIT[b]).value, expected(flux * scale[a], a, b, nu_hz, 3.3e20), ('conv1', a, b))
            close(r2.to(ASTROPY_UNIT[b]).value,
                  expected((flux * scale[a]).astype(np.float32), a, b, nu_hz[::-1] * 1.7, 2.0 * KPC_CM), ('conv2', a, b))
            back = c1.convert(r1, ASTROPY_UNIT[a])
            close(back.to(ASTROPY_UNIT[a]).value, flux * scale[a], ('conv1 back', a, b))
            # results do not alias the converter's state: destroying them changes nothing
            r1.value[...] = np.nan
            back.value[...] = np.nan
    for bad in (u.K, u.m):
        refused(c1.convert, flux * u.mJy, bad)
        refused(c1.convert, flux * bad, u.mJy)
    close(c1.convert(flux * u.mJy, u.erg / u.s).value, expected(flux, 'mJy', 'erg/s', nu_hz, 3.3e20), 'after refusal')

shutil.rmtree(TMP)
print("C15 demo OK (%i checks)" % N_CHECKS[0])
