import sys, os
sys.path.insert(0, os.getcwd())

import itertools
import tempfile
import pathlib

import numpy as np
from astropy import units as u

import sedfitter
assert os.path.dirname(os.path.abspath(sedfitter.__file__)) == os.path.join(os.getcwd(), 'sedfitter'), sedfitter.__file__

from sedfitter.sed import SED, SEDCube
from sedfitter.convolved_fluxes import ConvolvedFluxes

C_MICRON_HZ = 2.99792458e14  # c in micron * Hz
KPC_CM = 3.0856775814913674e21
FLUX_UNITS = {'mJy': u.mJy, 'Jy': u.Jy, 'cgs': u.erg / u.cm ** 2 / u.s, 'lum': u.erg / u.s}
TMP = tempfile.mkdtemp(prefix='c12demo_')
N_CHECKS = [0]


def close(a, b, rtol=1e-12):
    a = np.asarray(a, dtype=float)
    b = np.asarray(b, dtype=float)
    assert a.shape == b.shape, (a.shape, b.shape)
    assert np.all(np.abs(a - b) <= rtol * np.abs(b)), (a, b)
    N_CHECKS[0] += 1


def exact(a, b):
    a = np.asarray(a)
    b = np.asarray(b)
    assert a.shape == b.shape, (a.shape, b.shape)
    assert np.array_equal(a, b), (a, b)
    N_CHECKS[0] += 1


def to_cgs(values, kind, nu_hz, d_cm):
    """independent conversion of plain arrays to erg/cm^2/s (nu F_nu)"""
    if kind == 'mJy':
        return values * 1e-26 * nu_hz
    if kind == 'Jy':
        return values * 1e-23 * nu_hz
    if kind == 'cgs':
        return values
    if kind == 'lum':
        return values / d_cm ** 2
    raise ValueError(kind)


def from_cgs(values, kind, nu_hz, d_cm):
    if kind == 'mJy':
        return values / nu_hz / 1e-26
    if kind == 'Jy':
        return values / nu_hz / 1e-23
    if kind == 'cgs':
        return values
    if kind == 'lum':
        return values * d_cm ** 2
    raise ValueError(kind)


def make_wav(rng, n_wav, descending):
    wav = np.sort(10. ** rng.uniform(-1., 3., n_wav))
    # make sure they are distinct
    wav = wav * (1. + 1e-3 * np.arange(n_wav))
    if descending:
        wav = wav[::-1].copy()
    return wav


def check_sed(rng, n_ap, n_wav, descending, kind, with_ap, as_path=False):
    wav = make_wav(rng, n_wav, descending)
    nu = C_MICRON_HZ / wav
    if not with_ap:
        n_ap = 1
    flux = 10. ** rng.uniform(-3, 3, (n_ap, n_wav))
    err = flux * rng.uniform(0.01, 0.2, (n_ap, n_wav))
    d_cm = 1.7 * KPC_CM

    s = SED()
    s.name = 'model_%d_%d' % (n_ap, n_wav)
    s.distance = 1.7 * u.kpc
    s.wav = wav * u.micron
    s.nu = nu * u.Hz
    if with_ap:
        s.apertures = np.sort(rng.uniform(10., 1e4, n_ap)) * u.au
        ap_au = s.apertures.value.copy()
    s.flux = flux * FLUX_UNITS[kind]
    s.error = err * FLUX_UNITS[kind]

    fn = os.path.join(TMP, 'sed_%d.fits' % N_CHECKS[0])
    fn_arg = pathlib.Path(fn) if as_path else fn
    try:
        s.write(fn_arg)
    except TypeError:
        # Path objects are not promised to be accepted
        assert as_path
        s.write(fn)

    # the object that was written is not modified by writing
    exact(s.wav.value, wav)
    exact(s.nu.value, nu)
    exact(s.flux.value, flux)
    exact(s.error.value, err)

    asc = np.argsort(wav, kind='stable')

    for rep in range(2):  # second call on the same file
        for order in ('nu', 'wav'):
            exp_idx = asc if order == 'wav' else asc[::-1]
            for kind_out in FLUX_UNITS:
                r = SED.read(fn, unit_flux=FLUX_UNITS[kind_out], order=order)
                assert r.name == s.name
                close(r.distance.to(u.cm).value, d_cm)
                assert r.wav.unit == u.micron and r.nu.unit == u.Hz
                close(r.wav.value, wav[exp_idx])
                close(r.nu.value, nu[exp_idx])
                if order == 'wav':
                    assert np.all(np.diff(r.wav.value) > 0)
                else:
                    assert np.all(np.diff(r.nu.value) > 0)
                assert r.flux.unit.is_equivalent(FLUX_UNITS[kind_out])
                exp_f = from_cgs(to_cgs(flux, kind, nu, d_cm), kind_out, nu, d_cm)[:, exp_idx]
                exp_e = from_cgs(to_cgs(err, kind, nu, d_cm), kind_out, nu, d_cm)[:, exp_idx]
                close(r.flux.to(FLUX_UNITS[kind_out]).value, exp_f)
                close(r.error.to(FLUX_UNITS[kind_out]).value, exp_e)
                assert r.flux.shape == (n_ap, n_wav)
                if with_ap:
                    close(r.apertures.to(u.au).value, ap_au)
                else:
                    assert r.n_ap == 1
            # default units, other wavelength / frequency units
            r = SED.read(fn, unit_wav=u.cm, unit_freq=u.GHz, order=order)
            close(r.wav.value, wav[exp_idx] * 1e-4)
            close(r.nu.value, nu[exp_idx] * 1e-9)
            close(r.flux.value, to_cgs(flux, kind, nu, d_cm)[:, exp_idx])
            close(r.error.value, to_cgs(err, kind, nu, d_cm)[:, exp_idx])
    try:
        SED.read(fn, order='lambda')
    except ValueError:
        pass
    else:
        raise AssertionError('bad order accepted')
    return s, fn


def check_cube(rng, n_models, n_ap, n_wav, descending, kind, with_ap, with_unc, use_nu=False, dtype=float):
    wav = make_wav(rng, n_wav, descending)
    nu = C_MICRON_HZ / wav
    if not with_ap:
        n_ap = 1
    val = (10. ** rng.uniform(-3, 3, (n_models, n_ap, n_wav))).astype(dtype)
    unc = (val * rng.uniform(0.01, 0.2, (n_models, n_ap, n_wav))).astype(dtype)
    names = np.array(['m%04d_x' % (7 * i + 3) for i in range(n_models)])
    valid = (rng.uniform(size=n_models) > 0.3).astype(int)

    c = SEDCube()
    c.names = names
    c.valid = valid
    c.distance = 2.5 * u.kpc
    if use_nu:
        c.nu = nu * u.Hz
    else:
        c.wav = wav * u.micron
    if with_ap:
        ap = np.sort(rng.uniform(10., 1e4, n_ap))
        c.apertures = ap * u.au
    c.val = val * FLUX_UNITS[kind]
    if with_unc:
        c.unc = unc * FLUX_UNITS[kind]

    # both spectral axes available whichever was set, repeatedly
    for rep in range(2):
        close(c.wav.to(u.micron).value, wav)
        close(c.nu.to(u.Hz).value, nu)

    fn = os.path.join(TMP, 'cube_%d.fits' % N_CHECKS[0])
    c.write(fn)
    exact(c.val.value, val)

    asc = np.argsort(wav, kind='stable')

    for rep in range(2):
        for order, memmap in itertools.product(('nu', 'wav'), (True, False)):
            exp_idx = asc if order == 'wav' else asc[::-1]
            r = SEDCube.read(fn, order=order, memmap=memmap)
            exact(r.names, names)
            exact(np.asarray(r.valid).astype(int), valid)
            close(r.distance.to(u.cm).value, 2.5 * KPC_CM)
            for rep2 in range(2):
                close(r.wav.to(u.micron).value, wav[exp_idx])
                close(r.nu.to(u.Hz).value, nu[exp_idx])
            assert r.val.unit == FLUX_UNITS[kind], (r.val.unit, kind)
            exact(r.val.value, val[:, :, exp_idx])
            assert r.val.shape == (n_models, n_ap, n_wav)
            if with_unc:
                assert r.unc.unit == FLUX_UNITS[kind]
                exact(r.unc.value, unc[:, :, exp_idx])
            else:
                assert r.unc is None
            if with_ap:
                close(r.apertures.to(u.au).value, ap)
            else:
                assert r.apertures is None
            # every cell individually (model, aperture, wavelength)
            for im in range(n_models):
                for iw in range(n_wav):
                    j = int(np.argmin(np.abs(r.wav.to(u.micron).value - wav[iw])))
                    assert abs(r.wav.to(u.micron).value[j] - wav[iw]) <= 1e-12 * wav[iw]
                    assert np.array_equal(r.val.value[im, :, j], val[im, :, iw])
            # extraction of single models, from the read cube and the original
            for im in list(range(n_models)) + [0]:
                for cube, idx in ((r, exp_idx), (c, np.arange(n_wav))):
                    sed = cube.get_sed(names[im])
                    assert sed.name == names[im]
                    close(sed.wav.to(u.micron).value, wav[idx])
                    close(sed.nu.to(u.Hz).value, nu[idx])
                    exact(sed.flux.value, val[im][:, idx])
                    assert sed.flux.unit == FLUX_UNITS[kind]
                    if with_unc:
                        exact(sed.error.value, unc[im][:, idx])
                    else:
                        assert sed.error is None
                    if with_ap:
                        close(sed.apertures.to(u.au).value, ap)
                    else:
                        assert sed.apertures is None
            try:
                r.get_sed('m0003')  # prefix of a name, not a name
            except ValueError:
                pass
            else:
                raise AssertionError('unknown model accepted')
    return c, fn


def check_conv(rng, n_models, n_ap, kind, with_ap):
    if not with_ap:
        n_ap = 1
    names = np.array(['conv_%05d' % (11 * i) for i in range(n_models)])
    flux = 10. ** rng.uniform(-3, 3, (n_models, n_ap))
    err = flux * rng.uniform(0.01, 0.2, (n_models, n_ap))
    c = ConvolvedFluxes()
    c.model_names = names
    c.central_wavelength = 3.6 * u.micron
    if with_ap:
        ap = np.sort(rng.uniform(10., 1e4, n_ap))
        c.apertures = ap * u.au
    c.flux = flux * FLUX_UNITS[kind]
    c.error = err * FLUX_UNITS[kind]
    fn = os.path.join(TMP, 'conv_%d.fits' % N_CHECKS[0])
    c.write(fn)
    for rep in range(2):
        r = ConvolvedFluxes.read(fn)
        exact(np.char.strip(np.asarray(r.model_names).astype(str)), names)
        close(r.central_wavelength.to(u.micron).value, 3.6)
        assert r.flux.unit == FLUX_UNITS[kind] and r.error.unit == FLUX_UNITS[kind]
        exact(r.flux.value, flux)
        exact(r.error.value, err)
        if with_ap:
            close(r.apertures.to(u.au).value, ap)
        else:
            assert r.apertures is None
    return c, fn


def common_checks(seed=12345):
    rng = np.random.default_rng(seed)
    kinds = list(FLUX_UNITS)
    k = 0
    # boundary sizes and some in between
    for n_wav in (2, 3, 17, 40):
        for n_ap in (1, 2, 5):
            for descending in (False, True):
                kind = kinds[k % 4]
                k += 1
                with_ap = (k % 3 != 0)
                check_sed(rng, n_ap, n_wav, descending, kind, with_ap, as_path=(k % 5 == 0))
    for n_models in (1, 3, 6):
        for n_wav in (2, 9, 40):
            for descending in (False, True):
                kind = kinds[k % 4]
                k += 1
                check_cube(rng, n_models, 1 + k % 5, n_wav, descending, kind,
                           with_ap=(k % 3 != 0), with_unc=(k % 2 == 0), use_nu=(k % 4 == 1))
    # single precision cube (legal, unusual)
    check_cube(rng, 4, 3, 11, True, 'mJy', True, True, dtype=np.float32)
    for n_models in (1, 6):
        for n_ap in (1, 5):
            for with_ap in (True, False):
                kind = kinds[k % 4]
                k += 1
                check_conv(rng, n_models, n_ap, kind, with_ap)


###########################################################################
# checks specific to this change: derived spectral axis of cubes
###########################################################################

def specific_checks():
    import pickle
    import copy
    rng = np.random.default_rng(4242)

    wav = make_wav(rng, 6, True)
    c = SEDCube()
    c.names = np.array(['a', 'b'])
    c.distance = 1. * u.kpc
    c.wav = wav * u.micron
    val = 10. ** rng.uniform(-2, 2, (2, 1, 6))
    c.val = val * u.mJy

    # repeated look-ups give the same, independent, objects
    n1 = c.nu
    n2 = c.nu
    close(n1.value, C_MICRON_HZ / wav)
    exact(n1.value, n2.value)
    assert n1.unit == u.Hz
    assert not np.shares_memory(n1.value, n2.value)
    # modifying what was returned has no effect on the cube
    n1[0] = 1. * u.Hz
    n1 *= 3.
    close(c.nu.value, C_MICRON_HZ / wav)

    # in-place modification of the wavelengths is followed by the frequencies
    c.wav[2] = 0.987 * c.wav[2]
    wav[2] = 0.987 * wav[2]
    close(c.wav.value, wav)
    close(c.nu.value, C_MICRON_HZ / wav)
    close(c.get_sed('b').nu.value, C_MICRON_HZ / wav)

    # ... and is what gets written
    fn = os.path.join(TMP, 'spec_cube_1.fits')
    c.write(fn)
    r = SEDCube.read(fn, order='wav')
    close(r.wav.value, wav[::-1])
    close(r.nu.value, C_MICRON_HZ / wav[::-1])
    exact(r.val.value, val[:, :, ::-1])
    r = SEDCube.read(fn, order='nu')
    close(r.nu.value, C_MICRON_HZ / wav)
    exact(r.val.value, val)

    # new wavelengths (same number), same values in other units, new dtype
    wav2 = make_wav(rng, 6, False)
    c.wav = wav2 * u.micron
    close(c.nu.value, C_MICRON_HZ / wav2)
    c.wav = (wav2 * 1e-4) * u.cm
    close(c.nu.to(u.Hz).value, C_MICRON_HZ / wav2)
    close(c.wav.to(u.micron).value, wav2)
    c.wav = (wav2.astype(np.float32)) * u.micron
    close(c.nu.to(u.Hz).value, C_MICRON_HZ / wav2, rtol=1e-6)
    c.wav = wav2 * u.micron
    close(c.nu.to(u.Hz).value, C_MICRON_HZ / wav2)

    # a wrong number of wavelengths is still refused
    try:
        c.wav = make_wav(rng, 5, False) * u.micron
    except ValueError:
        pass
    else:
        raise AssertionError('wrong length accepted')
    close(c.nu.to(u.Hz).value, C_MICRON_HZ / wav2)

    # switching to frequencies, back and forth
    nu3 = C_MICRON_HZ / make_wav(rng, 6, True)
    c.nu = nu3 * u.Hz
    for rep in range(2):
        exact(c.nu.value, nu3)
        close(c.wav.to(u.micron).value, C_MICRON_HZ / nu3)
    c.nu[0] = 1.5 * c.nu[0]
    nu3[0] = 1.5 * nu3[0]
    close(c.wav.to(u.micron).value, C_MICRON_HZ / nu3)
    c.nu = (nu3 * 1e-9) * u.GHz
    close(c.wav.to(u.micron).value, C_MICRON_HZ / nu3)
    close(c.nu.to(u.Hz).value, nu3)
    fn = os.path.join(TMP, 'spec_cube_2.fits')
    c.write(fn)
    for order in ('nu', 'wav'):
        r = SEDCube.read(fn, order=order)
        idx = np.argsort(nu3) if order == 'nu' else np.argsort(nu3)[::-1]
        close(r.nu.to(u.Hz).value, nu3[idx])
        close(r.wav.to(u.micron).value, C_MICRON_HZ / nu3[idx])
        exact(r.val.value, val[:, :, idx])
    c.wav = wav * u.micron
    close(c.nu.to(u.Hz).value, C_MICRON_HZ / wav)

    # copies and pickles behave like the original and are independent
    for clone in (copy.deepcopy(c), pickle.loads(pickle.dumps(c, protocol=2)),
                  pickle.loads(pickle.dumps(c))):
        close(clone.nu.value, C_MICRON_HZ / wav)
        clone.wav[1] = 1.01 * clone.wav[1]
        w = wav.copy()
        w[1] = 1.01 * w[1]
        close(clone.nu.value, C_MICRON_HZ / w)
        close(c.nu.value, C_MICRON_HZ / wav)
        exact(clone.val.value, val)
    # an object without any private attribute other than the ones that
    # always existed (e.g. pickled by an earlier version)
    state = dict(c.__dict__)
    for key in list(state):
        if key not in ('_valid', '_names', '_distance', '_wav', '_nu', '_apertures', '_val', '_unc'):
            del state[key]
    old = SEDCube.__new__(SEDCube)
    old.__dict__.update(pickle.loads(pickle.dumps(state)))
    close(old.nu.value, C_MICRON_HZ / wav)
    close(old.nu.value, C_MICRON_HZ / wav)
    exact(old.get_sed('a').flux.value, val[0])

    # two cubes never share anything
    d = SEDCube()
    d.names = np.array(['a', 'b'])
    d.distance = 1. * u.kpc
    d.wav = wav2 * u.micron
    close(d.nu.value, C_MICRON_HZ / wav2)
    close(c.nu.value, C_MICRON_HZ / wav)

    # empty cube
    e = SEDCube()
    assert e.wav is None and e.nu is None and e.n_wav is None
    e.wav = None
    e.nu = None
    assert e.wav is None and e.nu is None


if __name__ == '__main__':
    common_checks()
    specific_checks()
    import shutil
    shutil.rmtree(TMP, ignore_errors=True)
    print('demo OK (%d array comparisons)' % N_CHECKS[0])
