import sys, os; sys.path.insert(0, os.getcwd())
# Demonstration for property C11 (change 1: fitting_routines reductions as dot
# products, limits handled for all wavelengths at once).
#
# Run as:  cd /tmp/wtP_C11 && /venv/bin/python _out/p1/demo.py
#
# Checks, on packages written to a temporary directory and fitted with
# sedfitter.fit.Fitter:
#   R. agreement with an independent per-model reference implementation
#   F. invariance under permutation of the filters (photometry permuted alike)
#   M. invariance under permutation of the models inside the package
#   S. flux scaling: scale shifts by -0.5*log10(c), A_V and chi^2 unchanged
#   H. independence of history (interleaved fits on one Fitter)
#   U. the source is never modified
# and drives sedfitter.fitting_routines directly on 2-d and 3-d inputs (plain
# arrays and dimensionless Quantities) against an explicit loop.

import io
import copy
import pickle
import shutil
import tempfile
import itertools
import contextlib

import numpy as np
from astropy import units as u

import sedfitter
assert os.path.dirname(os.path.abspath(sedfitter.__file__)) == os.path.join(os.getcwd(), 'sedfitter'), sedfitter.__file__

from sedfitter.fit import Fitter
from sedfitter.source import Source
from sedfitter.extinction import Extinction
from sedfitter.convolved_fluxes import ConvolvedFluxes
from sedfitter import fitting_routines as fr

LN10 = np.log(10.)
RTOL = 1e-9
ATOL = 1e-9
N_CHECKS = [0]


def quiet(func, *args, **kwargs):
    with contextlib.redirect_stdout(io.StringIO()):
        return func(*args, **kwargs)


def check(cond, msg):
    N_CHECKS[0] += 1
    if not cond:
        print("FAILED: " + msg)
        sys.exit(1)


# ---------------------------------------------------------------------------
# Building packages, extinction law, sources
# ---------------------------------------------------------------------------

def make_extinction():
    e = Extinction()
    e.wav = np.logspace(-2., 3., 60) * u.micron
    e.chi = (200. * e.wav.value ** -1.4 + 3.) * u.cm ** 2 / u.g
    return e


def av_law_reference(ext, wavs):
    w = ext.wav.to(u.micron).value
    c = ext.chi.value
    return -0.4 * np.interp(wavs, w, c, left=0., right=0.) / np.interp(0.55, w, c)


def write_package(path, names, filt_names, wavs, fluxes, apertures=None):
    """
    fluxes has shape (n_models, n_ap, n_filt) in mJy; apertures in au or None
    """
    os.makedirs(os.path.join(path, 'convolved'))
    with open(os.path.join(path, 'models.conf'), 'w') as f:
        f.write("name = demo\n")
        f.write("length_subdir = 0\n")
        f.write("aperture_dependent = {0}\n".format('no' if apertures is None else 'yes'))
        f.write("logd_step = 0.05\n")
    for k, fn in enumerate(filt_names):
        c = ConvolvedFluxes(wavelength=wavs[k] * u.micron,
                            model_names=np.array(names),
                            apertures=None if apertures is None else apertures * u.au,
                            initialize_arrays=True)
        c.flux = np.array(fluxes[:, :, k]) * u.mJy
        c.error = np.zeros(fluxes[:, :, k].shape) * u.mJy
        c.write(os.path.join(path, 'convolved', fn + '.fits'))


def make_source(name, valid, flux, error):
    s = Source()
    s.name = name
    s.x = 1.5
    s.y = -2.5
    s.valid = valid
    s.flux = flux
    s.error = error
    return s


def results(info):
    names = [str(n) for n in info.model_name]
    av = np.asarray(info.av, float)
    sc = np.asarray(info.sc, float)
    chi2 = np.asarray(info.chi2, float)
    check(len(set(names)) == len(names), "duplicate model names in FitInfo")
    check(np.all(np.diff(chi2[np.isfinite(chi2)]) >= 0), "FitInfo not sorted by chi^2")
    return dict((names[i], (av[i], sc[i], chi2[i])) for i in range(len(names)))


def close(a, b):
    a = float(a)
    b = float(b)
    if np.isnan(a) or np.isnan(b):
        return np.isnan(a) and np.isnan(b)
    if np.isinf(a) or np.isinf(b):
        return a == b
    return abs(a - b) <= ATOL + RTOL * max(abs(a), abs(b))


def same_results(r1, r2, what, dsc=0.):
    check(sorted(r1) == sorted(r2), what + ": different model sets")
    for name in r1:
        av1, sc1, c1 = r1[name]
        av2, sc2, c2 = r2[name]
        check(close(av1, av2), "%s: A_V differs for %s: %r %r" % (what, name, av1, av2))
        check(close(sc1 + dsc, sc2), "%s: scale differs for %s: %r %r (shift %r)" % (what, name, sc1, sc2, dsc))
        check(close(c1, c2), "%s: chi^2 differs for %s: %r %r" % (what, name, c1, c2))


def identical_results(i1, i2, what):
    for attr in ('av', 'sc', 'chi2'):
        a = np.asarray(getattr(i1, attr), float)
        b = np.asarray(getattr(i2, attr), float)
        check(np.array_equal(a, b, equal_nan=True), "%s: %s not identical" % (what, attr))
    check(list(i1.model_name) == list(i2.model_name), what + ": model order not identical")
    check(np.array_equal(np.asarray(i1.model_fluxes, float), np.asarray(i2.model_fluxes, float), equal_nan=True),
          what + ": model fluxes not identical")


def snapshot(s):
    return (s.name, s.x, s.y,
            None if s.valid is None else (s.valid.dtype.str, s.valid.tobytes()),
            (s.flux.dtype.str, s.flux.tobytes()),
            (s.error.dtype.str, s.error.tobytes()),
            id(s.valid), id(s.flux), id(s.error),
            pickle.dumps(s, 2))


# ---------------------------------------------------------------------------
# Independent reference implementations (explicit loops, lstsq)
# ---------------------------------------------------------------------------

def log_data(valid, flux, err):
    n = len(valid)
    logf = np.zeros(n)
    w = np.zeros(n)
    conf = np.zeros(n)
    for j in range(n):
        v = int(valid[j])
        if v == 1:
            logf[j] = np.log10(flux[j]) - 0.5 * (err[j] / flux[j]) ** 2 / LN10
            w[j] = (LN10 * flux[j] / err[j]) ** 2
        elif v in (2, 3):
            logf[j] = np.log10(flux[j])
            conf[j] = err[j]
        elif v == 4:
            logf[j] = flux[j]
            w[j] = 1. / err[j] ** 2
    return logf, w, conf


def chi2_one(valid, r, mod, w, conf):
    total = 0.
    for j in range(len(valid)):
        v = int(valid[j])
        if v in (1, 4):
            total += (r[j] - mod[j]) ** 2 * w[j]
        elif v == 2 and mod[j] < r[j]:
            total += -2. * np.log(1. - conf[j]) if conf[j] < 1. else 1.e30
        elif v == 3 and mod[j] > r[j]:
            total += -2. * np.log(1. - conf[j]) if conf[j] < 1. else 1.e30
    return total


def reference_independent(names, logm, a, source, av_min, av_max):
    valid = np.asarray(source.valid)
    logf, w, conf = log_data(valid, np.asarray(source.flux, float), np.asarray(source.error, float))
    s = -2. * np.ones(len(a))
    sw = np.sqrt(w)
    out = {}
    for m, name in enumerate(names):
        r = logf - logm[m]
        sol = np.linalg.lstsq(np.column_stack([a * sw, s * sw]), r * sw, rcond=None)[0]
        av, sc = sol
        if av < av_min or av > av_max:
            av = min(max(av, av_min), av_max)
            sc = np.sum((r - av * a) * s * w) / np.sum(s * s * w)
        out[name] = (av, sc, chi2_one(valid, r, av * a + sc * s, w, conf))
    return out


def reference_dependent(names, logm, logd, extended, a, source, av_min, av_max):
    # logm has shape (n_models, n_distances, n_wav)
    valid = np.asarray(source.valid)
    logf, w, conf = log_data(valid, np.asarray(source.flux, float), np.asarray(source.error, float))
    out = {}
    for m, name in enumerate(names):
        best = None
        for d in range(logm.shape[1]):
            r = logf - logm[m, d]
            av = np.sum(r * a * w) / np.sum(a * a * w)
            av = min(max(av, av_min), av_max)
            c = chi2_one(valid, r, av * a, w, conf)
            if extended is not None and np.any(extended[m, d][valid > 0]):
                c = np.inf
            if best is None or c < best[2]:
                best = (av, logd[d], c)
        out[name] = best
    return out


# ---------------------------------------------------------------------------
# Direct checks of the fitting routines
# ---------------------------------------------------------------------------

def direct_routines():

    rng = np.random.RandomState(5)

    for n_wav in (1, 2, 3, 6, 7):
        for shape in ((1,), (9,), (4, 3), (1, 5)):
            for quantity in (False, True):
                data = rng.normal(size=shape + (n_wav,))
                weights = rng.uniform(0.5, 50., n_wav)
                weights[rng.uniform(size=n_wav) < 0.3] = 0.
                if n_wav >= 2:
                    weights[:2] = [3., 7.]
                else:
                    weights[0] = 2.
                p1 = -rng.uniform(0.01, 3., n_wav)
                p2 = -2. * np.ones(n_wav)
                p1q = p1 * u.dimensionless_unscaled if quantity else p1

                # optimal scaling, any number of dimensions
                got = np.asarray(fr.optimal_scaling(data, weights, p1q), float)
                exp = np.zeros(shape)
                for idx in np.ndindex(*shape):
                    exp[idx] = sum(data[idx][j] * p1[j] * weights[j] for j in range(n_wav)) / \
                        sum(p1[j] ** 2 * weights[j] for j in range(n_wav))
                check(got.shape == shape and np.allclose(got, exp, rtol=1e-11, atol=1e-12), "optimal_scaling")

                # linear regression, 2-d data
                if len(shape) == 1 and n_wav >= 2:
                    g1, g2 = fr.linear_regression(data, weights, p1q, p2)
                    sw = np.sqrt(weights)
                    for i in range(shape[0]):
                        sol = np.linalg.lstsq(np.column_stack([p1 * sw, p2 * sw]), data[i] * sw, rcond=None)[0]
                        check(np.allclose([float(np.asarray(g1)[i]), float(np.asarray(g2)[i])], sol, rtol=1e-8, atol=1e-9),
                              "linear_regression")

                # chi^2 with all kinds of points, 2-d and 3-d
                valid = rng.choice([0, 1, 2, 3, 4, 9], size=n_wav)
                error = rng.uniform(0.05, 0.95, n_wav)
                if n_wav >= 3:
                    valid[:3] = [2, 3, 1]
                    error[0] = 1.          # boundary: 100% confidence -> infinite penalty -> 1e30
                w = np.where((valid == 1) | (valid == 4), weights + 1., 0.)
                model = rng.normal(size=shape + (n_wav,))
                modelq = model * u.dimensionless_unscaled if quantity else model
                if len(shape) in (1, 2):
                    valid_before = valid.copy()
                    data_before = data.copy()
                    got = np.asarray(fr.chi_squared(valid, data, error, w, modelq), float)
                    again = np.asarray(fr.chi_squared(valid, data, error, w, modelq), float)
                    check(np.array_equal(got, again), "chi_squared second call differs")
                    check(np.array_equal(valid, valid_before) and np.array_equal(data, data_before),
                          "chi_squared modified its inputs")
                    exp = np.zeros(shape)
                    for idx in np.ndindex(*shape):
                        exp[idx] = chi2_one(valid, data[idx], model[idx], w, error)
                    check(got.shape == shape and np.allclose(got, exp, rtol=1e-11, atol=1e-12), "chi_squared")

    # wrong number of dimensions is still refused
    try:
        fr.chi_squared(np.array([1, 1]), np.zeros(2), np.ones(2), np.ones(2), np.zeros(2))
    except Exception:
        pass
    else:
        check(False, "chi_squared accepted 1-d data")


# ---------------------------------------------------------------------------
# Property checks on Fitter
# ---------------------------------------------------------------------------

def sources_for(n_filt, rng, kinds='all'):
    out = []
    base = 10. ** rng.uniform(-1., 2., n_filt)

    # plain detections, arrays
    out.append(make_source('plain', np.ones(n_filt, dtype=int), base.copy(), base * rng.uniform(0.02, 0.3, n_filt)))

    # lists and a small integer type for valid (legal input forms), one unused point
    v = [1] * n_filt
    if n_filt > 3:
        v[1] = 0
    out.append(make_source('lists', np.array(v, dtype=np.int8), list(base * 1.7), list(base * 0.1)))

    if kinds == 'all':

        # limits, log fluxes and plot-only points
        v = np.ones(n_filt, dtype=int)
        f = base * rng.uniform(0.5, 2., n_filt)
        e = f * 0.1
        if n_filt >= 5:
            v[0] = 2
            f[0] = base[0] * 3.
            e[0] = 0.9
            v[2] = 3
            f[2] = base[2] / 3.
            e[2] = 0.6
            v[4] = 4
            f[4] = np.log10(base[4])
            e[4] = 0.05
        if n_filt >= 6:
            v[5] = 9
            f[5] = -999.
            e[5] = -999.
        out.append(make_source('mixed', v, f, e))

        # boundary: limit with 100% confidence
        if n_filt >= 4:
            v = np.ones(n_filt, dtype=int)
            f = base.copy()
            e = base * 0.05
            v[3] = 3
            f[3] = base[3] / 50.
            e[3] = 1.0
            out.append(make_source('hardlimit', v, f, e))

        # very small errors (large weights) and the minimum number of points
        v = np.zeros(n_filt, dtype=int)
        v[:2] = 1
        v[-1] = 1
        out.append(make_source('few', v, base * 0.3, base * 1e-4))

    return out


def run_independent(tmp, rng):

    ext = make_extinction()

    for n_filt, n_models in ((2, 3), (4, 8), (6, 8), (6, 1)):

        wavs = np.sort(10. ** rng.uniform(-0.3, 2., n_filt))
        filt_names = ['F%02d' % k for k in range(n_filt)]
        names = ['model_%03d' % m for m in range(n_models)]
        fluxes = 10. ** (rng.uniform(-1., 2., (n_models, 1, 1)) + rng.normal(0., 0.4, (n_models, 1, n_filt)))
        pkg = os.path.join(tmp, 'indep_%i_%i' % (n_filt, n_models))
        write_package(pkg, names, filt_names, wavs, fluxes)
        aps = np.full(n_filt, 3.) * u.arcsec
        a_ref = av_law_reference(ext, wavs)

        for av_range in ([0., 40.], (-5., 5.), (2., 2.)):

            fitter = quiet(Fitter, filt_names, aps, pkg, extinction_law=ext,
                           av_range=av_range, distance_range=[1., 2.] * u.kpc)

            sources = sources_for(n_filt, rng)
            firsts = []

            for s in sources:

                before = snapshot(s)
                info = fitter.fit(s)
                check(snapshot(s) == before, "U: source %s modified by fit" % s.name)
                check(info.source is s, "FitInfo.source is not the source that was given")
                firsts.append(info)
                res = results(info)

                # R: reference
                ref = reference_independent(names, np.log10(fluxes[:, 0, :]), a_ref, s, av_range[0], av_range[1])
                same_results(ref, res, "R[%s %i/%i %r]" % (s.name, n_filt, n_models, av_range))

                # second call on the same objects
                identical_results(info, fitter.fit(s), "H: immediate refit of %s" % s.name)

                # S: scaling of fluxes and errors (detections / unused points only)
                if np.all(np.isin(s.valid, [0, 1])):
                    for c in [10. ** k for k in range(-4, 5)] + [3.7e3, 2.5e-4]:
                        s2 = make_source(s.name, s.valid, np.asarray(s.flux, float) * c, np.asarray(s.error, float) * c)
                        same_results(res, results(fitter.fit(s2)), "S[%s x%g]" % (s.name, c), dsc=-0.5 * np.log10(c))

            # H: interleavings on one fitter, compared to fresh fitters
            for trial in range(4):
                order = rng.randint(0, len(sources), 6)
                for i in order:
                    identical_results(firsts[i], fitter.fit(sources[i]), "H: interleaving %r" % (order,))
            fresh = quiet(Fitter, filt_names, aps, pkg, extinction_law=ext,
                          av_range=av_range, distance_range=[1., 2.] * u.kpc)
            for i in reversed(range(len(sources))):
                identical_results(firsts[i], fresh.fit(sources[i]), "H: fresh fitter, reverse order")

            # F: filter permutations
            if n_filt <= 4:
                perms = list(itertools.permutations(range(n_filt)))
            else:
                perms = [tuple(reversed(range(n_filt)))] + [tuple(rng.permutation(n_filt)) for _ in range(6)]
            for perm in perms:
                perm = list(perm)
                fp = quiet(Fitter, [filt_names[k] for k in perm], aps[perm], pkg, extinction_law=ext,
                           av_range=av_range, distance_range=[1., 2.] * u.kpc)
                for s, info in zip(sources, firsts):
                    sp = make_source(s.name, np.asarray(s.valid)[perm], np.asarray(s.flux)[perm], np.asarray(s.error)[perm])
                    same_results(results(info), results(fp.fit(sp)), "F[%s %r]" % (s.name, perm))

            # M: model permutations inside the package
            if n_models <= 3:
                mperms = list(itertools.permutations(range(n_models)))[1:]
            else:
                mperms = [tuple(reversed(range(n_models)))] + [tuple(rng.permutation(n_models)) for _ in range(4)]
            for ip, perm in enumerate(mperms):
                perm = list(perm)
                pkg2 = os.path.join(tmp, 'perm_%i_%i_%i_%r' % (n_filt, n_models, ip, av_range[1]))
                write_package(pkg2, [names[m] for m in perm], filt_names, wavs, fluxes[perm])
                fm = quiet(Fitter, filt_names, aps, pkg2, extinction_law=ext,
                           av_range=av_range, distance_range=[1., 2.] * u.kpc)
                for s, info in zip(sources, firsts):
                    same_results(results(info), results(fm.fit(s)), "M[%s %r]" % (s.name, perm))
                shutil.rmtree(pkg2)

    # A model without flux in one band gives NaN for that model only, whatever its position
    n_filt, n_models = 4, 5
    wavs = np.array([0.8, 2.2, 8., 24.])
    filt_names = ['Z%i' % k for k in range(n_filt)]
    names = ['m%i' % m for m in range(n_models)]
    fluxes = 10. ** rng.uniform(0., 2., (n_models, 1, n_filt))
    fluxes[2, 0, 1] = 0.
    s = sources_for(n_filt, rng)[0]
    got = []
    for ip, perm in enumerate(([0, 1, 2, 3, 4], [2, 4, 3, 1, 0], [4, 3, 0, 1, 2])):
        pkg = os.path.join(tmp, 'dead_%i' % ip)
        write_package(pkg, [names[m] for m in perm], filt_names, wavs, fluxes[perm])
        fz = quiet(Fitter, filt_names, np.full(n_filt, 3.) * u.arcsec, pkg, extinction_law=ext,
                   av_range=[0., 10.], distance_range=[1., 2.] * u.kpc)
        info = fz.fit(s)
        r = dict((str(n), (float(np.asarray(info.av, float)[i]), float(np.asarray(info.sc, float)[i]), float(np.asarray(info.chi2, float)[i])))
                 for i, n in enumerate(info.model_name))
        got.append(r)
    ref = reference_independent([n for n in names if n != 'm2'], np.log10(np.delete(fluxes[:, 0, :], 2, axis=0)),
                                av_law_reference(ext, wavs), s, 0., 10.)
    for r in got:
        check(all(np.isnan(x) for x in r['m2']), "model without flux should give NaN")
        same_results(got[0], r, "M[dead model]")
        same_results(ref, dict((k, v) for k, v in r.items() if k != 'm2'), "R[dead model]")


def run_dependent(tmp, rng):

    ext = make_extinction()

    n_filt, n_models, n_ap = 5, 6, 7
    wavs = np.sort(10. ** rng.uniform(-0.3, 2., n_filt))
    filt_names = ['G%02d' % k for k in range(n_filt)]
    names = ['dmodel_%03d' % m for m in range(n_models)]
    apertures = np.logspace(2., 6., n_ap)
    fluxes = np.cumsum(10. ** rng.uniform(-1., 1., (n_models, n_ap, n_filt)), axis=1)
    pkg = os.path.join(tmp, 'dep')
    write_package(pkg, names, filt_names, wavs, fluxes, apertures=apertures)
    aps = np.array([2., 3., 3., 5., 8.]) * u.arcsec
    a_ref = av_law_reference(ext, wavs)

    for remove_resolved in (False, True):
        for drange in ([0.5, 3.] * u.kpc, [1., 1.] * u.kpc):

            kw = dict(extinction_law=ext, av_range=[0., 30.], distance_range=drange, remove_resolved=remove_resolved)
            fitter = quiet(Fitter, filt_names, aps, pkg, **kw)
            sources = sources_for(n_filt, rng)
            firsts = []
            logm = np.log10(fitter.models.fluxes.to(u.mJy).value)
            extended = fitter.models.extended if isinstance(fitter.models.extended, np.ndarray) else None

            for s in sources:
                before = snapshot(s)
                info = fitter.fit(s)
                check(snapshot(s) == before, "U: source %s modified by fit (distance-dependent)" % s.name)
                firsts.append(info)
                ref = reference_dependent(names, logm, fitter.models.logd, extended, a_ref, s, 0., 30.)
                same_results(ref, results(info), "R[dep %s]" % s.name)
                identical_results(info, fitter.fit(s), "H: immediate refit (dep)")

            for trial in range(3):
                order = rng.randint(0, len(sources), 6)
                for i in order:
                    identical_results(firsts[i], fitter.fit(sources[i]), "H: interleaving (dep) %r" % (order,))

            for perm in [list(reversed(range(n_filt)))] + [list(rng.permutation(n_filt)) for _ in range(3)]:
                fp = quiet(Fitter, [filt_names[k] for k in perm], aps[perm], pkg, **kw)
                for s, info in zip(sources, firsts):
                    sp = make_source(s.name, np.asarray(s.valid)[perm], np.asarray(s.flux)[perm], np.asarray(s.error)[perm])
                    same_results(results(info), results(fp.fit(sp)), "F[dep %s %r]" % (s.name, perm))

            for ip, perm in enumerate([list(reversed(range(n_models))), list(rng.permutation(n_models))]):
                pkg2 = os.path.join(tmp, 'dep_perm')
                write_package(pkg2, [names[m] for m in perm], filt_names, wavs, fluxes[perm], apertures=apertures)
                fm = quiet(Fitter, filt_names, aps, pkg2, **kw)
                for s, info in zip(sources, firsts):
                    same_results(results(info), results(fm.fit(s)), "M[dep %s %r]" % (s.name, perm))
                shutil.rmtree(pkg2)


def main():
    tmp = tempfile.mkdtemp(prefix='c11_demo_')
    try:
        rng = np.random.RandomState(20240611)
        direct_routines()
        run_independent(tmp, rng)
        run_dependent(tmp, rng)
    finally:
        shutil.rmtree(tmp, ignore_errors=True)
    print("demo p1: all %i checks passed" % N_CHECKS[0])


if __name__ == '__main__':
    main()
