import sys, os
sys.path.insert(0, os.getcwd())

import copy
import pickle
import random
import re

import numpy as np

import sedfitter
from sedfitter.source import Source

assert os.path.abspath(sedfitter.__file__).startswith(os.path.abspath(os.getcwd()) + os.sep), sedfitter.__file__

LEGAL = (0, 1, 2, 3, 4, 9)
INT_RE = re.compile(r'^[+-]?[0-9]+$')
N_CHECKS = [0]


def check(cond, msg):
    N_CHECKS[0] += 1
    if not cond:
        print("DEMO FAILURE:", msg)
        sys.exit(1)


# ---------------------------------------------------------------------------
# Independent oracle: works on the list of tokens only, with builtin float/int
# ---------------------------------------------------------------------------

def oracle(tokens):
    k = len(tokens)
    if k < 3:
        return ('eof',)
    if (k - 3) % 3 != 0:
        return ('error',)
    n = (k - 3) // 3
    flags = []
    for t in tokens[3:3 + n]:
        if not INT_RE.match(t):
            return ('error',)
        v = int(t)
        if v not in LEGAL:
            return ('error',)
        flags.append(v)
    rest = tokens[3 + n:]
    flux = [float(rest[2 * j]) for j in range(n)]
    err = [float(rest[2 * j + 1]) for j in range(n)]
    return ('ok', tokens[0], float(tokens[1]), float(tokens[2]), flags, flux, err)


def same_float(a, b):
    a = float(a)
    b = float(b)
    if a != a or b != b:
        return a != a and b != b
    return a == b and np.signbit(a) == np.signbit(b)


def run_line(line, tokens, label):
    exp = oracle(tokens)
    try:
        s = Source.from_ascii(line)
    except EOFError:
        check(exp[0] == 'eof', "%s: EOFError but oracle says %s" % (label, exp[0]))
        return None
    except Exception as exc:
        check(exp[0] == 'error', "%s: %r raised but oracle says %s" % (label, exc, exp[0]))
        return None
    check(exp[0] == 'ok', "%s: parsed but oracle says %s (line %r)" % (label, exp[0], line))
    _, name, x, y, flags, flux, err = exp
    n = len(flags)
    check(s.name == name and isinstance(s.name, str), "%s: name" % label)
    check(same_float(s.x, x) and same_float(s.y, y), "%s: coordinates" % label)
    check(s.n_wav == n, "%s: n_wav" % label)
    for attr in ('valid', 'flux', 'error'):
        a = getattr(s, attr)
        check(isinstance(a, np.ndarray) and a.shape == (n,), "%s: shape of %s" % (label, attr))
    check(s.valid.dtype.kind == 'i' and s.valid.tolist() == flags, "%s: flags" % label)
    check(s.flux.dtype == np.float64 and s.error.dtype == np.float64, "%s: dtype" % label)
    check(all(same_float(a, b) for a, b in zip(s.flux, flux)), "%s: flux" % label)
    check(all(same_float(a, b) for a, b in zip(s.error, err)), "%s: error" % label)
    return s


# ---------------------------------------------------------------------------
# Independent formatter of the documented fixed-width layout
# ---------------------------------------------------------------------------

def my_format(name, x, y, flags, flux, err):
    out = "%-30s %9.5f %9.5f " % (name, x, y)
    for v in flags:
        out += "%1d " % v
    for f, e in zip(flux, err):
        out += "%11.3e %11.3e " % (f, e)
    return out


def equal_sources(a, b):
    return (a.name == b.name and same_float(a.x, b.x) and same_float(a.y, b.y)
            and a.valid.dtype == b.valid.dtype and a.flux.dtype == b.flux.dtype
            and a.error.dtype == b.error.dtype
            and np.array_equal(a.valid, b.valid)
            and a.flux.tobytes() == b.flux.tobytes()
            and a.error.tobytes() == b.error.tobytes())


rng = random.Random(20)
NAME_CHARS = "abcdefghijklmnopqrstuvwxyzABCDEFGHIJKLMNOPQRSTUVWXYZ0123456789_-+.:/#"


def random_value():
    r = rng.random()
    if r < 0.12:
        return -999.
    if r < 0.17:
        return 0.
    v = 10. ** rng.uniform(-30., 30.)
    if rng.random() < 0.25:
        v = -v
    return v


def random_name():
    ln = rng.choice([1, 2, 5, 17, 29, 30, 31, 39, 40])
    return "".join(rng.choice(NAME_CHARS) for _ in range(ln))


# ---------------------------------------------------------------------------
# 1. Every n in 0..12, every column count in 0..3n+6
# ---------------------------------------------------------------------------

seps = [" ", "  ", "\t", " \t "]

for n in range(13):
    for rep in range(6):
        name = random_name()
        x = rng.choice([0., 359.99999, -89.99999, rng.uniform(0, 360), rng.uniform(-90, 90)])
        y = rng.uniform(-90, 90)
        flags = [rng.choice(LEGAL) for _ in range(n)]
        flux = [random_value() for _ in range(n)]
        err = [random_value() for _ in range(n)]
        if rep == 0:
            # exactly representable tokens, written with repr precision
            tokens = [name, repr(x), repr(y)] + [str(v) for v in flags]
            for f, e in zip(flux, err):
                tokens += [repr(f), repr(e)]
        else:
            tokens = my_format(name, x, y, flags, flux, err).split()
        check(len(tokens) == 3 * (n + 1), "token count")
        filler = ["1", "2.500e+00", "3", "-9.990e+02", "4", "9", "1.000e-30"]
        for k in range(0, 3 * n + 7):
            if k <= len(tokens):
                toks = tokens[:k]
            else:
                toks = tokens + filler[:k - len(tokens)]
            sep = seps[(k + rep) % len(seps)]
            line = sep.join(toks)
            if rep % 2:
                line = "  " + line + " \n"
            s = run_line(line, toks, "n=%d rep=%d k=%d" % (n, rep, k))
            if k == len(tokens):
                check(s is not None, "full line n=%d was not parsed" % n)

                # second call on the same line: equal and independent objects
                s2 = Source.from_ascii(line)
                check(equal_sources(s2, s), "second parse differs")
                if n > 0:
                    keep = s.flux.copy(), s.error.copy(), s.valid.copy()
                    s2.flux[:] = 12345.
                    s2.error[:] = 54321.
                    s2.valid[:] = 9
                    check(np.array_equal(s.flux, keep[0], equal_nan=True)
                          and np.array_equal(s.error, keep[1], equal_nan=True)
                          and np.array_equal(s.valid, keep[2]), "parsed sources share memory")
                    s3 = Source.from_ascii(line)
                    check(equal_sources(s3, s), "third parse polluted by in-place edit")

                # to_ascii against the independent formatter, twice
                out = s.to_ascii()
                check(out == my_format(s.name, s.x, s.y, s.valid, s.flux, s.error),
                      "to_ascii layout n=%d: %r" % (n, out))
                check(s.to_ascii() == out, "to_ascii not repeatable")

                # format -> parse keeps name, flags and values to printed precision
                back = run_line(out, out.split(), "roundtrip n=%d" % n)
                check(back is not None, "roundtrip line rejected")
                check(back.name == s.name and back.valid.tolist() == s.valid.tolist(), "roundtrip name/flags")
                check(same_float(back.x, "%9.5f" % s.x) and same_float(back.y, "%9.5f" % s.y), "roundtrip x/y")
                for j in range(n):
                    check(same_float(back.flux[j], "%11.3e" % s.flux[j]), "roundtrip flux")
                    check(same_float(back.error[j], "%11.3e" % s.error[j]), "roundtrip error")
                    if s.flux[j] != 0 and np.isfinite(s.flux[j]):
                        check(abs(back.flux[j] - s.flux[j]) <= 5.0001e-4 * abs(s.flux[j]), "roundtrip flux precision")
                # a second round trip is a fixed point
                check(back.to_ascii() == out, "second round trip changes the line")

                # dictionary and pickle round trips are lossless
                d = s.to_dict()
                check(sorted(d) == ['error', 'flux', 'name', 'valid', 'x', 'y'], "dict keys")
                sd = Source.from_dict(d)
                check(equal_sources(sd, s) and bool(sd == s), "dict round trip")
                sd2 = Source.from_dict(copy.deepcopy(s.to_dict()))
                check(equal_sources(sd2, s), "dict (deep copy) round trip")
                for proto in range(0, pickle.HIGHEST_PROTOCOL + 1):
                    sp = pickle.loads(pickle.dumps(s, protocol=proto))
                    check(type(sp) is Source and equal_sources(sp, s) and bool(sp == s),
                          "pickle round trip proto %d" % proto)
                    check(sp.to_ascii() == out, "pickled source formats differently")
                sc = copy.deepcopy(s)
                check(equal_sources(sc, s), "deepcopy")

# ---------------------------------------------------------------------------
# 2. Flag vectors: every single illegal flag is refused, every legal one kept
# ---------------------------------------------------------------------------

for n in (1, 2, 5, 12):
    base_flux = [("%11.3e" % (10. ** (5 * j - 30))).strip() for j in range(n)]
    base_err = [("%11.3e" % (-999. if j % 3 == 0 else 10. ** (30 - 5 * j))).strip() for j in range(n)]
    pairs = []
    for f, e in zip(base_flux, base_err):
        pairs += [f, e]
    for pos in range(n):
        for tok in ['0', '1', '2', '3', '4', '9', '5', '6', '7', '8', '10', '11', '19', '99', '-1', '-9',
                    '1.5', '2.7', '9.2', '1.0', '1e0', 'x', 'nan', '+1', '01', '009', '-0', '1,', '0x1']:
            flags = [str(LEGAL[(pos + j) % 6]) for j in range(n)]
            flags[pos] = tok
            toks = ['src_%d' % pos, '10.5', '-3.25'] + flags + pairs
            s = run_line(" ".join(toks), toks, "flag %r at %d of %d" % (tok, pos, n))
            if tok in ('0', '1', '2', '3', '4', '9', '+1', '01', '009', '-0'):
                check(s is not None, "legal flag token %r refused" % tok)
            else:
                check(s is None, "illegal flag token %r accepted" % tok)

# all flag vectors for n = 3 over {0,...,10} (1331 vectors)
for a in range(11):
    for b in range(11):
        for c in range(11):
            toks = ['v', '1', '2', str(a), str(b), str(c), '1e-30', '1', '-1e30', '-999', '0', '1e30']
            run_line(" ".join(toks), toks, "flag vector %d%d%d" % (a, b, c))

# ---------------------------------------------------------------------------
# 3. Unusual-but-legal input forms and boundary values
# ---------------------------------------------------------------------------

toks = ['n' * 40, '+1.', '-.5', '4', '9', '1E5', '5', '-999.', '-999']
for line in ["\t".join(toks), "   " + "   ".join(toks) + "\r\n", np.str_(" ".join(toks)), " ".join(toks) + "\n"]:
    s = run_line(line, toks, "unusual form")
    check(s is not None and s.flux.tolist() == [1e5, -999.] and s.error.tolist() == [5., -999.], "unusual form values")
    check(int(s.n_data) == 1, "n_data")

# empty / blank / short lines end the input
for line, toks in [("", []), ("\n", []), ("   \t ", []), ("a", ['a']), ("a 1", ['a', '1']), ("a 1\n", ['a', '1'])]:
    check(run_line(line, toks, "short line %r" % line) is None, "short line parsed")
    try:
        Source.from_ascii(line)
        check(False, "no EOFError for %r" % line)
    except EOFError:
        pass

# n = 0: three columns
s = run_line("only 1.5 2.5", ['only', '1.5', '2.5'], "n=0")
check(s is not None and s.n_wav == 0 and s.to_ascii() == my_format('only', 1.5, 2.5, [], [], []), "n=0 line")
check(equal_sources(pickle.loads(pickle.dumps(s)), s), "n=0 pickle")

# the extremes of the 60 decades, signed zeros
toks = ['ext', '0', '0', '1', '1', '1', '1', '1e-30', '1e30', '-1e-30', '-1e30', '0.0', '-0.0', '9.9996e29', '9.9994e-31']
s = run_line(" ".join(toks), toks, "extremes")
check(s is not None, "extremes refused")
out = s.to_ascii()
check(out == my_format('ext', 0., 0., [1, 1, 1, 1], s.flux, s.error), "extremes layout")
back = run_line(out, out.split(), "extremes back")
check(back.flux.tolist() == [1e-30, -1e-30, 0.0, 1.000e30] and back.error.tolist()[:2] == [1e30, -1e30]
      and np.signbit(back.error[2]) and back.error[3] == 9.999e-31, "extremes values")

# a source built by hand from lists (setter path), formatted and read back
s = Source()
s.name = "hand"
s.x = 1
s.y = np.float32(2.5)
s.valid = [1, 9, 4]
s.flux = (1., 2., 3.)
s.error = np.array([0.1, 0.2, 0.3], dtype=np.float32)
out = s.to_ascii()
check(out == my_format("hand", 1, 2.5, [1, 9, 4], [1., 2., 3.], np.array([0.1, 0.2, 0.3], dtype=np.float32)), "hand layout")
back = run_line(out, out.split(), "hand back")
check(back.valid.tolist() == [1, 9, 4] and back.flux.tolist() == [1., 2., 3.] and back.error.tolist() == [0.1, 0.2, 0.3], "hand values")
sp = pickle.loads(pickle.dumps(s))
check(sp.error.dtype == np.float32 and sp.error.tobytes() == s.error.tobytes() and sp.valid.tolist() == [1, 9, 4]
      and type(sp.x) is int and type(sp.y) is np.float32, "hand pickle")
sd = Source.from_dict(s.to_dict())
check(equal_sources(sd, s) and type(sd.x) is int and type(sd.y) is np.float32, "hand dict round trip")

# length cross-checks in the setters still refuse mismatches, including for zero bands
for first in ('valid', 'flux', 'error'):
    for n0 in (0, 1, 3):
        for other in ('valid', 'flux', 'error'):
            if other == first:
                continue
            t = Source()
            setattr(t, first, np.ones(n0, dtype=int))
            try:
                setattr(t, other, np.ones(n0 + 1, dtype=int))
                check(False, "length mismatch accepted (%s=%d then %s)" % (first, n0, other))
            except ValueError:
                pass
            setattr(t, other, np.ones(n0, dtype=int))

# number spellings that Python and Numpy both read: explicit sign, leading zeros, bare dots, upper-case exponent
toks = ['spell', '+010.50', '-.25', '+1', '01', '009', '-0', '1E5', '.5', '5.', '+1.', '1e+05', '-999', '0001e-3', '1.000E-30']
for rep in range(2):
    s = run_line(" ".join(toks), toks, "spellings")
    check(s is not None and s.valid.tolist() == [1, 1, 9, 0] and s.x == 10.5 and s.y == -0.25
          and s.flux.tolist() == [1e5, 5., 1e5, 1e-3] and s.error.tolist() == [.5, 1., -999., 1e-30], "spellings values")
    check(type(s.x) is np.float64 and type(s.y) is np.float64 and s.valid.dtype == np.dtype(int), "types of parsed items")
    check(s.to_ascii() == my_format('spell', 10.5, -.25, [1, 1, 9, 0], [1e5, 5., 1e5, 1e-3], [.5, 1., -999., 1e-30]), "spellings layout")

# numbers that are no numbers are refused wherever they stand
for pos in range(1, len(toks)):
    for bad in ('1d5', '1,5', '--1', '1e', 'e5', '0x10', '1.2.3', '12abc'):
        toks2 = list(toks)
        toks2[pos] = bad
        try:
            Source.from_ascii(" ".join(toks2))
            check(False, "%r accepted in column %d" % (bad, pos))
        except EOFError:
            check(False, "EOFError for a full line")
        except Exception:
            pass

# reading a file the way the fitter does: the first line with fewer than three columns ends the input
import tempfile
lines = []
for i in range(60):
    n = 4
    lines.append(my_format("file_%03d" % i, i * 1.5, -i * 0.5, [LEGAL[(i + j) % 6] for j in range(n)],
                           [10. ** ((i + 7 * j) % 61 - 30) for j in range(n)], [-999. if (i + j) % 5 == 0 else 0.1 * (j + 1) for j in range(n)]))
with tempfile.TemporaryDirectory() as tmp:
    path = os.path.join(tmp, 'data.txt')
    with open(path, 'w') as f:
        f.write("\n".join(lines[:50]) + "\n   \n" + "\n".join(lines[50:]) + "\n")
    for rep in range(2):
        got = []
        with open(path) as f:
            while True:
                try:
                    got.append(Source.from_ascii(f.readline()))
                except EOFError:
                    break
        check(len(got) == 50, "read %d sources instead of 50" % len(got))
        for i, s in enumerate(got):
            check(s.name == "file_%03d" % i and s.to_ascii() == lines[i], "file line %d" % i)
print("demo OK (%d checks)" % N_CHECKS[0])
