import sys, os
sys.path.insert(0, os.getcwd())

import io
import math
import pickle
import shutil
import tempfile
import contextlib

import numpy as np
from astropy import units as u
from astropy.io import fits as pyfits
from astropy.table import Table

import sedfitter
assert os.path.dirname(os.path.abspath(sedfitter.__file__)) == os.path.join(os.getcwd(), 'sedfitter'), sedfitter.__file__

from sedfitter.sed import SED, SEDCube
from sedfitter.filter import Filter
from sedfitter.extinction import Extinction
from sedfitter.convolve import convolve_model_dir
from sedfitter.fit import fit, Fitter
from sedfitter.source import Source
from sedfitter.write_parameters import write_parameters

N_MODELS = 7
N_AP = 9
FILTER_DEFS = [('alice', 3.0, (1., 5.)), ('bob', 12.0, (10., 15.)),
               ('eve', 20.0, (15., 25.)), ('zed', 60.0, (40., 90.))]
LOGD_STEP = 0.025

CHECKS = [0]


def check(cond, msg):
    CHECKS[0] += 1
    if not cond:
        print("DEMO FAILURE: " + msg, file=sys.__stdout__)
        sys.exit(1)


@contextlib.contextmanager
def quiet():
    buf = io.StringIO()
    with contextlib.redirect_stdout(buf):
        yield


# ----------------------------------------------------------------------------
# package construction (same recipe as the library's own pipeline test)
# ----------------------------------------------------------------------------

def make_package(version, aperture_dependent, seed, permutation=None):
    d = tempfile.mkdtemp(prefix='c08demo_')
    rng = np.random.RandomState(seed)
    names = ['model_{0:04d}'.format(i) for i in range(N_MODELS)]
    wav = np.logspace(-2., 3., 120) * u.micron
    if aperture_dependent:
        apertures = np.logspace(1., 6., N_AP) * u.au
        val = np.cumsum(0.2 + rng.random_sample((N_MODELS, N_AP, 120)), axis=1)
        # give every model its own colour so that no two are related by
        # reddening + scaling
        val *= (np.linspace(0.5, 2.0, 120)[None, None, :] ** rng.uniform(-2, 2, N_MODELS)[:, None, None])
    else:
        apertures = None
        val = 1. + rng.random_sample((N_MODELS, 1, 120))
        val *= (np.linspace(0.5, 2.0, 120)[None, None, :] ** rng.uniform(-2, 2, N_MODELS)[:, None, None])
    unc = val * 0.01 * rng.random_sample(val.shape)

    if version == 1:
        os.mkdir(os.path.join(d, 'seds'))
        for i in range(N_MODELS):
            sed = SED()
            sed.name = names[i]
            sed.distance = 1 * u.kpc
            sed.wav = wav
            sed.nu = sed.wav.to(u.Hz, equivalencies=u.spectral())
            sed.apertures = apertures
            sed.flux = val[i] * u.mJy
            sed.error = unc[i] * u.mJy
            sed.write(os.path.join(d, 'seds', sed.name + '_sed.fits'))
    else:
        cube = SEDCube()
        cube.names = np.array(names)
        cube.distance = 1 * u.kpc
        cube.wav = wav
        cube.apertures = apertures
        cube.val = val * u.mJy
        cube.unc = unc * u.mJy
        cube.write(os.path.join(d, 'flux.fits'))

    with open(os.path.join(d, 'models.conf'), 'w') as f:
        f.write("name = test\n")
        f.write("length_subdir = 0\n")
        f.write("aperture_dependent = {0}\n".format('yes' if aperture_dependent else 'no'))
        f.write("logd_step = {0}\n".format(LOGD_STEP))
        if version == 2:
            f.write("version = 2\n")

    t = Table()
    t['MODEL_NAME'] = np.array(names, dtype='S30' if version == 1 else 'S')
    t['par1'] = rng.random_sample(N_MODELS) * 10.
    t['par2'] = 10. ** rng.uniform(-3, 3, N_MODELS)
    if permutation is not None:
        t = t[list(permutation)]
    t.write(os.path.join(d, 'parameters.fits'))
    return d, names


def make_filters(seed):
    rng = np.random.RandomState(seed)
    filters = []
    for name, cen, (w1, w2) in FILTER_DEFS:
        f = Filter()
        f.name = name
        f.central_wavelength = cen * u.micron
        f.nu = (np.linspace(w2, w1, 60) * u.micron).to(u.Hz, equivalencies=u.spectral())
        f.response = 0.2 + rng.random_sample(60)
        f.normalize()
        filters.append(f)
    return filters


def make_extinction():
    e = Extinction()
    e.wav = np.logspace(-2., 3., 50) * u.micron
    e.chi = e.wav.value ** -2 * u.cm ** 2 / u.g
    return e


# ----------------------------------------------------------------------------
# independent computations (astropy.io.fits + plain python only)
# ----------------------------------------------------------------------------

def lin_interp(x, xs, ys):
    """Plain linear interpolation on an increasing grid (pure python)."""
    xs = [float(v) for v in xs]
    ys = [float(v) for v in ys]
    if x <= xs[0]:
        return ys[0] if x == xs[0] else None
    for k in range(1, len(xs)):
        if x <= xs[k]:
            t = (x - xs[k - 1]) / (xs[k] - xs[k - 1])
            return ys[k - 1] + t * (ys[k] - ys[k - 1])
    return None


def av_law_independent(cen_micron):
    xs = np.logspace(-2., 3., 50)
    ys = xs ** -2
    chi_v = lin_interp(0.55, xs, ys)
    return [-0.4 * lin_interp(w, xs, ys) / chi_v for w in cen_micron]


def read_convolved_independent(model_dir, filt_name):
    with pyfits.open(os.path.join(model_dir, 'convolved', filt_name + '.fits')) as h:
        names = [str(n).strip() for n in h['CONVOLVED FLUXES'].data['MODEL_NAME']]
        flux = np.array(h['CONVOLVED FLUXES'].data['TOTAL_FLUX'], dtype=float)
        if flux.ndim == 1:
            flux = flux[:, None]
        try:
            ap = np.array(h['APERTURES'].data['APERTURE'], dtype=float)
        except KeyError:
            ap = None
    return names, flux, ap


def distance_grid(dmin, dmax):
    if dmin == dmax:
        return [dmin]
    n = int(math.ceil(1 + (math.log10(dmax) - math.log10(dmin)) / LOGD_STEP))
    lo, hi = math.log10(dmin), math.log10(dmax)
    return [10. ** (lo + (hi - lo) * k / (n - 1)) for k in range(n)]


def synthesise(model_dir, filt_order, ap_arcsec, m_name, av0, aperture_dependent, d0_kpc=None, scale0=None):
    cen = dict((n, c) for n, c, _ in FILTER_DEFS)
    law = av_law_independent([cen[n] for n in filt_order])
    out = []
    for k, fn in enumerate(filt_order):
        names, flux, ap = read_convolved_independent(model_dir, fn)
        row = flux[names.index(m_name)]
        if aperture_dependent:
            ap_au = ap_arcsec[k] * d0_kpc * 1000.
            if ap_au > ap[-1]:
                ap_au = ap[-1]
            base = lin_interp(ap_au, ap, row) / d0_kpc ** 2
        else:
            base = row[0] * 10. ** (-2. * scale0)
        out.append(base * 10. ** (av0 * law[k]))
    return out


def data_line(name, fluxes, rel):
    """valid=1 points; the flux is pre-compensated for the (documented)
    -0.5 (sigma/F)^2 / ln 10 bias of the log-flux, so that the planted model
    fits exactly"""
    bias = 0.5 * rel ** 2 / math.log(10.)
    cols = [name, '0.0', '0.0'] + ['1'] * len(fluxes)
    for f in fluxes:
        fl = f * 10. ** bias
        cols += [repr(float(fl)), repr(float(fl * rel))]
    return ' '.join(cols)


def parameter_row_independent(model_dir, m_name):
    with pyfits.open(os.path.join(model_dir, 'parameters.fits')) as h:
        d = h[1].data
        names = [str(n).strip() for n in d['MODEL_NAME']]
        i = names.index(m_name)
        return ['%10.3e' % float(d['par1'][i]), '%10.3e' % float(d['par2'][i])]


def first_data_row(path):
    lines = open(path).read().split('\n')
    check(lines[2].startswith('-----'), 'header rule missing')
    src = lines[3].split()
    row = lines[4].split()
    return src, row


def first_record(path):
    with open(path, 'rb') as f:
        model_dir = pickle.load(f)
        filters = pickle.load(f)
        law = pickle.load(f)
        info = pickle.load(f)
    info.meta.model_dir = model_dir
    info.meta.filters = filters
    info.meta.extinction_law = law
    return model_dir, filters, info


# ----------------------------------------------------------------------------
# one full planted-model experiment
# ----------------------------------------------------------------------------

def run_case(version, aperture_dependent, seed, m_index, av0, rel, av_range,
             dist_range_kpc, d_index=None, scale0=None, permutation=None,
             data_as_handle=False, aperture_unit=u.arcsec, dist_unit=u.kpc,
             select=('N', 1), fits_input='file', label=''):

    model_dir, names = make_package(version, aperture_dependent, seed, permutation)
    try:
        filters = make_filters(seed + 1)
        with quiet():
            convolve_model_dir(model_dir, filters)
            # second call on the same files
            convolve_model_dir(model_dir, filters, overwrite=True)

        filt_order = ['bob', 'zed', 'alice', 'eve']
        ap_arcsec = [2., 4., 1., 3.]
        m_name = names[m_index]

        if aperture_dependent:
            grid = distance_grid(*dist_range_kpc)
            d0 = grid[d_index]
            expected_scale = math.log10(d0)
            fluxes = synthesise(model_dir, filt_order, ap_arcsec, m_name, av0, True, d0_kpc=d0)
        else:
            expected_scale = scale0
            fluxes = synthesise(model_dir, filt_order, ap_arcsec, m_name, av0, False, scale0=scale0)

        line = data_line('planted', fluxes, rel)
        data_file = os.path.join(model_dir, 'data.txt')
        with open(data_file, 'w') as f:
            f.write(line + '\n')

        apertures = (np.array(ap_arcsec) * u.arcsec).to(aperture_unit)
        distance_range = (np.array(dist_range_kpc) * u.kpc).to(dist_unit)
        ext = make_extinction()

        out1 = os.path.join(model_dir, 'out1.fitinfo')
        with quiet():
            if data_as_handle:
                with open(data_file) as handle:
                    fit(handle, filt_order, apertures, model_dir, out1,
                        extinction_law=ext, distance_range=distance_range,
                        av_range=av_range, output_format=('A', 0), output_convolved=True)
            else:
                fit(data_file, filt_order, apertures, model_dir, out1,
                    extinction_law=ext, distance_range=distance_range,
                    av_range=av_range, output_format=('A', 0), output_convolved=True)

        # --- first record of the fit output file
        md, flt, info = first_record(out1)
        check(md == model_dir, label + ': model_dir in output file')
        check([f['name'] for f in flt] == filt_order, label + ': filters in output file')
        check(str(info.model_name[0]).strip() == m_name, label + ': planted model not ranked first in the output file (%s)' % info.model_name[0])
        chi2 = np.asarray(info.chi2, float)
        check(len(chi2) == N_MODELS, label + ': all fits kept')
        check(np.all(np.diff(chi2) >= 0), label + ': chi2 sorted')
        check(chi2[0] < 1e-5, label + ': chi2 of planted model %g' % chi2[0])
        check(chi2[1] > 0.05 and chi2[1] > 1e3 * chi2[0], label + ': second best not separated (%g)' % chi2[1])
        check(abs(float(np.asarray(info.av, float)[0]) - av0) < 2e-4, label + ': av %r vs %r' % (info.av[0], av0))
        check(abs(float(np.asarray(info.sc, float)[0]) - expected_scale) < 2e-4, label + ': scale %r vs %r' % (info.sc[0], expected_scale))
        check(int(info.model_id[0]) == list(read_convolved_independent(model_dir, 'bob')[0]).index(m_name), label + ': model_id')
        # best-fit convolved model fluxes reproduce the planted photometry
        mf = np.asarray(info.model_fluxes, float)[0]
        bias = 0.5 * rel ** 2 / math.log(10.)
        check(np.allclose(mf, np.log10(fluxes), atol=2e-5, rtol=0), label + ': model_fluxes of best fit')
        check(info.source.name == 'planted' and int(info.source.n_data) == 4, label + ': source')

        # --- write_parameters, first data row (twice, and from several input forms)
        for rep in range(2):
            outp = os.path.join(model_dir, 'pars_%i.txt' % rep)
            with quiet():
                if fits_input == 'file' or rep == 0:
                    write_parameters(out1, outp, select_format=select)
                elif fits_input == 'object':
                    write_parameters(info, outp, select_format=select)
                else:
                    write_parameters([info], outp, select_format=select)
            src, row = first_data_row(outp)
            check(src[0] == 'planted' and src[1] == '4', label + ': source header line')
            check(row[0] == '1', label + ': fit_id')
            check(row[1] == m_name, label + ': first row is %s, planted %s' % (row[1], m_name))
            check(abs(float(row[2])) < 1e-3, label + ': chi2 column ' + row[2])
            check(abs(float(row[3]) - av0) <= 1.001e-3, label + ': av column %s vs %r' % (row[3], av0))
            check(abs(float(row[4]) - expected_scale) <= 1.001e-3, label + ': scale column %s vs %r' % (row[4], expected_scale))
            want = [w.strip() for w in parameter_row_independent(model_dir, m_name)]
            check(row[5:7] == want, label + ': parameter row %r vs %r' % (row[5:7], want))
        check(open(os.path.join(model_dir, 'pars_0.txt')).read().split('\n')[4] ==
              open(os.path.join(model_dir, 'pars_1.txt')).read().split('\n')[4], label + ': repeated write_parameters')

        # --- Fitter driven directly, twice on the same objects
        with quiet():
            fitter = Fitter(filt_order, apertures, model_dir, extinction_law=ext,
                            av_range=av_range, distance_range=distance_range,
                            use_memmap=False)
        src_obj = Source.from_ascii(line)
        res = []
        for rep in range(2):
            inf = fitter.fit(src_obj)
            res.append((str(inf.model_name[0]).strip(), float(np.asarray(inf.chi2, float)[0]),
                        float(np.asarray(inf.av, float)[0]), float(np.asarray(inf.sc, float)[0])))
            check(res[-1][0] == m_name, label + ': Fitter best model')
            check(res[-1][1] < 1e-8, label + ': Fitter chi2 (float64 path) %g' % res[-1][1])
            check(abs(res[-1][2] - av0) < 1e-6, label + ': Fitter av')
            check(abs(res[-1][3] - expected_scale) < 1e-6, label + ': Fitter scale')
        check(res[0] == res[1], label + ': second Fitter.fit call differs')
        return model_dir, fitter, src_obj, info
    finally:
        shutil.rmtree(model_dir, ignore_errors=True)


def standard_cases():
    # (version, aperture_dependent) = both formats x both fitting modes
    n = 0
    for version in (1, 2):
        for apdep in (False, True):
            seed = 100 * version + (7 if apdep else 3)
            perm = [3, 0, 6, 1, 5, 2, 4] if version == 1 else None
            if apdep:
                grid = distance_grid(0.5, 4.0)
                # interior grid distance, interior A_V
                run_case(version, True, seed, 2, 3.7, 0.05, [0., 10.], (0.5, 4.0), d_index=11,
                         permutation=perm, label='v%i-apdep-interior' % version)
                # boundary: nearest and farthest grid distance, A_V on the edges of the range
                run_case(version, True, seed + 1, 5, 0.0, 0.01, [0., 10.], (0.5, 4.0), d_index=0,
                         permutation=perm, data_as_handle=True, aperture_unit=u.arcmin,
                         dist_unit=u.pc, fits_input='object', label='v%i-apdep-dmin-avmin' % version)
                run_case(version, True, seed + 2, 0, 10.0, 0.2, [0., 10.], (0.5, 4.0), d_index=len(grid) - 1,
                         permutation=perm, select=('F', 3.), fits_input='list', label='v%i-apdep-dmax-avmax' % version)
                # single distance (dmin == dmax)
                run_case(version, True, seed + 3, 6, 1.25, 0.1, [0., 10.], (2.0, 2.0), d_index=0,
                         permutation=perm, label='v%i-apdep-single-distance' % version)
                n += 4
            else:
                run_case(version, False, seed, 4, 2.2, 0.03, [0., 30.], (1., 2.), scale0=0.4,
                         permutation=perm, label='v%i-apindep-interior' % version)
                run_case(version, False, seed + 1, 1, 0.0, 0.1, [0., 30.], (1., 2.), scale0=-1.3,
                         permutation=perm, data_as_handle=True, dist_unit=u.pc,
                         fits_input='list', label='v%i-apindep-avmin' % version)
                run_case(version, False, seed + 2, 6, 30.0, 0.01, [0., 30.], (1., 2.), scale0=2.0,
                         permutation=perm, select=('D', 5.), fits_input='object', label='v%i-apindep-avmax' % version)
                n += 3
    return n


# ----------------------------------------------------------------------------
# checks specific to this change: ConvolvedFluxes.interpolate / write / read
# ----------------------------------------------------------------------------

def extra_checks():
    from sedfitter.convolved_fluxes import ConvolvedFluxes

    rng = np.random.RandomState(42)

    def reference(ap, fl, new):
        # independent: numpy's own 1-d interpolation on the sorted table, row by row
        o = np.argsort(ap)
        return np.array([np.interp(new, np.asarray(ap, float)[o], np.asarray(row, float)[o]) for row in fl])

    cases = []
    # (apertures [au], flux table, requested apertures, unit of the request)
    ap = np.logspace(1., 6., 10)
    cases.append(('sorted', ap, np.cumsum(rng.random_sample((6, 10)), axis=1), np.array([10., 11., 999.9, 1e3, 5e5, 1e6, 3e6]), u.au))
    # unusual but legal: tabulated apertures not in increasing order
    perm = rng.permutation(10)
    cases.append(('unsorted', ap[perm], np.cumsum(rng.random_sample((4, 10)), axis=1)[:, perm], np.array([10., 12345.6, 1e6]), u.au))
    # request in another unit, float32 fluxes, two apertures only
    cases.append(('pc-float32', np.array([100., 2.e5]), rng.random_sample((5, 2)).astype(np.float32), np.array([100., 2.e5, 150000.]) / 206264.80624709636, u.pc))
    # single model, single requested aperture, a Python list as input for the fluxes
    cases.append(('one-model', ap, [list(np.arange(10.) ** 2)], np.array([31622.776]), u.au))

    for label, tab, fl, req, unit in cases:
        label = 'interpolate-' + label
        fl_arr = np.array(fl)
        c = ConvolvedFluxes(wavelength=3. * u.micron, model_names=np.array(['m%i' % i for i in range(len(fl_arr))]),
                            apertures=tab * u.au)
        c.flux = fl_arr * u.mJy if not isinstance(fl, list) else (fl * u.mJy)
        c.error = 0.1 * fl_arr * u.Jy
        snapshot = (c.flux.copy(), c.error.copy(), c.apertures.copy())
        res = []
        for rep in range(2):     # second call on the same object
            r = c.interpolate(req * unit)
            res.append(r)
            req_au = np.minimum((req * unit).to(u.au).value, tab.max())
            check(r.flux.shape == (len(fl_arr), len(req)) and r.error.shape == r.flux.shape, label + ': shape')
            check(r.flux.unit == u.mJy and r.error.unit == u.Jy, label + ': units')
            check(np.allclose(r.flux.value, reference(tab, fl_arr, req_au), rtol=1e-6 if fl_arr.dtype == np.float32 else 1e-12, atol=0), label + ': flux values')
            check(np.allclose(r.error.value, reference(tab, 0.1 * fl_arr, req_au), rtol=1e-6 if fl_arr.dtype == np.float32 else 1e-12, atol=0), label + ': error values')
            check(np.allclose(r.apertures.to(u.au).value, req_au, rtol=1e-12), label + ': apertures clipped to the largest')
            check(r.central_wavelength == 3. * u.micron and np.all(r.model_names == c.model_names), label + ': metadata')
            check(r.flux.dtype == np.float64, label + ': dtype')
        check(np.array_equal(res[0].flux.value, res[1].flux.value), label + ': repeated call')
        check(np.array_equal(c.flux.value, snapshot[0].value) and np.array_equal(c.error.value, snapshot[1].value)
              and np.array_equal(c.apertures.value, snapshot[2].value), label + ': input object untouched')
        # exactly at tabulated apertures (boundary values) the table itself comes back
        r = c.interpolate(np.sort(tab) * u.au)
        o = np.argsort(tab)
        check(np.allclose(r.flux.value, fl_arr[:, o], rtol=1e-7 if fl_arr.dtype == np.float32 else 1e-14, atol=0), label + ': tabulated apertures')
        # below the smallest aperture: still refused, same exception text
        try:
            c.interpolate(np.array([tab.min() * 0.999]) * u.au)
            check(False, label + ': too small aperture accepted')
        except Exception as e:
            check(str(e) == 'Aperture(s) requested too small', label + ': message')

        # write / read round trip (twice to the same file)
        d = tempfile.mkdtemp(prefix='c08demo_')
        try:
            fn = os.path.join(d, 'conv.fits')
            c.write(fn)
            c.write(fn, overwrite=True)
            try:
                c.write(fn)
                check(False, label + ': overwrite protection')
            except OSError:
                pass
            for rep in range(2):
                c2 = ConvolvedFluxes.read(fn)
                check(c2 == c, label + ': round trip')
                check(c2.flux.unit == u.mJy and c2.error.unit == u.Jy and c2.apertures.unit == u.au, label + ': round trip units')
            with pyfits.open(fn) as h:
                check([x.name for x in h] == ['PRIMARY', 'CONVOLVED FLUXES', 'APERTURES'], label + ': HDUs')
                check(h[0].header['NMODELS'] == len(fl_arr) and h[0].header['NAP'] == len(tab) and h[0].header['FILTWAV'] == 3., label + ': keywords')
                check(h[1].columns.names == ['MODEL_NAME', 'TOTAL_FLUX', 'TOTAL_FLUX_ERR'], label + ': columns')
                check(h[1].columns[0].format == '30A' and h[1].columns[1].unit == 'mJy' and h[1].columns[2].unit == 'Jy' and h[2].columns[0].unit == 'AU', label + ': column formats %s %s' % (h[1].columns[0].format, h[2].columns[0].unit))
                check(h[1].data['TOTAL_FLUX'].shape == fl_arr.shape and np.array_equal(h[1].data['TOTAL_FLUX'], fl_arr), label + ': stored fluxes')
                check(h[1].data['TOTAL_FLUX'].dtype.kind == 'f' and h[1].data['TOTAL_FLUX'].dtype.itemsize == fl_arr.dtype.itemsize, label + ': stored dtype')
        finally:
            shutil.rmtree(d, ignore_errors=True)

    # aperture-independent table (no apertures): repeat, write, read
    c = ConvolvedFluxes(wavelength=8. * u.micron, model_names=np.array(['a', 'b', 'c']))
    c.flux = np.array([[1.], [2.], [3.]]) * u.mJy
    c.error = np.array([[.1], [.2], [.3]]) * u.mJy
    r = c.interpolate([5., 6.] * u.au)
    check(np.array_equal(r.flux.value, [[1., 1.], [2., 2.], [3., 3.]]) and r.flux.unit == u.mJy, 'no-aperture interpolate')
    d = tempfile.mkdtemp(prefix='c08demo_')
    try:
        fn = os.path.join(d, 'conv.fits')
        c.write(fn)
        c2 = ConvolvedFluxes.read(fn)
        check(c2 == c and c2.apertures is None and c2.n_ap == 1, 'no-aperture round trip')
        with pyfits.open(fn) as h:
            check(len(h) == 2 and h[1].data['TOTAL_FLUX'].shape == (3, 1), 'no-aperture file layout')
    finally:
        shutil.rmtree(d, ignore_errors=True)


if __name__ == '__main__':
    n = standard_cases()
    extra_checks()
    print("demo OK: %i planted-model pipelines, %i checks" % (n, CHECKS[0]))
