import sys, os
sys.path.insert(0, os.getcwd())

import io
import math
import shutil
import tempfile
import contextlib

import numpy as np
from astropy import units as u
from astropy.table import Table

import sedfitter
assert os.path.dirname(os.path.abspath(sedfitter.__file__)) == os.path.join(os.getcwd(), 'sedfitter'), sedfitter.__file__

from sedfitter.fit import Fitter
from sedfitter.source import Source
from sedfitter.extinction import Extinction
from sedfitter.convolved_fluxes import ConvolvedFluxes
from sedfitter.sed import SEDCube

N_CHECKS = [0]


def check(cond, msg):
    N_CHECKS[0] += 1
    if not cond:
        print("DEMO FAILURE: " + msg)
        sys.exit(1)


@contextlib.contextmanager
def quiet():
    with contextlib.redirect_stdout(io.StringIO()):
        yield


def make_extinction():
    e = Extinction()
    e.wav = np.logspace(-2., 3., 60) * u.micron
    e.chi = (e.wav.value ** -1.7 * 200.) * u.cm ** 2 / u.g
    return e


def write_conf(directory, step, version, apdep='yes'):
    with open(os.path.join(directory, 'models.conf'), 'w') as f:
        f.write("name = demo\n")
        f.write("length_subdir = 0\n")
        f.write("aperture_dependent = %s\n" % apdep)
        f.write("logd_step = %s\n" % repr(step))
        if version == 2:
            f.write("version = 2\n")


def write_filter(directory, name, wav_um, names, ap, ap_unit, table, dtype=float, overwrite=False):
    c = ConvolvedFluxes()
    c.central_wavelength = wav_um * u.micron
    c.model_names = np.array(names)
    c.apertures = np.asarray(ap, float) * ap_unit
    c.flux = np.asarray(table, dtype) * u.mJy
    c.error = np.asarray(table, dtype) * 0.01 * u.mJy
    os.makedirs(os.path.join(directory, 'convolved'), exist_ok=True)
    c.write(os.path.join(directory, 'convolved', name + '.fits'), overwrite=overwrite)


def write_cube(directory, names, ap_au, cube_wav_um, val):
    cube = SEDCube()
    cube.names = np.array(names)
    cube.distance = 1 * u.kpc
    cube.wav = np.asarray(cube_wav_um, float) * u.micron
    cube.nu = cube.wav.to(u.Hz, equivalencies=u.spectral())
    cube.apertures = np.asarray(ap_au, float) * u.au
    cube.val = np.asarray(val, float) * u.mJy
    cube.unc = cube.val * 0.01
    cube.write(os.path.join(directory, 'flux.fits'))


def make_source(valid, flux, error, name='src'):
    s = Source()
    s.name = name
    s.x = 1.
    s.y = 2.
    s.valid = np.array(valid, dtype=int)
    s.flux = np.array(flux, dtype=float)
    s.error = np.array(error, dtype=float)
    return s


# ---------------------------------------------------------------------------
# Independent computation of what property C02 promises
# ---------------------------------------------------------------------------

def expected_grid(dmin_kpc, dmax_kpc, step):
    """Fewest log-uniform points including both ends with spacing <= step"""
    if dmin_kpc == dmax_kpc:
        return np.array([dmin_kpc])
    span = math.log10(dmax_kpc) - math.log10(dmin_kpc)
    n = 2
    while span / (n - 1) > step:
        n += 1
    lo = math.log10(dmin_kpc)
    return np.array([10. ** (lo + span * i / (n - 1)) for i in range(n)])


def lin_interp_clamped(x, xp, fp):
    """Plain python linear interpolation; x beyond the last node -> last node"""
    order = sorted(range(len(xp)), key=lambda i: xp[i])
    xp = [float(xp[i]) for i in order]
    fp = [float(fp[i]) for i in order]
    if x >= xp[-1]:
        return fp[-1]
    assert x >= xp[0], "demo input outside the quantifier (theta*d below smallest aperture)"
    for i in range(len(xp) - 1):
        if xp[i] <= x <= xp[i + 1]:
            t = (x - xp[i]) / (xp[i + 1] - xp[i])
            return fp[i] * (1. - t) + fp[i + 1] * t
    raise AssertionError


def source_logs(source):
    w = np.zeros(len(source.valid))
    lf = np.zeros(len(source.valid))
    for j, v in enumerate(source.valid):
        if v == 1:
            lf[j] = math.log10(source.flux[j]) - 0.5 * (source.error[j] / source.flux[j]) ** 2 / math.log(10.)
            w[j] = (source.flux[j] * math.log(10.) / source.error[j]) ** 2
        elif v == 4:
            lf[j] = source.flux[j]
            w[j] = 1. / source.error[j] ** 2
        else:
            assert v == 0, "the demo only uses valid in (0, 1, 4)"
    return w, lf


def oracle(tables, ap_au, theta_arcsec, grid_kpc, source, k, av_min, av_max, single=False):
    """
    tables[f] is the (n_models, n_ap) table of filter f (mJy at 1 kpc), ap_au[f]
    the tabulated apertures (AU).  Returns chi2[m, d], av[m, d].
    """
    w, lf = source_logs(source)
    n_models = len(tables[0])
    chi2 = np.zeros((n_models, len(grid_kpc)))
    av = np.zeros((n_models, len(grid_kpc)))
    for m in range(n_models):
        for i, d in enumerate(grid_kpc):
            r = np.zeros(len(tables))
            for f in range(len(tables)):
                flux = lin_interp_clamped(theta_arcsec[f] * d * 1000., ap_au[f], tables[f][m]) * (1. / d) ** 2
                if single:
                    flux = float(np.float32(flux))
                    r[f] = lf[f] - float(np.log10(np.float32(flux)))
                else:
                    r[f] = lf[f] - math.log10(flux)
            a = float(np.sum(w * r * k) / np.sum(w * k * k))
            a = min(max(a, av_min), av_max)
            av[m, i] = a
            chi2[m, i] = float(np.sum(w * (r - a * k) ** 2))
    return chi2, av


def verify(info, names, tables, ap_au, theta_arcsec, dmin_kpc, dmax_kpc, step, source, k,
           av_min, av_max, label, single=False):
    grid = expected_grid(dmin_kpc, dmax_kpc, step)
    chi2, av = oracle(tables, ap_au, theta_arcsec, grid, source, k, av_min, av_max, single=single)
    rtol = 2e-4 if single else 1e-9
    atol = 2e-4 if single else 1e-9
    got_av = np.asarray(info.av, float)
    got_sc = np.asarray(info.sc, float)
    got_chi2 = np.asarray(info.chi2, float)
    got_names = [str(x).strip() for x in info.model_name]
    check(sorted(got_names) == sorted(names), label + ": every model reported exactly once")
    check(np.all(np.diff(got_chi2) >= 0), label + ": results sorted by chi2")
    logd = np.log10(grid)
    for j, nm in enumerate(got_names):
        m = names.index(nm)
        # the reported scale is log10(d/kpc) of a grid distance
        i = int(np.argmin(np.abs(logd - got_sc[j])))
        check(abs(logd[i] - got_sc[j]) <= 1e-11, "%s: model %s: scale %r is not a grid distance" % (label, nm, got_sc[j]))
        # the reported chi2 is the minimum over the grid (and the chi2 at the reported distance)
        check(abs(got_chi2[j] - chi2[m].min()) <= atol + rtol * abs(chi2[m].min()),
              "%s: model %s: chi2 %r is not the grid minimum %r" % (label, nm, got_chi2[j], chi2[m].min()))
        check(abs(got_chi2[j] - chi2[m, i]) <= atol + rtol * abs(chi2[m, i]),
              "%s: model %s: chi2 %r is not the chi2 at the reported distance %r" % (label, nm, got_chi2[j], chi2[m, i]))
        # the reported A_V is the clipped optimum at the reported distance
        check(abs(got_av[j] - av[m, i]) <= (2e-3 if single else 1e-9) * max(1., abs(av[m, i])),
              "%s: model %s: av %r is not the clipped optimum %r" % (label, nm, got_av[j], av[m, i]))
        check(av_min <= got_av[j] <= av_max, label + ": av inside the range")
    return grid


def same_info(a, b):
    return (np.array_equal(np.asarray(a.av, float), np.asarray(b.av, float)) and
            np.array_equal(np.asarray(a.sc, float), np.asarray(b.sc, float)) and
            np.array_equal(np.asarray(a.chi2, float), np.asarray(b.chi2, float)) and
            [str(x) for x in a.model_name] == [str(x) for x in b.model_name])


def random_tables(rng, n_models, n_ap, n_filt, monotone):
    tables = []
    for f in range(n_filt):
        t = rng.uniform(0.05, 3., size=(n_models, n_ap)) * 10. ** rng.uniform(-1, 2, size=(n_models, 1))
        if monotone:
            t = np.cumsum(t, axis=1)
        tables.append(t)
    return tables


def random_source(rng, tables, n_filt, with_special=False):
    base = np.array([t[rng.integers(len(t)), rng.integers(t.shape[1])] for t in tables])
    flux = base * 10. ** rng.uniform(-1.3, 0.3, size=n_filt)
    error = flux * rng.uniform(0.03, 0.2, size=n_filt)
    valid = np.ones(n_filt, dtype=int)
    if with_special and n_filt >= 3:
        valid[1] = 0
        valid[2] = 4
        flux[2] = np.log10(flux[2])
        error[2] = 0.05
    return make_source(valid, flux, error)


# ---------------------------------------------------------------------------
# Scenarios shared by all demonstrations
# ---------------------------------------------------------------------------

def names_for(n):
    return ['model_%04d' % i for i in range(n)]


def build_v1(directory, tables, ap, ap_unit, wavs, step, overwrite=False, dtype=float):
    names = names_for(len(tables[0]))
    write_conf(directory, step, 1)
    fnames = []
    for f, t in enumerate(tables):
        fn = 'F%d' % f
        write_filter(directory, fn, wavs[f], names, ap, ap_unit, t, dtype=dtype, overwrite=overwrite)
        fnames.append(fn)
    return names, fnames


def run_case(label, directory, fnames, names, tables, ap_au, thetas, drange, step, av_range,
             sources, ext, use_memmap=False, single=False, wavs=None, n_fitters=2):
    """Build the fitter (twice), fit every source (twice) and verify against the oracle"""
    dr_kpc = drange.to(u.kpc).value
    infos = []
    for rep in range(n_fitters):
        with quiet():
            fitter = Fitter(fnames, thetas, directory, extinction_law=ext, av_range=av_range,
                            distance_range=drange, use_memmap=use_memmap)
        k = np.asarray(ext.get_av(np.asarray(wavs, float) * u.micron), float)
        theta_arcsec = [float(t.to(u.arcsec).value) for t in thetas]
        these = []
        for s in sources:
            with quiet():
                info1 = fitter.fit(s)
                info2 = fitter.fit(s)
            check(same_info(info1, info2), label + ": second fit with the same fitter and source gives the same result")
            grid = verify(info1, names, tables, ap_au, theta_arcsec, dr_kpc[0], dr_kpc[1], step, s, k,
                          av_range[0], av_range[1], label, single=single)
            check(fitter.models.n_distances == len(grid), label + ": number of trial distances")
            check(np.allclose(fitter.models.distances.to(u.kpc).value, grid, rtol=1e-12, atol=0), label + ": trial distances")
            these.append(info1)
        infos.append(these)
    for a, b in zip(infos[0], infos[-1]):
        check(same_info(a, b), label + ": a second fitter built from the same files gives the same result")
    return infos[0]


def common_scenarios(tmp, ext):

    rng = np.random.default_rng(20240607)

    # A: version 1, 6 apertures, non-decreasing fluxes, theta*d partly beyond the largest aperture
    dA = os.path.join(tmp, 'A'); os.mkdir(dA)
    apA = np.logspace(2., 5., 6)
    wavA = [1.2, 4.5, 24.]
    tabA = random_tables(rng, 5, 6, 3, monotone=True)
    names, fn = build_v1(dA, tabA, apA, u.au, wavA, 0.02)
    srcs = [random_source(rng, tabA, 3), random_source(rng, tabA, 3, with_special=True)]
    run_case('A', dA, fn, names, tabA, [apA] * 3, [3., 5., 40.] * u.arcsec, [0.5, 4.] * u.kpc, 0.02,
             (0., 40.), srcs, ext, wavs=wavA)

    # B: 2 tabulated apertures, arbitrary (non monotonic) fluxes, narrow A_V range (clipping on both sides)
    dB = os.path.join(tmp, 'B'); os.mkdir(dB)
    apB = np.array([500., 20000.])
    wavB = [0.8, 3.6]
    tabB = random_tables(rng, 7, 2, 2, monotone=False)
    names, fn = build_v1(dB, tabB, apB, u.au, wavB, 0.05)
    srcs = [random_source(rng, tabB, 2) for i in range(3)]
    run_case('B', dB, fn, names, tabB, [apB] * 2, [2., 10.] * u.arcsec, [0.3, 8.] * u.kpc, 0.05,
             (0.5, 2.0), srcs, ext, wavs=wavB)

    # C: 8 apertures tabulated in pc, distance range given in pc, apertures in arcmin, dmin == dmax
    dC = os.path.join(tmp, 'C'); os.mkdir(dC)
    apC_au = np.logspace(2.5, 5.5, 8)
    apC_pc = (apC_au * u.au).to(u.pc).value
    wavC = [2.2, 8., 70.]
    tabC = random_tables(rng, 4, 8, 3, monotone=False)
    names, fn = build_v1(dC, tabC, apC_pc, u.pc, wavC, 0.025)
    srcs = [random_source(rng, tabC, 3, with_special=True)]
    apC_back = (apC_pc * u.pc).to(u.au).value
    run_case('C1', dC, fn, names, tabC, [apC_back] * 3, [0.05, 0.1, 0.5] * u.arcmin, [1500., 1500.] * u.pc, 0.025,
             (0., 10.), srcs, ext, wavs=wavC)
    run_case('C2', dC, fn, names, tabC, [apC_back] * 3, [0.05, 0.1, 0.5] * u.arcmin, [700., 9000.] * u.pc, 0.025,
             (-2., 10.), srcs, ext, wavs=wavC)

    # D: boundaries: range of exactly one dex with a step of 0.1 (11 distances); theta*dmin exactly on the
    #    smallest tabulated aperture; theta*dmax exactly on the largest; a range shorter than one step
    dD = os.path.join(tmp, 'D'); os.mkdir(dD)
    apD = np.array([1000., 3000., 10000., 50000.])
    wavD = [1.6, 5.8]
    tabD = random_tables(rng, 6, 4, 2, monotone=True)
    names, fn = build_v1(dD, tabD, apD, u.au, wavD, 0.1)
    srcs = [random_source(rng, tabD, 2)]
    run_case('D1', dD, fn, names, tabD, [apD] * 2, [1., 5.] * u.arcsec, [1., 10.] * u.kpc, 0.1,
             (0., 25.), srcs, ext, wavs=wavD)
    run_case('D2', dD, fn, names, tabD, [apD] * 2, [1., 5.] * u.arcsec, [2., 2.1] * u.kpc, 0.1,
             (0., 25.), srcs, ext, wavs=wavD)

    # E: version 2 package: one broadband and one monochromatic filter, with and without memory mapping
    dE = os.path.join(tmp, 'E'); os.mkdir(dE)
    apE = np.logspace(2., 5., 5)
    namesE = names_for(5)
    cube_wav = [1., 3., 10., 30.]
    val = np.cumsum(rng.uniform(0.1, 2., size=(5, 5, 4)), axis=1)
    write_cube(dE, namesE, apE, cube_wav, val)
    write_conf(dE, 0.03, 2)
    tabE0 = random_tables(rng, 5, 5, 1, monotone=True)[0]
    write_filter(dE, 'F0', 2.2, namesE, apE, u.au, tabE0)
    tabE = [tabE0, val[:, :, 2]]
    srcs = [random_source(rng, tabE, 2)]
    run_case('E-nomemmap', dE, ['F0', 10. * u.micron], namesE, tabE, [apE] * 2, [4., 12.] * u.arcsec,
             [0.2, 6.] * u.kpc, 0.03, (0., 30.), srcs, ext, use_memmap=False, wavs=[2.2, 10.])
    run_case('E-memmap', dE, ['F0', 10. * u.micron], namesE, tabE, [apE] * 2, [4., 12.] * u.arcsec,
             [0.2, 6.] * u.kpc, 0.03, (0., 30.), srcs, ext, use_memmap=True, single=True, wavs=[2.2, 10.])

    return rng


# ---------------------------------------------------------------------------
# Demonstration specific to this change: ConvolvedFluxes.interpolate
# ---------------------------------------------------------------------------

def direct_interpolation_checks(rng):

    for n_ap in (2, 3, 8):
        for dtype in (np.float64, np.float32):
            for ap_unit in (u.au, u.pc):
                ap_au = np.sort(10. ** rng.uniform(2., 5., n_ap))
                ap = (ap_au * u.au).to(ap_unit).value
                c = ConvolvedFluxes()
                c.central_wavelength = 3. * u.micron
                c.model_names = np.array(names_for(6))
                c.apertures = ap * ap_unit
                table = rng.uniform(0.1, 5., size=(6, n_ap)).astype(dtype)
                c.flux = table * u.mJy
                c.error = table * 0.1 * u.mJy
                # requested (in the unit of the table): inside, exactly on the nodes, exactly on both ends,
                # beyond the largest
                inner = rng.uniform(ap[0] * 1.001, ap[-1] * 0.999, 7)
                req_native = np.concatenate([inner, ap, [ap[-1] * 1.5, ap[-1] * 100.]])
                req_other = np.concatenate([inner, [ap[-1] * 1.5, ap[-1] * 100.]])
                other = [x for x in (u.au, u.pc, u.cm) if x != ap_unit]
                for req_q in (req_native * ap_unit, (req_other * ap_unit).to(other[0]), (req_other * ap_unit).to(other[1])):
                    keep = req_q.copy()
                    flux_before = c.flux.copy()
                    for rep in range(2):  # second call on the same object
                        ci = c.interpolate(req_q)
                        got = ci.flux.to(u.mJy).value
                        check(got.shape == (6, len(req_q)), "interpolate: shape")
                        tol = 2e-6 if dtype is np.float32 else 1e-10
                        for m in range(6):
                            for j in range(len(req_q)):
                                x = float(req_q[j].to(ap_unit).value)
                                want = lin_interp_clamped(x, list(ap), list(table[m].astype(float)))
                                check(abs(got[m, j] - want) <= tol * abs(want),
                                      "interpolate: model %d aperture %r: %r != %r" % (m, x, got[m, j], want))
                        check(np.all(ci.apertures.to(ap_unit).value <= ap[-1]), "interpolate: apertures clamped")
                        check(np.allclose(ci.error.value, 0.1 * got, rtol=1e-5), "interpolate: errors interpolated like fluxes")
                    check(np.all(req_q == keep), "interpolate: caller's aperture array left alone")
                    check(np.all(c.flux == flux_before), "interpolate: tabulated fluxes left alone")
                # too small an aperture is still refused with an exception
                try:
                    c.interpolate([ap[0] * 0.5, ap[0] * 2.] * ap_unit)
                except Exception:
                    pass
                else:
                    check(False, "interpolate: too small an aperture must be refused")

    # tabulated apertures that are not in increasing order (handled as a sorted table)
    c = ConvolvedFluxes()
    c.model_names = np.array(['a', 'b'])
    c.apertures = [300., 100., 1000.] * u.au
    c.flux = [[3., 1., 10.], [6., 7., 2.]] * u.mJy
    c.error = [[.3, .1, 1.], [.6, .7, .2]] * u.mJy
    ci = c.interpolate([200., 650., 5000.] * u.au)
    check(np.allclose(ci.flux.value, [[2., 6.5, 10.], [6.5, 4., 2.]], rtol=1e-12), "interpolate: unsorted table")
    check(np.allclose(ci.error.value, [[.2, .65, 1.], [.65, .4, .2]], rtol=1e-12), "interpolate: unsorted table (errors)")

    # a single tabulated aperture (aperture independent): the flux is repeated
    c = ConvolvedFluxes()
    c.model_names = np.array(['a', 'b'])
    c.flux = [[3.], [6.]] * u.mJy
    c.error = [[.3], [.6]] * u.mJy
    ci = c.interpolate([200., 650., 5000.] * u.au)
    check(np.array_equal(ci.flux.value, [[3., 3., 3.], [6., 6., 6.]]), "interpolate: single aperture")


def main():
    tmp = tempfile.mkdtemp()
    try:
        ext = make_extinction()
        rng = common_scenarios(tmp, ext)
        direct_interpolation_checks(rng)

        # single precision tables in the package file
        d = os.path.join(tmp, 'S'); os.mkdir(d)
        ap = np.logspace(2., 4.5, 5)
        wavs = [1.2, 4.5]
        tab = [t.astype(np.float32).astype(float) for t in random_tables(rng, 5, 5, 2, monotone=True)]
        names, fn = build_v1(d, tab, ap, u.au, wavs, 0.04, dtype=np.float32)
        srcs = [random_source(rng, tab, 2)]
        run_case('S', d, fn, names, tab, [ap] * 2, [3., 30.] * u.arcsec, [0.4, 5.] * u.kpc, 0.04,
                 (0., 20.), srcs, ext, wavs=wavs, single=True)
    finally:
        shutil.rmtree(tmp, ignore_errors=True)
    print("demo OK (%d checks)" % N_CHECKS[0])


if __name__ == '__main__':
    main()
