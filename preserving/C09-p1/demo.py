"""
Demonstration for property C09: parameter listings follow the fit ranking,
for any parameter-file order.

Run as:  cd /tmp/wtP_C09 && /venv/bin/python _out/p<i>/demo.py

The expected contents of every output are computed independently of the
library, from a plain dictionary  model name -> parameter values  and an
independent implementation of the selectors.
"""
import sys, os
sys.path.insert(0, os.getcwd())

import copy
import itertools
import pickle
import shutil
import tempfile
import warnings

import numpy as np
from astropy.table import Table

import sedfitter
assert os.path.abspath(sedfitter.__file__).startswith(os.path.abspath(os.getcwd()) + os.sep), sedfitter.__file__

from sedfitter.fit_info import FitInfo, FitInfoFile
from sedfitter.source import Source
from sedfitter.models import load_parameter_table
from sedfitter.write_parameters import write_parameters
from sedfitter.write_parameter_ranges import write_parameter_ranges
from sedfitter.extract_parameters import extract_parameters

warnings.simplefilter('ignore')

N_CHECKS = [0]


def check(cond, *msg):
    N_CHECKS[0] += 1
    if not cond:
        print("DEMO FAILURE:", *msg)
        sys.exit(1)


def fmt3(v):
    return '%.3e' % v


def same_number(token, value, what):
    # the outputs promise three decimals in exponent notation (or %.3f)
    check(token == fmt3(value), what, 'found', token, 'expected', fmt3(value))


# ---------------------------------------------------------------------------
# Packages
# ---------------------------------------------------------------------------

NAME_POOLS = {
    1: ['only_model'],
    2: ['b_2', 'a_10'],
    3: ['model_10', 'model_9', 'Model_A'],
    4: ['zz', 'ab', 'abc', 'ab_1'],
    6: ['m_0003', 'm_0001', 'x', 'M_0002', 'm_00010', 'a' * 30],
}


def make_truth(rng, names, n_par):
    """name -> dict(par -> value); the columns have different dtypes"""
    par_names = ['MDISK', 'par2', 'Inc', 'n_int'][:n_par]
    truth = {}
    for j, name in enumerate(names):
        row = {}
        for par in par_names:
            if par == 'MDISK':
                row[par] = np.float64(10. ** rng.uniform(-8, 2))
            elif par == 'par2':
                row[par] = np.float32(rng.uniform(-5, 5))
            elif par == 'Inc':
                row[par] = np.float64(rng.uniform(0, 90))
            else:
                row[par] = np.int32(rng.integers(-1000, 1000))
        truth[name] = row
    # one undefined value, to exercise the nan-aware minimum / maximum
    if len(names) >= 3 and n_par >= 3:
        truth[names[1]]['Inc'] = np.float64(np.nan)
    return par_names, truth


def write_package(model_dir, names, par_names, truth, perm, gz=False, name_first=True):
    os.makedirs(model_dir, exist_ok=True)
    for fn in ('parameters.fits', 'parameters.fits.gz'):
        if os.path.exists(os.path.join(model_dir, fn)):
            os.remove(os.path.join(model_dir, fn))
    rows = [names[i] for i in perm]
    t = Table()
    if name_first:
        t['MODEL_NAME'] = np.array(rows, dtype='S30')
    for par in par_names:
        t[par] = np.array([truth[n][par] for n in rows])
    if not name_first:
        t['MODEL_NAME'] = np.array(rows, dtype='S30')
    t.write(os.path.join(model_dir, 'parameters.fits.gz' if gz else 'parameters.fits'))
    return [c for c in t.colnames]


# ---------------------------------------------------------------------------
# Fit results (built the way Models.fit + fit() build them)
# ---------------------------------------------------------------------------

def make_info(rng, names, model_dir, src_name, valid, with_fluxes, stored_format):
    s = Source()
    s.name = src_name
    s.x = 1.
    s.y = 2.
    s.valid = np.array(valid)
    s.flux = np.ones(len(valid))
    s.error = np.ones(len(valid)) * 0.1
    info = FitInfo()
    info.source = s
    n = len(names)
    info.av = rng.uniform(0, 20, n)
    info.sc = rng.uniform(-1, 1, n)
    info.chi2 = np.round(rng.uniform(0.5, 40, n), 2)
    info.model_name = np.array(names)
    info.model_fluxes = rng.uniform(0, 1, (n, len(valid))) if with_fluxes else None
    info.meta.model_dir = model_dir
    info.meta.filters = [{'wav': 1.0, 'aperture_arcsec': 3.0}]
    info.meta.extinction_law = 'law'
    info.sort()
    info.keep(stored_format)
    return info


def expected_n_data(valid):
    return sum(1 for v in valid if v in (1, 4))


def expected_selection(chi2, n_data, select_format):
    """independent implementation of the selectors; chi2 is ranked"""
    form, number = select_format
    chi2 = [float(c) for c in chi2]
    if len(chi2) == 0:
        return 0
    if form == 'A':
        return len(chi2)
    if form == 'N':
        return min(int(number), len(chi2))
    n = 0
    for c in chi2:
        if form == 'C':
            ok = c <= number
        elif form == 'D':
            ok = c - chi2[0] <= number
        elif form == 'E':
            ok = c / n_data <= number
        elif form == 'F':
            ok = (c - chi2[0]) / n_data <= number
        if ok:
            n += 1
        else:
            break
    return n


# ---------------------------------------------------------------------------
# Checks of the three text outputs
# ---------------------------------------------------------------------------

def check_write_parameters(path, infos, select_format, columns, truth, additional):
    lines = open(path).read().split('\n')
    check(lines[-1] == '', 'file ends with a newline')
    lines = lines[:-1]
    check(lines[0].split() == ['source_name', 'n_data', 'n_fits'], 'header 1', lines[0])
    pars = [c for c in columns if c != 'MODEL_NAME'] + list(additional.keys())
    check(lines[1].split() == ['fit_id', 'model_name', 'chi2', 'av', 'scale'] + [p.lower() for p in pars], 'header 2', lines[1])
    check(set(lines[2]) == {'-'}, 'header 3')
    pos = 3
    for info in infos:
        n_data = expected_n_data(info.source.valid)
        n_fits = expected_selection(info.chi2, n_data, select_format)
        tok = lines[pos].split()
        pos += 1
        check(tok == [info.source.name, str(n_data), str(n_fits)], 'source line', tok, (info.source.name, n_data, n_fits))
        for i in range(n_fits):
            tok = lines[pos].split()
            pos += 1
            name = str(info.model_name[i])
            check(len(tok) == 5 + len(pars), 'number of fields', tok)
            check(tok[0] == str(i + 1), 'fit_id', tok)
            check(tok[1] == name, 'model name of fit', i, tok[1], name)
            check(tok[2] == '%.3f' % info.chi2[i], 'chi2', tok)
            check(tok[3] == '%.3f' % info.av[i], 'av', tok)
            check(tok[4] == '%.3f' % info.sc[i], 'sc', tok)
            for k, par in enumerate(pars):
                if par in additional:
                    value = float(additional[par][name])
                else:
                    value = truth[name][par]
                same_number(tok[5 + k], value, 'write_parameters %s of fit %i (%s)' % (par, i, name))
    check(pos == len(lines), 'no extra lines', pos, len(lines))


def check_write_parameter_ranges(path, infos, select_format, columns, truth, additional):
    lines = open(path).read().split('\n')
    check(lines[-1] == '', 'file ends with a newline')
    lines = lines[:-1]
    pars = [c for c in columns if c != 'MODEL_NAME'] + list(additional.keys())
    check(lines[0].split() == ['chi2', 'av', 'scale'] + [p.lower() for p in pars], 'header 1', lines[0])
    check(lines[1].split() == ['source_name', 'n_data', 'n_fits'] + ['min', 'best', 'max'] * (3 + len(pars)), 'header 2')
    check(set(lines[2]) == {'-', ' '}, 'header 3')
    check(len(lines) == 3 + len(infos), 'one line per source')
    for j, info in enumerate(infos):
        n_data = expected_n_data(info.source.valid)
        n_fits = expected_selection(info.chi2, n_data, select_format)
        tok = lines[3 + j].split()
        check(tok[:3] == [info.source.name, str(n_data), str(n_fits)], 'source fields', tok[:3])
        check(len(tok) == 3 + 3 * (3 + len(pars)), 'number of fields', tok)
        if n_fits == 0:
            check(tok[3:] == ['-'] * (3 * (3 + len(pars))), 'no data', tok)
            continue
        quantities = [[float(x) for x in info.chi2[:n_fits]],
                      [float(x) for x in info.av[:n_fits]],
                      [float(x) for x in info.sc[:n_fits]]]
        for par in pars:
            vals = []
            for i in range(n_fits):
                name = str(info.model_name[i])
                if par in additional:
                    vals.append(float(additional[par][name]))
                else:
                    vals.append(truth[name][par])
            quantities.append(vals)
        for k, vals in enumerate(quantities):
            defined = [v for v in vals if not np.isnan(v)]
            lo = min(defined) if defined else np.nan
            hi = max(defined) if defined else np.nan
            same_number(tok[3 + 3 * k], lo, 'ranges: min of quantity %i' % k)
            same_number(tok[4 + 3 * k], vals[0], 'ranges: best of quantity %i' % k)
            same_number(tok[5 + 3 * k], hi, 'ranges: max of quantity %i' % k)


def check_extract_parameters(prefix, suffix, infos, select_format, columns, truth, parameters, header):
    if parameters == 'all':
        parameters = list(columns)
    for info in infos:
        path = (prefix or '') + info.source.name + (suffix or '')
        lines = open(path).read().split('\n')
        check(lines[-1] == '', 'file ends with newline or is empty')
        lines = lines[:-1]
        n_data = expected_n_data(info.source.valid)
        n_fits = expected_selection(info.chi2, n_data, select_format)
        if header:
            check(lines[0].split() == ['CHI2', 'AV', 'SC'] + list(parameters), 'extract header', lines[0])
            lines = lines[1:]
        check(len(lines) == n_fits, 'extract: number of rows', len(lines), n_fits)
        for i in range(n_fits):
            tok = lines[i].split()
            name = str(info.model_name[i])
            check(len(tok) == 3 + len(parameters), 'extract: number of fields')
            same_number(tok[0], info.chi2[i], 'extract chi2')
            same_number(tok[1], info.av[i], 'extract av')
            same_number(tok[2], info.sc[i], 'extract sc')
            for k, par in enumerate(parameters):
                if par == 'MODEL_NAME':
                    check(tok[3 + k] == name, 'extract: model name of fit', i, tok[3 + k], name)
                else:
                    same_number(tok[3 + k], truth[name][par], 'extract %s of fit %i (%s)' % (par, i, name))
        os.remove(path)


def check_filter_table(info, prepared, select_format, columns, truth, additional):
    """the table handed to the parameter plots (FitInfo.filter_table)"""
    n_fits = expected_selection(info.chi2, expected_n_data(info.source.valid), select_format)
    info = copy.deepcopy(info)
    info.keep(select_format)
    check(info.n_fits == n_fits and len(info.model_name) == n_fits, 'n_fits', info.n_fits, n_fits)
    before = prepared.copy()
    for repeat in range(2):  # second call on the same objects
        if additional is None:
            ts = info.filter_table(prepared)
            add = {}
        else:
            ts = info.filter_table(prepared, additional=additional)
            add = additional
        check(len(ts) == n_fits, 'filter_table length')
        check(list(ts.colnames) == list(columns) + list(add.keys()), 'filter_table columns', ts.colnames)
        for i in range(n_fits):
            name = str(info.model_name[i])
            check(str(ts['MODEL_NAME'][i]) == name, 'filter_table name')
            for par in ts.colnames:
                if par == 'MODEL_NAME':
                    continue
                value = float(add[par][name]) if par in add else truth[name][par]
                got = ts[par][i]
                if np.ma.is_masked(got):  # undefined values are read from FITS as masked
                    got = np.nan
                check((np.isnan(got) and np.isnan(value)) or got == value, 'filter_table value', par, i, got, value)
        for par in add:
            check(ts[par].dtype == np.float64, 'additional columns are float')
        # the caller's table is left alone
        check(prepared.colnames == before.colnames and len(prepared) == len(before), 'input table shape unchanged')
        for c in before.colnames:
            check(same_column(prepared[c], before[c]), 'input table unchanged', c)


def same_column(a, b):
    ma = np.ma.getmaskarray(a)
    mb = np.ma.getmaskarray(b)
    if a.dtype != b.dtype or a.shape != b.shape or not np.array_equal(ma, mb):
        return False
    a = np.asarray(np.ma.getdata(a))[~ma]
    b = np.asarray(np.ma.getdata(b))[~mb]
    return bool(np.all(a == b))


def prepared_table(model_dir):
    """the way the plots and the writers prepare the table"""
    t = load_parameter_table(model_dir)
    t['MODEL_NAME'] = np.char.strip(t['MODEL_NAME'])
    t.sort('MODEL_NAME')
    return t


# ---------------------------------------------------------------------------
# Driver
# ---------------------------------------------------------------------------

def selectors_for(infos):
    n = max(len(i.chi2) for i in infos)
    sel = [('A', None), ('N', 0), ('N', 1), ('N', 2), ('N', n), ('N', n + 3)]
    chi2 = np.concatenate([np.asarray(i.chi2, float) for i in infos]) if infos else np.array([1.])
    if len(chi2) == 0:
        chi2 = np.array([1.])
    sel += [('C', float(chi2.min()) - 1.), ('C', float(np.median(chi2))), ('C', float(chi2.max())),
            ('D', 0.), ('D', 7.5), ('E', 3.), ('F', 0.), ('F', 2.5)]
    return sel


def run_package(rng, tmp, label, names, n_par, perm, gz, name_first, n_selectors=None):
    model_dir = os.path.join(tmp, 'models_' + label)
    par_names, truth = make_truth(rng, names, n_par)
    columns = write_package(model_dir, names, par_names, truth, perm, gz=gz, name_first=name_first)

    # what the fitter would have stored: the order of the names in the
    # convolved flux files is unrelated to the order of the parameter file
    fit_order = list(rng.permutation(len(names)))
    fit_names = [names[i] for i in fit_order]
    stored = [('A', None), ('N', max(1, len(names) - 1)), ('F', 6.)]
    valids = [[1, 1, 4, 0, 1], [1, 2, 3, 9, 4, 1], [0, 1, 1]]
    infos = []
    for k in range(3):
        infos.append(make_info(rng, fit_names, model_dir, 'src_%s_%i' % (label, k), valids[k],
                               with_fluxes=(k == 1), stored_format=stored[k]))

    fits_file = os.path.join(tmp, 'fits_' + label + '.fitinfo')
    fout = FitInfoFile(fits_file, 'w')
    for info in infos:
        fout.write(info)
    fout.close()

    additional_sets = [
        {},
        {'extra': dict((n, float(rng.uniform(-3, 3))) for n in names)},
        # dictionary order is not alphabetical; values given as int / numpy scalars
        {'zeta': dict((n, int(rng.integers(0, 50))) for n in names),
         'alpha': dict((n, np.float32(rng.uniform(0, 1))) for n in names)},
    ]

    prepared = prepared_table(model_dir)
    check(list(prepared['MODEL_NAME']) == sorted(names), 'prepared table is name-sorted')

    selectors = selectors_for(infos)
    if n_selectors is not None:
        selectors = [selectors[i] for i in sorted(rng.choice(len(selectors), n_selectors, replace=False))]

    states = [pickle.dumps(i) for i in infos]

    for isel, select_format in enumerate(selectors):

        # the different legal forms of the input
        forms = [('file', fits_file, infos),
                 ('single', infos[isel % 3], [infos[isel % 3]]),
                 ('list', list(infos), infos),
                 ('tuple', tuple(infos[::-1]), infos[::-1])]
        form_name, input_fits, exp_infos = forms[isel % 4]
        additional = additional_sets[isel % 3]

        out = os.path.join(tmp, 'out_%s_%i.txt' % (label, isel))

        for repeat in range(2):  # second call on the same objects / files
            write_parameters(input_fits, out, select_format=select_format, additional=additional)
            check_write_parameters(out, exp_infos, select_format, columns, truth, additional)

            write_parameter_ranges(input_fits, out, select_format=select_format, additional=additional)
            check_write_parameter_ranges(out, exp_infos, select_format, columns, truth, additional)

        # defaults (no additional argument at all, default selector = best fit)
        if isel == 0:
            write_parameters(input_fits, out)
            check_write_parameters(out, exp_infos, ('N', 1), columns, truth, {})
            write_parameter_ranges(input_fits, out)
            check_write_parameter_ranges(out, exp_infos, ('N', 1), columns, truth, {})
            # positional form of the documented arguments
            write_parameters(input_fits, out, select_format, additional)
            check_write_parameters(out, exp_infos, select_format, columns, truth, additional)
            write_parameter_ranges(input_fits, out, select_format, additional)
            check_write_parameter_ranges(out, exp_infos, select_format, columns, truth, additional)
        os.remove(out)

        prefix = os.path.join(tmp, 'ex_%s_' % label)
        variants = [('all', True, None), (['MODEL_NAME'] + par_names[::-1], False, '.par'),
                    (tuple(par_names[:1]), True, '.txt')]
        parameters, header, suffix = variants[isel % 3]
        extract_parameters(input_fits, prefix, suffix, parameters=parameters,
                           select_format=select_format, header=header)
        check_extract_parameters(prefix, suffix, exp_infos, select_format, columns, truth, parameters, header)
        if isel == 1:
            extract_parameters(input=input_fits, output_prefix=prefix)
            check_extract_parameters(prefix, None, exp_infos, ('N', 1), columns, truth, 'all', True)

        # the table handed to the plots
        for k, info in enumerate(infos):
            check_filter_table(info, prepared, select_format, columns, truth,
                               [None, additional_sets[1], additional_sets[2]][(isel + k) % 3])

    # the objects passed in by the caller were not modified by any of this
    for info, state in zip(infos, states):
        check(pickle.dumps(info) == state, 'caller objects unchanged')

    # results read back from the file give the same tables as the objects
    fin = FitInfoFile(fits_file, 'r')
    for info_file, info in zip(fin, infos):
        t1 = info_file.filter_table(prepared, additional=additional_sets[2])
        t2 = info.filter_table(prepared, additional=additional_sets[2])
        check(t1.colnames == t2.colnames and len(t1) == len(t2), 'file/object tables agree')
        for c in t1.colnames:
            check(same_column(t1[c], t2[c]), 'file/object tables agree', c)
    fin.close()

    return model_dir, names, par_names, truth, columns, infos, fits_file


def main():

    rng = np.random.default_rng(20260927)
    tmp = tempfile.mkdtemp(prefix='c09demo_')

    try:

        n_packages = 0

        # all permutations of the small packages
        for n in (1, 2, 3, 4):
            names = NAME_POOLS[n]
            for ip, perm in enumerate(itertools.permutations(range(n))):
                n_par = 1 + (ip + n) % 4
                run_package(rng, tmp, 'n%i_p%i' % (n, ip), names, n_par, list(perm),
                            gz=(ip % 5 == 3), name_first=(ip % 4 != 2),
                            n_selectors=None if ip < 2 else 4)
                n_packages += 1

        # a sample of the permutations of a larger one (identity, reverse, random)
        names = NAME_POOLS[6]
        perms = [list(range(6)), list(range(6))[::-1]] + [list(rng.permutation(6)) for _ in range(6)]
        last = None
        for ip, perm in enumerate(perms):
            last = run_package(rng, tmp, 'n6_p%i' % ip, names, 1 + ip % 4, perm,
                               gz=(ip == 2), name_first=(ip != 3),
                               n_selectors=None if ip < 3 else 5)
            n_packages += 1

        # Rewriting the parameter file of an existing package with another
        # row order (and other values) between two calls
        model_dir, names, par_names, truth, columns, infos, fits_file = last
        out = os.path.join(tmp, 'rewrite.txt')
        for it in range(4):
            perm = list(rng.permutation(len(names)))
            par_names, truth = make_truth(rng, names, 1 + (it + 1) % 4)
            columns = write_package(model_dir, names, par_names, truth, perm, gz=(it == 2))
            for input_fits in (fits_file, infos):
                write_parameters(input_fits, out, select_format=('A', None))
                check_write_parameters(out, infos, ('A', None), columns, truth, {})
                write_parameter_ranges(input_fits, out, select_format=('D', 10.))
                check_write_parameter_ranges(out, infos, ('D', 10.), columns, truth, {})
            prefix = os.path.join(tmp, 'rw_')
            extract_parameters(fits_file, prefix, '.x', select_format=('N', 4))
            check_extract_parameters(prefix, '.x', infos, ('N', 4), columns, truth, 'all', True)
            prepared = prepared_table(model_dir)
            for info in infos:
                check_filter_table(info, prepared, ('A', None), columns, truth, None)

        # Re-using one FitInfo object while its content is replaced (as a
        # script that loops over selections by hand would do)
        prepared = prepared_table(model_dir)
        info = copy.deepcopy(infos[0])
        for it in range(6):
            check_filter_table(info, prepared, ('A', None), columns, truth, None)
            if it % 2 == 0:
                info.keep(('N', max(0, len(info.chi2) - 1)))
            else:
                order = rng.permutation(len(info.chi2))
                info.chi2 = np.sort(info.chi2)
                info.av = info.av[order]
                info.sc = info.sc[order]
                info.model_name = info.model_name[order]
                info.model_id = info.model_id[order]
        # in-place change of the names held by the object
        info = copy.deepcopy(infos[0])
        check_filter_table(info, prepared, ('A', None), columns, truth, None)
        info.model_name[[0, 1]] = info.model_name[[1, 0]]
        check_filter_table(info, prepared, ('A', None), columns, truth, None)
        info.model_name = info.model_name[::-1]
        check_filter_table(info, prepared, ('A', None), columns, truth, None)

        # copies and pickles of an object that has already been used
        info = copy.deepcopy(infos[0])
        check_filter_table(info, prepared, ('A', None), columns, truth, None)
        for clone in (copy.copy(info), copy.deepcopy(info), pickle.loads(pickle.dumps(info, 2)),
                      pickle.loads(pickle.dumps(info, pickle.HIGHEST_PROTOCOL))):
            clone.keep(('N', 3))
            clone.model_name[[0, 2]] = clone.model_name[[2, 0]]
            check_filter_table(clone, prepared, ('A', None), columns, truth, None)
            check_filter_table(clone, prepared, ('N', 2), columns, truth, None)
            check_filter_table(info, prepared, ('A', None), columns, truth, None)
        # names given as a list / as an object array
        info.model_name = [str(x) for x in info.model_name][::-1]
        ts = info.filter_table(prepared)
        check([str(x) for x in ts['MODEL_NAME']] == list(info.model_name), 'names as list')
        info.model_name = np.array(info.model_name[::-1], dtype=object)
        ts = info.filter_table(prepared)
        check([str(x) for x in ts['MODEL_NAME']] == list(info.model_name), 'names as object array')
        check(all(ts[par_names[0]][i] == truth[info.model_name[i]][par_names[0]] for i in range(len(ts))), 'values for object array')

        # A table that was not put in name order: with a single fit kept the
        # right row is found; with more, the call either fails or gives the
        # rows of the named models (never those of other models)
        raw = load_parameter_table(model_dir)
        raw['MODEL_NAME'] = np.char.strip(raw['MODEL_NAME'])
        for info0 in infos:
            check_filter_table(info0, raw, ('N', 1), columns, truth, additional={'q': dict((n, len(n)) for n in names)})
            try:
                ts = info0.filter_table(raw)
            except Exception:
                pass
            else:
                for i in range(len(info0.chi2)):
                    check(str(ts['MODEL_NAME'][i]) == str(info0.model_name[i]), 'unsorted table: name')
                    check(ts[par_names[0]][i] == truth[str(info0.model_name[i])][par_names[0]], 'unsorted table: value')

        # Things that are refused stay refused
        t_noname = prepared.copy()
        t_noname.remove_column('MODEL_NAME')
        try:
            infos[0].filter_table(t_noname)
        except ValueError:
            pass
        else:
            check(False, 'table without MODEL_NAME accepted')
        try:
            infos[0].filter_table(prepared, additional={par_names[0]: dict((n, 1.) for n in names)})
        except Exception:
            pass
        else:
            check(False, 'duplicate parameter accepted')
        try:
            infos[0].filter_table(prepared, additional={'extra': {names[0]: 1.}})
        except KeyError:
            pass
        else:
            check(len(infos[0].chi2) <= 1, 'incomplete additional dictionary accepted')

        print("packages: %i   checks: %i" % (n_packages, N_CHECKS[0]))
        print("DEMO OK")

    finally:
        shutil.rmtree(tmp, ignore_errors=True)


if __name__ == '__main__':
    main()
