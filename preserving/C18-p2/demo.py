import sys, os; sys.path.insert(0, os.getcwd())

# Demonstration for property C18: filter_output splits the sources of a fit
# file into two complete, disjoint, faithful files.  The expected split is
# computed here from the raw numbers used to build the records, and the
# output files are read back with plain pickle (not with the library).

import pickle
import shutil
import tempfile
import itertools

import numpy as np
from astropy import units as u

import sedfitter
assert os.path.dirname(os.path.abspath(sedfitter.__file__)) == os.path.join(os.getcwd(), 'sedfitter'), sedfitter.__file__

from sedfitter import filter_output
from sedfitter.fit_info import FitInfo, FitInfoFile
from sedfitter.source import Source
from sedfitter.extinction import Extinction

TMP = tempfile.mkdtemp(prefix='c18demo_')
N_CHECKS = [0]


def check(cond, msg):
    N_CHECKS[0] += 1
    if not cond:
        print("FAILED:", msg)
        shutil.rmtree(TMP, ignore_errors=True)
        sys.exit(1)


# ---------------------------------------------------------------------------
# Building inputs
# ---------------------------------------------------------------------------

def make_law():
    law = Extinction()
    law.wav = np.array([0.1, 0.55, 1., 10., 100.]) * u.micron
    law.chi = np.array([900., 220., 100., 10., 1.]) * u.cm ** 2 / u.g
    return law


def make_spec(rng, i, best, n_data, n_wav=6, n_fits=None, dtype=np.float64,
              with_fluxes=True, name=None):
    """
    The raw numbers for one record (a plain dictionary, the 'truth').
    """
    # exactly n_data points with valid in {1, 4}, the rest from {0, 2, 3, 9}
    valid = np.array(rng.choice([0, 2, 3, 9], size=n_wav))
    pos = rng.choice(n_wav, size=n_data, replace=False)
    valid[pos] = rng.choice([1, 4], size=n_data)
    if n_fits is None:
        n_fits = int(rng.integers(1, 7))
    chi2 = np.sort(np.hstack([[best], best + rng.uniform(0.1, 50., n_fits - 1)])).astype(dtype)
    chi2[0] = best
    return {
        'name': name if name is not None else 'src_%02i' % i,
        'x': float(rng.uniform(0., 360.)),
        'y': float(rng.uniform(-90., 90.)),
        'valid': valid,
        'flux': rng.uniform(0.1, 10., n_wav),
        'error': rng.uniform(0.01, 1., n_wav),
        'av': rng.uniform(0., 20., n_fits).astype(dtype),
        'sc': rng.uniform(-1., 2., n_fits).astype(dtype),
        'chi2': chi2,
        'model_id': rng.permutation(100)[:n_fits],
        'model_name': np.array(['model_%05i' % k for k in rng.permutation(100)[:n_fits]]),
        'model_fluxes': rng.uniform(-3., 3., (n_fits, n_wav)).astype(dtype) if with_fluxes else None,
    }


def make_info(spec, meta):
    s = Source()
    s.name = spec['name']
    s.x = spec['x']
    s.y = spec['y']
    s.valid = spec['valid'].copy()
    s.flux = spec['flux'].copy()
    s.error = spec['error'].copy()
    info = FitInfo(source=s)
    for key in ('av', 'sc', 'chi2', 'model_id', 'model_name'):
        setattr(info, key, spec[key].copy())
    info.model_fluxes = None if spec['model_fluxes'] is None else spec['model_fluxes'].copy()
    info.meta.model_dir, info.meta.filters, info.meta.extinction_law = meta
    return info


def write_input_raw(path, specs, meta, protocol=2):
    """
    Write an input file without the library writer (three header objects
    followed by one pickled FitInfo per source).
    """
    with open(path, 'wb') as f:
        for item in meta:
            pickle.dump(item, f, protocol)
        for spec in specs:
            pickle.dump(make_info(spec, meta), f, protocol)


def write_input_lib(path, specs, meta):
    fout = FitInfoFile(path, 'w')
    for spec in specs:
        fout.write(make_info(spec, meta))
    fout.close()


# ---------------------------------------------------------------------------
# Reading outputs back, without the library reader
# ---------------------------------------------------------------------------

def read_raw(path):
    check(os.path.exists(path), "output file %s does not exist" % path)
    header, records = None, []
    with open(path, 'rb') as f:
        if os.path.getsize(path) == 0:
            return header, records
        header = [pickle.load(f) for _ in range(3)]
        while True:
            try:
                records.append(pickle.load(f))
            except EOFError:
                break
    return header, records


def same_array(a, b):
    if a is None or b is None:
        return a is None and b is None
    a, b = np.asarray(a), np.asarray(b)
    return a.dtype == b.dtype and a.shape == b.shape and bool(np.all(a == b))


def record_matches(info, spec):
    s = info.source
    return (type(info) is FitInfo and type(s) is Source and
            s.name == spec['name'] and s.x == spec['x'] and s.y == spec['y'] and
            same_array(s.valid, spec['valid']) and
            same_array(s.flux, spec['flux']) and
            same_array(s.error, spec['error']) and
            all(same_array(getattr(info, key), spec[key])
                for key in ('av', 'sc', 'chi2', 'model_id', 'model_name', 'model_fluxes')))


def header_matches(header, meta):
    if header[0] != meta[0] or list(header[1]) != list(meta[1]):
        return False
    if meta[2] is None or header[2] is None:
        return meta[2] is None and header[2] is None
    return (bool(np.all(header[2].wav == meta[2].wav)) and
            bool(np.all(header[2].chi == meta[2].chi)))


def expected_good(spec, chi=None, cpd=None):
    """
    Independent statement of the criterion, in plain Python arithmetic.
    """
    best = float(spec['chi2'][0])
    n_data = sum(1 for v in spec['valid'].tolist() if v in (1, 4))
    assert n_data >= 1
    if chi is not None:
        assert best != chi
        return best < chi
    else:
        assert best / n_data != cpd
        return best / n_data < cpd


def check_split(label, specs, meta, good_path, bad_path, chi=None, cpd=None):
    exp = [expected_good(spec, chi=chi, cpd=cpd) for spec in specs]
    exp_good = [spec for spec, g in zip(specs, exp) if g]
    exp_bad = [spec for spec, g in zip(specs, exp) if not g]
    for which, path, expected in (('good', good_path, exp_good), ('bad', bad_path, exp_bad)):
        header, records = read_raw(path)
        names = [r.source.name for r in records]
        check(names == [spec['name'] for spec in expected],
              "%s: %s file has sources %s, expected %s" % (label, which, names, [spec['name'] for spec in expected]))
        for r, spec in zip(records, expected):
            check(record_matches(r, spec), "%s: record of %s changed in the %s file" % (label, spec['name'], which))
        if len(records) > 0:
            check(header_matches(header, meta), "%s: header of the %s file changed" % (label, which))
    # complete and disjoint (implied by the above, checked explicitly on the names)
    g = [r.source.name for r in read_raw(good_path)[1]]
    b = [r.source.name for r in read_raw(bad_path)[1]]
    check(sorted(g + b) == sorted(spec['name'] for spec in specs) and not set(g) & set(b),
          "%s: the two files are not a partition of the input" % label)
    return sum(exp)


def file_bytes(path):
    with open(path, 'rb') as f:
        return f.read()


# ---------------------------------------------------------------------------
# 1. all sizes 1..10, both criteria, file inputs with automatic and explicit
#    names, list / tuple inputs, second call on the same files / objects
# ---------------------------------------------------------------------------

rng = np.random.default_rng(18)
law = make_law()
metas = [('/some/model_dir', ['2J', '2H', '2K', 'I1', 'I2', 'I3'], law),
         ('models_x', ['A', 'B', 'C', 'D', 'E', 'F'], None)]

n_good_total = 0
case = 0
for n_src in range(1, 11):
    for criterion in ('chi', 'cpd'):
        case += 1
        meta = metas[case % 2]
        dtype = [np.float64, np.float32][(case // 2) % 2]
        specs = []
        for i in range(n_src):
            n_data = int(rng.integers(1, 7))
            # best chi^2 values exactly representable in single precision, and
            # well away from the thresholds used below
            best = float(np.float32(rng.choice([0.25, 1.5, 2.75, 7.5, 11.25, 30.5, 99.75])))
            specs.append(make_spec(rng, i, best, n_data, dtype=dtype,
                                   with_fluxes=bool((i + case) % 3)))
        threshold = float(rng.choice([2.0, 5.0, 12.0]))
        kwargs = {criterion: threshold}

        # (a) file input, automatic names
        path = os.path.join(TMP, 'case%02i.fitinfo' % case)
        if case % 3 == 0:
            write_input_raw(path, specs, meta)
        else:
            write_input_lib(path, specs, meta)
        before = file_bytes(path)
        filter_output(path, **kwargs)
        n_good_total += check_split('case %i auto' % case, specs, meta, path + '_good', path + '_bad', **kwargs)
        first = file_bytes(path + '_good'), file_bytes(path + '_bad')

        # second call on the same files: same result, input untouched
        filter_output(path, **kwargs)
        check_split('case %i auto, second call' % case, specs, meta, path + '_good', path + '_bad', **kwargs)
        check((file_bytes(path + '_good'), file_bytes(path + '_bad')) == first,
              "case %i: second call gives different files" % case)
        check(file_bytes(path) == before, "case %i: the input file was modified" % case)

        # (b) file input, explicit names (positional, as documented), and mixed
        good_path = os.path.join(TMP, 'case%02i_the_good_ones' % case)
        bad_path = os.path.join(TMP, 'case%02i_the_bad_ones' % case)
        filter_output(path, good_path, bad_path, **kwargs)
        check_split('case %i explicit' % case, specs, meta, good_path, bad_path, **kwargs)
        os.remove(path + '_bad')
        filter_output(path, output_good=good_path + '2', **kwargs)
        check_split('case %i mixed' % case, specs, meta, good_path + '2', path + '_bad', **kwargs)

        # (c) list / tuple of FitInfo instances
        infos = [make_info(spec, meta) for spec in specs]
        container = infos if case % 2 else tuple(infos)
        good_path = os.path.join(TMP, 'case%02i_list_good' % case)
        bad_path = os.path.join(TMP, 'case%02i_list_bad' % case)
        for attempt in ('first', 'second'):
            filter_output(container, output_good=good_path, output_bad=bad_path, **kwargs)
            check_split('case %i list, %s call' % (case, attempt), specs, meta, good_path, bad_path, **kwargs)
            # the caller's objects are left alone
            check(all(record_matches(info, spec) for info, spec in zip(infos, specs)),
                  "case %i: the FitInfo instances passed in were modified" % case)
            check(all(info.meta.model_dir == meta[0] and info.meta.extinction_law is meta[2] for info in infos),
                  "case %i: the meta of the FitInfo instances passed in was modified" % case)

check(0 < n_good_total, "no good source at all in the random cases")

# ---------------------------------------------------------------------------
# 2. all sources good / all sources bad: both files exist, one has no record
# ---------------------------------------------------------------------------

meta = metas[0]
specs = [make_spec(rng, i, best, n_data=3) for i, best in enumerate([3., 6., 4.5, 9., 3.75])]
path = os.path.join(TMP, 'extreme.fitinfo')
write_input_lib(path, specs, meta)
for kwargs in ({'chi': 100.}, {'chi': 1.}, {'cpd': 50.}, {'cpd': 0.5}):
    for p in (path + '_good', path + '_bad'):
        if os.path.exists(p):
            os.remove(p)
    filter_output(path, **kwargs)
    n = check_split('extreme %s' % kwargs, specs, meta, path + '_good', path + '_bad', **kwargs)
    check(n in (0, len(specs)), "extreme case is not extreme")

# ---------------------------------------------------------------------------
# 3. boundary values: thresholds one unit in the last place on either side of
#    the best chi^2 (or of the best chi^2 per point, n_data a power of two so
#    that the division is exact), in double and in single precision
# ---------------------------------------------------------------------------

for dtype in (np.float64, np.float32):
    best = dtype(8.0)
    for n_data, criterion in ((4, 'cpd'), (1, 'cpd'), (2, 'chi'), (5, 'chi')):
        value = best / dtype(n_data) if criterion == 'cpd' else best
        for direction, exp_is_good in ((np.inf, True), (-np.inf, False)):
            threshold = float(np.nextafter(dtype(value), dtype(direction)))
            specs = [make_spec(rng, 0, 1000., 3, dtype=dtype, name='far above'),
                     make_spec(rng, 1, float(best), n_data, dtype=dtype, name='on the edge'),
                     make_spec(rng, 2, 0.125, 2, dtype=dtype, name='far below')]
            kwargs = {criterion: threshold}
            check(expected_good(specs[1], **kwargs) is exp_is_good, "boundary case is badly built")
            path = os.path.join(TMP, 'edge.fitinfo')
            write_input_lib(path, specs, meta)
            filter_output(path, **kwargs)
            check_split('edge %s %s %s' % (dtype.__name__, criterion, threshold), specs, meta,
                        path + '_good', path + '_bad', **kwargs)
            infos = [make_info(spec, meta) for spec in specs]
            filter_output(infos, os.path.join(TMP, 'eg'), os.path.join(TMP, 'eb'), **kwargs)
            check_split('edge list %s %s %s' % (dtype.__name__, criterion, threshold), specs, meta,
                        os.path.join(TMP, 'eg'), os.path.join(TMP, 'eb'), **kwargs)

# ---------------------------------------------------------------------------
# 4. unusual but legal inputs
# ---------------------------------------------------------------------------

# a single FitInfo instance (not in a list); one fit only; no model fluxes
spec = make_spec(rng, 0, 4., 2, n_fits=1, with_fluxes=False, name='lonely source')
for kwargs in ({'chi': 5.}, {'chi': 3.}, {'cpd': 2.5}, {'cpd': 1.5}):
    info = make_info(spec, metas[1])
    gp, bp = os.path.join(TMP, 'single_good'), os.path.join(TMP, 'single_bad')
    filter_output(info, output_good=gp, output_bad=bp, **kwargs)
    check_split('single %s' % kwargs, [spec], metas[1], gp, bp, **kwargs)
    check(record_matches(info, spec), "single FitInfo was modified")

# chi^2 values stored as a dimensionless Quantity (as returned by Fitter.fit),
# a file name that already contains _good and _bad, sources with equal names
# apart from white space / case, many fits per source, all points valid
specs = [make_spec(rng, i, best, n_data=6, n_fits=40, name=name)
         for i, (best, name) in enumerate([(14., 'a'), (2., 'A'), (20., 'a '), (3., ' a'),
                                           (13., 'b_good'), (1., 'b_bad'), (12.5, 'c')])]
meta = metas[0]
infos = [make_info(spec, meta) for spec in specs]
for info in infos:
    info.chi2 = info.chi2 * u.one
    info.av = info.av * u.one
path = os.path.join(TMP, 'run_good_bad_good.fitinfo')
fout = FitInfoFile(path, 'w')
for info in infos:
    fout.write(info)
fout.close()
for kwargs in ({'cpd': 2.2}, {'chi': 12.75}):
    filter_output(path, **kwargs)
    check_split('quantity %s' % kwargs, specs, meta, path + '_good', path + '_bad', **kwargs)
    for r in read_raw(path + '_good')[1] + read_raw(path + '_bad')[1]:
        check(isinstance(r.chi2, u.Quantity) and isinstance(r.av, u.Quantity) and r.chi2.unit == u.one,
              "Quantity-ness of chi2 / av was lost")

# the outputs of filter_output are themselves valid inputs (for the library
# reader and for filter_output): filter the good file again, more strictly
good_specs = [spec for spec in specs if expected_good(spec, chi=12.75)]
filter_output(path + '_good', chi=2.5)
check_split('second level', good_specs, meta, path + '_good_good', path + '_good_bad', chi=2.5)
fin = FitInfoFile(path + '_good_bad', 'r')
names = [info.source.name for info in fin]
fin.close()
check(names == [spec['name'] for spec in good_specs if not expected_good(spec, chi=2.5)],
      "library reader disagrees on the second-level bad file")

# input files written with the historical pickle protocol (2) and with the
# most recent one are both accepted
specs = [make_spec(rng, i, best, n_data=2) for i, best in enumerate([5., 1., 7., 2., 9., 3., 8., 4., 6.])]
for protocol in (2, pickle.HIGHEST_PROTOCOL):
    path = os.path.join(TMP, 'protocol%i.fitinfo' % protocol)
    write_input_raw(path, specs, metas[1], protocol=protocol)
    filter_output(path, cpd=2.25)
    check_split('protocol %i' % protocol, specs, metas[1], path + '_good', path + '_bad', cpd=2.25)

# ---------------------------------------------------------------------------
# 5. refused inputs are still refused
# ---------------------------------------------------------------------------

infos = [make_info(spec, metas[1]) for spec in specs]
for args, kwargs, exc in (((infos,), {'chi': 3.}, ValueError),
                          ((infos, os.path.join(TMP, 'g')), {'chi': 3.}, ValueError),
                          ((infos[0],), {'output_bad': os.path.join(TMP, 'b'), 'cpd': 3.}, ValueError),
                          ((os.path.join(TMP, 'does_not_exist.fitinfo'),), {'chi': 3.}, IOError),
                          ((12,), {'output_good': os.path.join(TMP, 'g'), 'output_bad': os.path.join(TMP, 'b'), 'chi': 3.}, TypeError)):
    try:
        filter_output(*args, **kwargs)
    except exc:
        check(True, '')
    else:
        check(False, "filter_output%s did not raise %s" % (args[1:], exc.__name__))

mixed = [make_info(specs[0], metas[1]), make_info(specs[1], metas[0])]
try:
    filter_output(mixed, os.path.join(TMP, 'g'), os.path.join(TMP, 'b'), chi=3.)
except ValueError:
    check(True, '')
else:
    check(False, "mismatching meta accepted")

# an exception raised while filtering (here: a record without any fit, for
# which there is no best chi^2) still propagates to the caller, and the
# library can be used normally afterwards on the same objects
infos = [make_info(spec, metas[1]) for spec in specs]
broken = make_info(specs[2], metas[1])
broken.keep(('N', 0))
gp, bp = os.path.join(TMP, 'broken_good'), os.path.join(TMP, 'broken_bad')
try:
    filter_output(infos[:2] + [broken] + infos[3:], gp, bp, chi=4.5)
except IndexError:
    check(True, '')
else:
    check(False, "record without fits did not raise IndexError")
filter_output(infos, gp, bp, chi=4.5)
check_split('after failure', specs, metas[1], gp, bp, chi=4.5)

# files can be closed more than once, and reading a closed file is refused
path = os.path.join(TMP, 'closing.fitinfo')
write_input_lib(path, specs, metas[1])
fin = FitInfoFile(path, 'r')
first = next(iter(fin))
check(record_matches(first, specs[0]), "first record read back differently")
fin.close()
fin.close()
try:
    list(fin)
except ValueError:
    check(True, '')
else:
    check(False, "reading from a closed FitInfoFile did not raise ValueError")

# an unreadable input file is refused with the same kind of exception as
# before, and no output file is created for it
path = os.path.join(TMP, 'garbage.fitinfo')
with open(path, 'wb') as f:
    f.write(b'')
try:
    filter_output(path, chi=3.)
except EOFError:
    check(True, '')
else:
    check(False, "empty input file did not raise EOFError")
check(not os.path.exists(path + '_good') and not os.path.exists(path + '_bad'),
      "output files created for an unreadable input file")

shutil.rmtree(TMP, ignore_errors=True)
print("C18 demo: all %i checks passed" % N_CHECKS[0])
