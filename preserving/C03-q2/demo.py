import sys, os; sys.path.insert(0, os.getcwd())

# Demonstration for property C03 ("data flags mean what the data-format page
# says").  Self-contained: drives sedfitter.models.Models / Source /
# fitting_routines directly and compares with an independent per-model
# reference (np.linalg.lstsq + explicit python loops).
#
# Run as:  cd /tmp/wtQ_C03 && /venv/bin/python _out/q<i>/demo.py

import io
import math
import pickle
import copy
import itertools
import collections
import warnings
import contextlib

import numpy as np

warnings.simplefilter('ignore')

from astropy import units as u

import sedfitter
assert os.path.dirname(os.path.abspath(sedfitter.__file__)) == os.path.join(os.getcwd(), 'sedfitter'), sedfitter.__file__

from sedfitter.models import Models
from sedfitter.source import Source
from sedfitter import fitting_routines as fr

LN10 = math.log(10.)
FLAGS = (0, 1, 2, 3, 4, 9)
GARBAGE = [np.nan, -999., 0., np.inf, -np.inf, 1.e300, -1.e-300, 3.7]

N_MODELS = 7
N_DIST = 3
AV_MIN, AV_MAX = 0., 4.

n_checked = {'ref': 0, 'ignored': 0, 'conf0': 0, 'conf1': 0, 'flag4': 0, 'repeat': 0}


def check(cond, msg):
    if not cond:
        print("FAILED:", msg)
        sys.exit(1)


# ----------------------------------------------------------------------------
# Building blocks
# ----------------------------------------------------------------------------

def make_models(rng, n_wav, aperture_dependent):
    m = Models()
    m.names = np.array(['model_%02i' % i for i in range(N_MODELS)])
    m.wavelengths = np.sort(rng.uniform(0.5, 100., n_wav)) * u.micron
    if aperture_dependent:
        m.distances = np.logspace(-0.3, 0.4, N_DIST) * u.kpc
        m.logd = np.log10(m.distances.to(u.kpc).value)
        base = 10. ** rng.uniform(-1., 3., (N_MODELS, 1, n_wav))
        wiggle = 10. ** rng.uniform(-0.2, 0.2, (N_MODELS, N_DIST, n_wav))
        fl = base * wiggle / (m.distances.value ** 2)[None, :, None]
        m.fluxes = fl * u.mJy
    else:
        m.fluxes = 10. ** rng.uniform(-1., 3., (N_MODELS, n_wav)) * u.mJy
    return m


def make_source(valid, flux, error, form='array'):
    s = Source()
    s.name = 'src'
    s.x = 1.5
    s.y = -2.5
    if form == 'array':
        s.valid = np.array(valid, dtype=int)
        s.flux = np.array(flux, dtype=float)
        s.error = np.array(error, dtype=float)
    elif form == 'list':
        s.valid = [int(v) for v in valid]
        s.flux = [float(v) for v in flux]
        s.error = [float(v) for v in error]
    elif form == 'tuple_floatflags':
        s.valid = np.array(valid, dtype=float)
        s.flux = tuple(float(v) for v in flux)
        s.error = tuple(float(v) for v in error)
    elif form == 'pickle':
        s.valid = np.array(valid, dtype=int)
        s.flux = np.array(flux, dtype=float)
        s.error = np.array(error, dtype=float)
        s = pickle.loads(pickle.dumps(s, 2))
    elif form == 'ascii':
        # the documented one-line data format, parsed by the library
        cols = ['src', '1.5', '-2.5'] + ['%i' % int(v) for v in valid]
        for f, e in zip(flux, error):
            cols += [repr(float(f)), repr(float(e))]
        s = Source.from_ascii('  '.join(cols) + '\n')
        assert np.array_equal(s.flux, np.array(flux, dtype=float), equal_nan=True)
    elif form == 'ascii_bytes':
        cols = ['src', '1.5', '-2.5'] + ['%i' % int(v) for v in valid]
        for f, e in zip(flux, error):
            cols += [repr(float(f)), repr(float(e))]
        s = Source.from_ascii(('  '.join(cols) + '\n').encode('ascii'))
    elif form == 'deque':
        s.valid = collections.deque(int(v) for v in valid)
        s.flux = collections.deque(float(v) for v in flux)
        s.error = collections.deque(float(v) for v in error)
    elif form == 'namedtuple':
        nt = collections.namedtuple('Phot', ['b%i' % i for i in range(len(valid))])
        s.valid = nt(*[int(v) for v in valid])
        s.flux = nt(*[float(v) for v in flux])
        s.error = nt(*[float(v) for v in error])
    elif form == 'array_interface':
        s.valid = ArrayLike(np.array(valid, dtype=int))
        s.flux = ArrayLike(np.array(flux, dtype=float))
        s.error = ArrayLike(np.array(error, dtype=float))
    elif form == 'dict':
        s = Source.from_dict({'name': 'src', 'x': 1.5, 'y': -2.5, 'valid': np.array(valid, dtype=int),
                              'flux': np.array(flux, dtype=float), 'error': np.array(error, dtype=float)})
    else:
        raise ValueError(form)
    return s


class ArrayLike(object):
    """Something like a pandas Series: not a sequence type numpy knows, but implements __array__"""
    def __init__(self, data):
        self._data = data
    def __array__(self, dtype=None, copy=None):
        return self._data if dtype is None else self._data.astype(dtype)


# Input forms that only a more lenient version of the library accepts (a
# TypeError is then fine; but if they are accepted, they must give the same
# fits as plain arrays)
OPTIONAL_FORMS = ('ascii_bytes', 'deque', 'namedtuple', 'array_interface')
optional_accepted = {}


def random_photometry(rng, flags, conf_mode):
    """conf_mode: 'mixed', 'zero', 'one'"""
    n = len(flags)
    flux = np.zeros(n)
    error = np.zeros(n)
    for j, v in enumerate(flags):
        f = 10. ** rng.uniform(-0.5, 2.5)
        if v in (1, 9):
            flux[j] = f
            error[j] = f * rng.uniform(0.03, 0.3)
        elif v in (2, 3):
            flux[j] = f
            if conf_mode == 'zero':
                error[j] = 0.
            elif conf_mode == 'one':
                error[j] = 1.
            else:
                error[j] = [0., 1., rng.uniform(0.01, 0.99), rng.uniform(0.01, 0.99)][rng.integers(4)]
        elif v == 4:
            flux[j] = np.log10(f)
            error[j] = rng.uniform(0.02, 0.15)
        else:  # 0
            flux[j] = f
            error[j] = f * 0.1
    return flux, error


DUMP = []


def lib_fit(models, source, av_law, sc_law):
    with contextlib.redirect_stdout(io.StringIO()):
        info = models.fit(source, av_law, sc_law, AV_MIN, AV_MAX)
    if len(sys.argv) > 1:
        DUMP.append([np.asarray(getattr(info, k)) for k in ('av', 'sc', 'chi2', 'model_id', 'model_name', 'model_fluxes')])
    order = np.asarray(info.model_id)
    out = {}
    for key in ('av', 'sc', 'chi2'):
        srt = np.asarray(getattr(info, key), float)
        uns = np.empty_like(srt)
        uns[order] = srt
        out[key] = uns
        out[key + '_sorted'] = srt
    out['order'] = order
    out['names'] = np.asarray(info.model_name)
    out['n_data'] = int(source.n_data)
    mf = np.asarray(info.model_fluxes, float)
    out['model_fluxes'] = mf
    return out


def same_fit(a, b):
    for key in ('av_sorted', 'sc_sorted', 'chi2_sorted', 'order', 'model_fluxes'):
        if not np.array_equal(a[key], b[key], equal_nan=True):
            return False
    return bool(np.all(a['names'] == b['names'])) and a['n_data'] == b['n_data']


# ----------------------------------------------------------------------------
# Independent reference
# ----------------------------------------------------------------------------

def ref_log(valid, flux, error):
    n = len(valid)
    w = np.zeros(n)
    lf = np.zeros(n)
    conf = np.zeros(n)
    for j in range(n):
        v = int(valid[j])
        if v == 1:
            lf[j] = math.log10(flux[j]) - 0.5 * (error[j] / flux[j]) ** 2 / LN10
            le = abs(error[j] / flux[j]) / LN10
            w[j] = 1. / le ** 2
        elif v == 4:
            lf[j] = flux[j]
            w[j] = 1. / error[j] ** 2
        elif v in (2, 3):
            lf[j] = math.log10(flux[j])
            conf[j] = error[j]
    return w, lf, conf


def ref_one(valid, w, lf, conf, logm, A, S, free_scale):
    n = len(valid)
    used = [j for j in range(n) if valid[j] in (1, 4)]
    r = lf - logm
    if free_scale:
        if len(used) < 2:
            return None
        sw = np.sqrt(w[used])
        X = np.column_stack([A[used], S[used]]) * sw[:, None]
        av, sc = np.linalg.lstsq(X, r[used] * sw, rcond=None)[0]
        if av < AV_MIN or av > AV_MAX:
            av = min(max(av, AV_MIN), AV_MAX)
            sc = sum(w[j] * (r[j] - av * A[j]) * S[j] for j in used) / sum(w[j] * S[j] ** 2 for j in used)
        pred = av * A + sc * S
    else:
        if len(used) < 1:
            return None
        av = sum(w[j] * r[j] * A[j] for j in used) / sum(w[j] * A[j] ** 2 for j in used)
        av = min(max(av, AV_MIN), AV_MAX)
        sc = np.nan
        pred = av * A
    chi2 = math.fsum(w[j] * (r[j] - pred[j]) ** 2 for j in used)
    margin = np.inf
    violated_any = False
    for j in range(n):
        if valid[j] in (2, 3):
            d = pred[j] - r[j]
            margin = min(margin, abs(d))
            bad = d < 0 if valid[j] == 2 else d > 0
            if bad:
                violated_any = True
                chi2 += 1.e30 if conf[j] >= 1. else -2. * math.log(1. - conf[j])
    return av, sc, chi2, margin, violated_any


def ref_fit(models, valid, flux, error, A, S):
    """Returns list (one per model) of None (undetermined) or
    (av, sc, chi2, safe, violated_any)."""
    A = np.asarray(A, float)
    S = np.asarray(S, float)
    w, lf, conf = ref_log(valid, flux, error)
    logm = np.log10(models.fluxes.to(u.mJy).value.astype(float))
    results = []
    for i in range(logm.shape[0]):
        if logm.ndim == 2:
            res = ref_one(valid, w, lf, conf, logm[i], A, S, True)
            if res is None:
                results.append(None)
            else:
                av, sc, chi2, margin, viol = res
                results.append((av, sc, chi2, margin > 1e-7, viol))
        else:
            per_d = [ref_one(valid, w, lf, conf, logm[i, k], A, S, False) for k in range(logm.shape[1])]
            if per_d[0] is None:
                results.append(None)
                continue
            chi = np.array([p[2] for p in per_d])
            k = int(np.argmin(chi))
            others = np.delete(chi, k)
            unique = bool(np.all(others > chi[k] * (1 + 1e-7) + 1e-9))
            safe = unique and all(p[3] > 1e-7 for p in per_d)
            results.append((per_d[k][0], models.logd[k], chi[k], safe, per_d[k][4]))
    return results


def compare_with_ref(tag, lib, ref):
    for i, res in enumerate(ref):
        if res is None:
            continue
        av, sc, chi2, safe, viol = res
        if not safe:
            continue
        if chi2 >= 1.e30:
            check(lib['chi2'][i] >= 1.e30, "%s: model %i should have chi2>=1e30, has %r" % (tag, i, lib['chi2'][i]))
        else:
            check(np.isclose(lib['chi2'][i], chi2, rtol=1e-6, atol=1e-7), "%s: chi2 model %i: %r vs %r" % (tag, i, lib['chi2'][i], chi2))
        check(np.isclose(lib['av'][i], av, rtol=1e-6, atol=1e-7), "%s: av model %i: %r vs %r" % (tag, i, lib['av'][i], av))
        check(np.isclose(lib['sc'][i], sc, rtol=1e-6, atol=1e-7), "%s: sc model %i: %r vs %r" % (tag, i, lib['sc'][i], sc))
        n_checked['ref'] += 1


# ----------------------------------------------------------------------------
# The property, for one flag vector
# ----------------------------------------------------------------------------

def check_flag_vector(rng, models, flags, A, S, form='array'):
    flags = list(flags)
    n = len(flags)
    tag = "flags=%s ndim=%i" % (flags, models.fluxes.ndim)

    flux, error = random_photometry(rng, flags, 'mixed')
    src = make_source(flags, flux, error, form)
    keep = (np.array(src.valid).copy(), np.array(src.flux).copy(), np.array(src.error).copy())
    base = lib_fit(models, src, A, S)

    determined = sum(1 for v in flags if v in (1, 4)) >= (2 if models.fluxes.ndim == 2 else 1)

    # alternative input forms give the same fit as plain arrays
    if form == 'array' and rng.uniform() < 0.15:
        for alt in ('ascii', 'dict', 'pickle') + OPTIONAL_FORMS:
            try:
                alt_src = make_source(flags, flux, error, alt)
            except TypeError:
                check(alt in OPTIONAL_FORMS, tag + ": form %s refused" % alt)
                optional_accepted[alt] = False
                continue
            optional_accepted.setdefault(alt, True)
            check(alt_src == src and src == alt_src, tag + ": form %s gives a different source" % alt)
            check(same_fit(base, lib_fit(models, alt_src, A, S)), tag + ": form %s gives a different fit" % alt)
            n_checked['forms'] = n_checked.get('forms', 0) + 1

    # get_log_fluxes against the data-format page
    w_lib, lf_lib, le_lib = src.get_log_fluxes()
    w_ref, lf_ref, conf_ref = ref_log(flags, flux, error)
    for j, v in enumerate(flags):
        if v in (0, 2, 3, 9):
            check(w_lib[j] == 0., tag + ": non-zero weight for flag %i" % v)
        else:
            check(np.isclose(w_lib[j], w_ref[j], rtol=1e-12), tag + ": weight")
        if v in (1, 2, 3, 4):
            check(np.isclose(lf_lib[j], lf_ref[j], rtol=1e-12, atol=1e-15), tag + ": log flux")
        if v in (2, 3):
            check(le_lib[j] == error[j], tag + ": confidence not passed through")
    for arr in (w_lib, lf_lib, le_lib):
        check(type(arr) is np.ndarray and arr.dtype == np.float64 and arr.shape == (n,), tag + ": get_log_fluxes array type")

    # n_data counts 1 and 4 only
    check(base['n_data'] == sum(1 for v in flags if v in (1, 4)), tag + ": n_data")

    # independent computation
    compare_with_ref(tag + " base", base, ref_fit(models, flags, flux, error, A, S))

    # second call on the very same objects: same answer, inputs untouched
    again = lib_fit(models, src, A, S)
    check(same_fit(base, again), tag + ": second call on the same objects differs")
    check(np.array_equal(keep[0], src.valid) and np.array_equal(keep[1], src.flux, equal_nan=True)
          and np.array_equal(keep[2], src.error, equal_nan=True), tag + ": source was modified by fit")
    n_checked['repeat'] += 1

    # (1) flags 0 and 9: whatever values they carry
    if any(v in (0, 9) for v in flags):
        for trial in range(2):
            f2, e2 = flux.copy(), error.copy()
            for j, v in enumerate(flags):
                if v in (0, 9):
                    f2[j] = GARBAGE[rng.integers(len(GARBAGE))]
                    e2[j] = GARBAGE[rng.integers(len(GARBAGE))]
            other = lib_fit(models, make_source(flags, f2, e2, form), A, S)
            check(same_fit(base, other), tag + ": ignored content changed the fit (%s / %s)" % (f2, e2))
            n_checked['ignored'] += 1

    if any(v in (2, 3) for v in flags):

        # (2a) confidence 0 is equivalent to flag 0
        e0 = error.copy()
        fl0 = list(flags)
        for j, v in enumerate(flags):
            if v in (2, 3):
                e0[j] = 0.
                fl0[j] = 0
        with_conf0 = lib_fit(models, make_source(flags, flux, e0, form), A, S)
        with_flag0 = lib_fit(models, make_source(fl0, flux, e0, form), A, S)
        # (when the fit is under-determined everything is NaN and NaN * 0
        # weights make the comparison meaningless, so only determined fits)
        if determined:
            check(same_fit(with_conf0, with_flag0), tag + ": confidence 0 differs from flag 0")
        compare_with_ref(tag + " conf0", with_conf0, ref_fit(models, fl0, flux, e0, A, S))
        n_checked['conf0'] += 1

        # (2b) confidence 1: violating <=> chi2 >= 1e30; limits never enter the solution
        e1 = error.copy()
        for j, v in enumerate(flags):
            if v in (2, 3):
                e1[j] = 1.
        with_conf1 = lib_fit(models, make_source(flags, flux, e1, form), A, S)
        ref1 = ref_fit(models, flags, flux, e1, A, S)
        compare_with_ref(tag + " conf1", with_conf1, ref1)
        if models.fluxes.ndim == 2:
            # av and sc do not depend on the limits at all
            check(np.array_equal(with_conf1['av'], with_flag0['av'], equal_nan=True) and
                  np.array_equal(with_conf1['sc'], with_flag0['sc'], equal_nan=True),
                  tag + ": limits entered the least-squares solution")
            for i, res in enumerate(ref1):
                if res is not None and res[3]:
                    if res[4]:
                        check(with_conf1['chi2'][i] >= 1.e30, tag + ": violating model below 1e30")
                    else:
                        check(with_conf1['chi2'][i] == with_flag0['chi2'][i], tag + ": non-violating model penalised")
        n_checked['conf1'] += 1

    # (3) flag 4 carrying the transformed values of a flag-1 point
    if 1 in flags:
        f4, e4, fl4 = flux.copy(), error.copy(), list(flags)
        for j, v in enumerate(flags):
            if v == 1:
                f4[j] = np.log10(flux[j]) - 0.5 * (error[j] / flux[j]) ** 2 / np.log(10.)
                e4[j] = np.abs(error[j] / flux[j]) / np.log(10.)
                fl4[j] = 4
        as4 = lib_fit(models, make_source(fl4, f4, e4, form), A, S)
        check(same_fit(base, as4), tag + ": flag 4 with transformed values differs from flag 1")
        n_checked['flag4'] += 1


# ----------------------------------------------------------------------------
# Direct checks of chi_squared (boundary: model exactly on the limit)
# ----------------------------------------------------------------------------

def ref_chi_squared(valid, data, error, weight, model):
    out = np.zeros(data.shape[:-1])
    for idx in np.ndindex(*data.shape[:-1]):
        tot = 0.
        for j in range(len(valid)):
            d, m = data[idx + (j,)], model[idx + (j,)]
            v = valid[j]
            if v == 0:
                c = 0.
            elif v == 2 and m < d:
                c = np.inf if error[j] == 1 else -2. * math.log(1. - error[j])
            elif v == 3 and m > d:
                c = np.inf if error[j] == 1 else -2. * math.log(1. - error[j])
            else:
                c = (d - m) ** 2 * weight[j]
            if np.isinf(c):
                c = 1.e30
            tot += c
        out[idx] = tot
    return out


def check_chi_squared_direct(rng):
    for shape in [(5,), (4, 3)]:
        for flags in [(1, 2, 3, 4, 0, 9), (2, 2, 3, 3, 1, 1), (3, 2, 9, 0, 4, 1), (0, 0, 0, 0, 0, 0)]:
            valid = np.array(flags)
            n = len(valid)
            data = rng.normal(size=shape + (n,))
            model = rng.normal(size=shape + (n,))
            # boundary: model exactly on the limit -> not violated
            model[..., 0, :] = data[..., 0, :]
            error = np.array([0., 1., 0.5, 0.25, 0.999999, 1e-12])[rng.permutation(6)]
            # (non-zero weights everywhere: the flag-0 zeroing must not rely on the weight)
            weight = np.where((valid == 2) | (valid == 3), 0., rng.uniform(1., 50., n))
            d0, m0, e0, w0 = data.copy(), model.copy(), error.copy(), weight.copy()
            got = fr.chi_squared(valid, data, error, weight, model)
            exp = ref_chi_squared(valid, data, error, weight, model)
            check(got.shape == exp.shape, "chi_squared shape")
            check(np.allclose(got, exp, rtol=1e-10, atol=1e-12), "chi_squared direct: %r vs %r" % (got, exp))
            check(np.all((got >= 1e30) == (exp >= 1e30)), "chi_squared 1e30 pattern")
            check(np.array_equal(d0, data) and np.array_equal(m0, model) and np.array_equal(e0, error)
                  and np.array_equal(w0, weight), "chi_squared modified its inputs")
            got2 = fr.chi_squared(valid, data, error, weight, model)
            check(np.array_equal(got, got2), "chi_squared second call differs")
    try:
        fr.chi_squared(np.array([1, 1]), np.zeros(2), np.ones(2), np.ones(2), np.zeros(2))
    except Exception as exc:
        check("unexpected number of dimensions" in str(exc), "chi_squared 1-d message: %s" % exc)
    else:
        check(False, "chi_squared accepted 1-d input")


# ----------------------------------------------------------------------------
# Interface of Source: what was refused is still refused (same exception
# classes and messages), what worked still works
# ----------------------------------------------------------------------------

def expect(exc_class, message, func):
    try:
        func()
    except Exception as exc:
        check(isinstance(exc, exc_class), "expected %s, got %r" % (exc_class.__name__, exc))
        if message is not None:
            check(exc.args[0] == message, "expected message %r, got %r" % (message, exc.args[0]))
    else:
        check(False, "expected %s (%s), nothing raised" % (exc_class.__name__, message))


def check_source_interface():

    for attribute in ('valid', 'flux', 'error'):
        for bad in (1, 1., 'a', b'abc', object(), np.float64(3.), np.zeros((2, 2)), np.array(1.), [[1, 2], [3, 4]],
                    {'a': 1}, {1, 2}):
            expect(TypeError, '%s should be a 1-d sequence' % attribute, lambda: setattr(Source(), attribute, bad))
        for other in ('valid', 'flux', 'error'):
            if other != attribute:
                s = Source()
                setattr(s, attribute, [1, 2, 3])
                expect(ValueError, "%s has incorrect length (expected 3 but found 4)" % other,
                       lambda: setattr(s, other, [1, 2, 3, 4]))
                setattr(s, other, np.array([1, 2, 3]))
        # a refused value leaves the old one in place
        s = Source()
        arr = np.array([1., 2., 3.])
        setattr(s, attribute, arr)
        check(getattr(s, attribute) is arr, "array not stored as given")
        expect(TypeError, None, lambda: setattr(s, attribute, 5))
        check(getattr(s, attribute) is arr, "refused value replaced the stored one")
        setattr(s, attribute, None)
        check(getattr(s, attribute) is None and s.n_wav is None, "reset to None")

    expect(ValueError, "valid values should be integers", lambda: setattr(Source(), 'valid', [1., 2.3, 4.]))
    for bad in ([-1, 2, 3], [1, 5], [1, 8], [10], np.array([1., 7.])):
        expect(ValueError, "valid values should be in the range [0:4] or set to 9", lambda: setattr(Source(), 'valid', bad))
    for bad in (1, 1., object(), np.array([1, 2, 3])):
        expect(TypeError, 'name should be a string', lambda: setattr(Source(), 'name', bad))
    for bad in ('a', object(), np.array([1, 2, 3]), [1.], 1 + 2j):
        expect(TypeError, 'x should be a scalar floating point value', lambda: setattr(Source(), 'x', bad))
        expect(TypeError, 'y should be a scalar floating point value', lambda: setattr(Source(), 'y', bad))

    # incomplete sources cannot be converted
    s = Source()
    expect(AttributeError, None, s.get_log_fluxes)
    s.valid = [1, 1]
    s.flux = [1., 2.]
    expect(AttributeError, None, s.get_log_fluxes)
    expect(AttributeError, None, lambda: str(s))
    s.error = (0.1, 0.2)
    check(len(s.get_log_fluxes()) == 3 and s.n_wav == 2 and s.n_data == 2, "complete source")
    check(isinstance(str(s), str) and str(s).startswith("Source name : "), "str")
    check(isinstance(repr(s), str), "repr")

    # end of file for the data reader; state and dict round trips
    expect(EOFError, None, lambda: Source.from_ascii(''))
    expect(EOFError, None, lambda: Source.from_ascii('name 1.0\n'))
    expect(KeyError, None, lambda: Source.from_dict({'name': 'a', 'x': 1., 'y': 2., 'valid': [1], 'flux': [1.]}))
    d = s.to_dict()
    check(sorted(d) == ['error', 'flux', 'name', 'valid', 'x', 'y'] and d['flux'] is s.flux, "to_dict")
    check(sorted(s.__getstate__()) == sorted(d) and s.__getstate__()['valid'] is s.valid, "__getstate__")
    check(Source.from_dict(d) == s and pickle.loads(pickle.dumps(s)) == s and copy.copy(s) == s and
          copy.deepcopy(s) == s, "round trips")
    s.name = 'abc'
    line = s.to_ascii()
    check(Source.from_ascii(line) == s and Source.from_ascii(line).to_ascii() == line, "ascii round trip")


# ----------------------------------------------------------------------------
# Main
# ----------------------------------------------------------------------------

def main():
    rng = np.random.default_rng(12345)

    check_chi_squared_direct(rng)
    check_source_interface()

    for n in (1, 2, 3, 4, 5):
        all_flags = list(itertools.product(FLAGS, repeat=n))
        if n >= 4:
            pick = rng.choice(len(all_flags), size=260 if n == 4 else 320, replace=False)
            all_flags = [all_flags[i] for i in sorted(pick)]
        for aperture_dependent in (False, True):
            models = make_models(rng, n, aperture_dependent)
            A = -rng.uniform(0.05, 1.5, n)
            S = -2. * np.ones(n)
            for k, flags in enumerate(all_flags):
                form = ['array', 'list', 'tuple_floatflags', 'pickle'][k % 4] if k % 5 == 0 else 'array'
                if k % 7 == 3:
                    # as passed by Fitter: dimensionless Quantities
                    check_flag_vector(rng, models, flags, A * u.one, S * u.one, form)
                else:
                    check_flag_vector(rng, models, flags, A, S, form)

    for key, val in n_checked.items():
        check(val > 0, "no checks of kind " + key)
    print("checks done:", n_checked)
    print("optional input forms accepted:", optional_accepted)
    if len(sys.argv) > 1:
        # optional: dump every library result (used to compare two versions of the library bit by bit)
        with open(sys.argv[1], 'wb') as fh:
            pickle.dump(DUMP, fh)
    print("OK")


if __name__ == '__main__':
    main()
