import sys, os; sys.path.insert(0, os.getcwd())

# Demonstration for property C05 (selection tuples keep exactly the fits the
# syntax page promises).  The expected result is computed by a pure-Python
# oracle (math module, explicit loops), never by the library.

import io
import itertools
import math
import pickle
import tempfile
import warnings

import numpy as np

warnings.simplefilter('ignore')

import sedfitter
assert os.path.dirname(os.path.abspath(sedfitter.__file__)) == os.path.join(os.getcwd(), 'sedfitter'), sedfitter.__file__

from sedfitter.fit_info import FitInfo, FitInfoFile
from sedfitter.source import Source

INF = float('inf')
NAN = float('nan')

N_CHECKS = 0


def check(cond, *msg):
    global N_CHECKS
    N_CHECKS += 1
    if not cond:
        print("FAIL:", *msg)
        sys.exit(1)


# ---------------------------------------------------------------- oracle

def oracle_n_data(flags):
    n = 0
    for f in flags:
        if int(f) == 1 or int(f) == 4:
            n += 1
    return n


def py_div(a, n):
    if n != 0:
        return a / n
    if a != a or a == 0:
        return NAN
    return math.copysign(INF, a)


def oracle_stat(form, ranked, n_data):
    best = ranked[0]
    out = []
    for c in ranked:
        if form == 'C':
            s = c
        elif form == 'D':
            s = c - best
        elif form == 'E':
            s = py_div(c, n_data)
        elif form == 'F':
            s = py_div(c - best, n_data)
        out.append(s)
    return out


GUARD = [1e-5]


def oracle_count(selector, ranked, n_data):
    """Number of fits to keep; None if the threshold is (nearly) attained"""
    form, value = selector[0], selector[1]
    total = len(ranked)
    if total == 0:
        return 0
    if form == 'A':
        return total
    if form == 'N':
        return min(int(value), total)
    stats = oracle_stat(form, ranked, n_data)
    v = float(value)
    flags = []
    for s in stats:
        if s == s and not math.isinf(s) and abs(s - v) <= GUARD[0] * max(1., abs(v)):
            return None  # outside the quantifier (threshold attained)
        flags.append(s < v)
    k = sum(flags)
    # the fits below the threshold have to be a prefix of the ranking
    assert flags == [True] * k + [False] * (total - k), (selector, ranked)
    return k


def oracle_rank(chi2):
    # stable ranking, NaN last
    return sorted(range(len(chi2)), key=lambda i: (chi2[i] != chi2[i], chi2[i] if chi2[i] == chi2[i] else 0.))


# ------------------------------------------------------------- factories

def make_source(flags):
    s = Source()
    s.name = 'src'
    s.x = 1.
    s.y = 2.
    s.valid = np.array(flags, dtype=int)
    s.flux = np.linspace(1., 2., len(flags))
    s.error = np.full(len(flags), 0.1)
    return s


def make_info(chi2, source, dtype=float, fluxes=True, wrap=None):
    n = len(chi2)
    info = FitInfo(source)
    info.chi2 = np.array(chi2, dtype=dtype)
    if wrap is not None:
        info.chi2 = wrap(info.chi2)
    info.av = 100. + np.arange(n, dtype=float)
    info.sc = 200. + np.arange(n, dtype=float)
    info.model_name = np.array(['m%05i' % i for i in range(n)], dtype='U10')
    if fluxes:
        info.model_fluxes = 1000. * np.arange(n, dtype=float)[:, np.newaxis] + np.arange(3, dtype=float)[np.newaxis, :]
    info.meta.model_dir = 'dir'
    info.meta.filters = ['a', 'b', 'c']
    info.meta.extinction_law = 'law'
    info.sort()
    return info


def clone(info):
    new = FitInfo(info.source)
    for key in ('av', 'sc', 'chi2', 'model_name', 'model_fluxes', 'model_id'):
        setattr(new, key, getattr(info, key))
    new.meta = info.meta
    return new


def snapshot(info):
    return dict(av=np.array(info.av, dtype=float), sc=np.array(info.sc, dtype=float),
                chi2=np.array(info.chi2, dtype=float), model_name=np.array(info.model_name),
                model_fluxes=None if info.model_fluxes is None else np.array(info.model_fluxes, dtype=float),
                model_id=np.array(info.model_id))


def same(a, b):
    if a is None or b is None:
        return a is None and b is None
    a = np.asarray(a)
    b = np.asarray(b)
    if a.shape != b.shape:
        return False
    if a.dtype.kind in 'fc':
        return bool(np.array_equal(a, b, equal_nan=True))
    return bool(np.array_equal(a, b))


def check_cut(info, before, k, label):
    check(info.n_fits == k, label, 'n_fits', info.n_fits, 'expected', k)
    now = snapshot(info)
    for key in before:
        if before[key] is None:
            check(now[key] is None, label, key, 'should stay None')
        else:
            check(len(now[key]) == k, label, key, 'length', len(now[key]), 'expected', k)
            check(same(now[key], before[key][:k]), label, key, 'is not the prefix of the ranking')
    check(isinstance(info.chi2, np.ndarray), label, 'chi2 no longer an array')
    if now['model_fluxes'] is not None:
        check(now['model_fluxes'].shape == (k, 3), label, 'model_fluxes shape', now['model_fluxes'].shape)


def check_ranked(info, chi2, label):
    """sort() must have produced the stable NaN-last ranking"""
    order = oracle_rank(list(chi2))
    got = np.array(info.chi2, dtype=float)
    exp = np.array([chi2[i] for i in order], dtype=float)
    check(same(got, exp), label, 'ranking of chi2', got, exp)
    # av carries the original index: ties may be ordered differently, but the
    # chi2 of the model sitting in each place must be the ranked one
    idx = (np.array(info.av, dtype=float) - 100.).astype(int)
    check(sorted(idx.tolist()) == list(range(len(chi2))), label, 'ranking is not a permutation')
    check(same(np.array([chi2[i] for i in idx], dtype=float), exp), label, 'av does not follow chi2')
    check(same(np.array(info.sc, dtype=float) - 200., idx.astype(float)), label, 'sc does not follow')
    check(same(np.array(info.model_id), idx), label, 'model_id does not follow')
    check([str(x) for x in info.model_name] == ['m%05i' % i for i in idx], label, 'model_name does not follow')
    if info.model_fluxes is not None:
        check(same(np.array(info.model_fluxes)[:, 0], 1000. * idx), label, 'model_fluxes do not follow')


# ------------------------------------------------------------ the checks

ALPHABET = [0., 1., 1., 2.5, INF, NAN]   # contains a tie
VALUES = sorted(set(x for x in ALPHABET if x == x), key=float)
FLAG_SETS = [[1, 4, 9, 0, 2, 3, 1], [1], [4, 4, 9, 9, 9, 1, 1, 1, 0, 2]]   # n_data = 3, 1, 5
THRESHOLDS = [-1., -0.3, 0.1, 0.3, 0.4, 0.6, 0.7, 0.9, 1.1, 1.3, 2., 2.7, 7., 1e308]
N_VALUES = [0, 1, 2, 3, 5, 6, 1000]

for flags in FLAG_SETS + [[0, 2, 3, 9]]:
    s = make_source(flags)
    check(int(s.n_data) == oracle_n_data(flags), 'n_data', flags, s.n_data)
    check(int(s.n_data) == oracle_n_data(flags), 'n_data second call')
# in-place change of a flag must be seen
s = make_source([1, 4, 9, 0])
check(int(s.n_data) == 2, 'n_data')
s.valid[2] = 1
check(int(s.n_data) == 3, 'n_data after in-place change of a flag')
s.valid = [9, 9, 4, 0]
check(int(s.n_data) == 1, 'n_data after valid given as a list')
s.valid = np.array([1., 4., 9., 2.])
check(int(s.n_data) == 2, 'n_data with float flags')


def selectors():
    yield ('A', None)
    yield ('A', 3)
    for n in N_VALUES:
        yield ('N', n)
    for form in 'CDEF':
        for v in THRESHOLDS:
            yield (form, v)


ALL_SELECTORS = list(selectors())

n_vectors = 0
for flags in FLAG_SETS:
    source = make_source(flags)
    n_data = oracle_n_data(flags)
    for length in range(0, 6):
        seen = set()
        for chi2 in itertools.product(ALPHABET, repeat=length):
            key = repr(chi2)
            if key in seen:
                continue
            seen.add(key)
            if flags is not FLAG_SETS[0] and length > 3:
                continue
            n_vectors += 1
            base = make_info(chi2, source, fluxes=(length % 2 == 0))
            if flags is FLAG_SETS[0]:
                check_ranked(base, chi2, ('rank', chi2))
            before = snapshot(base)
            ranked = [float(x) for x in before['chi2']]
            counts = {}
            for sel in ALL_SELECTORS:
                k = oracle_count(sel, ranked, n_data)
                if k is None:
                    continue
                counts[sel] = k
                info = clone(base)
                ret = info.keep(sel)
                check(ret is None, 'keep returns None')
                check_cut(info, before, k, (chi2, sel))
                # selecting twice
                info.keep(sel)
                check_cut(info, before, k, (chi2, sel, 'twice'))
            # looser selector first / compositions of two selectors: the
            # result must be the shorter of the two prefixes
            if length in (0, 2, 3) or (n_vectors % 7 == 0):
                sels = list(counts)
                off = n_vectors % 5
                for s1 in sels[off::5]:
                    for s2 in sels[(off + 2) % 6::6]:
                        info = clone(base)
                        info.keep(s2)
                        check_cut(info, before, counts[s2], (chi2, s2))
                        info.keep(s1)
                        check_cut(info, before, min(counts[s1], counts[s2]), (chi2, s2, 'then', s1))
print('exhaustive vectors:', n_vectors, 'checks so far:', N_CHECKS)

# random longer vectors
rng = np.random.RandomState(12345)
for it in range(150):
    length = int(rng.randint(6, 120))
    pool = np.concatenate([rng.uniform(0., 50., 8).round(3), [INF, NAN, 0.]])
    chi2 = [float(x) for x in rng.choice(pool, size=length)]
    flags = [int(x) for x in rng.choice([0, 1, 2, 3, 4, 9], size=int(rng.randint(1, 9)))]
    if oracle_n_data(flags) == 0:
        flags.append(4)
    source = make_source(flags)
    n_data = oracle_n_data(flags)
    check(int(source.n_data) == n_data, 'n_data random')
    base = make_info(chi2, source)
    check_ranked(base, chi2, 'random rank')
    before = snapshot(base)
    ranked = [float(x) for x in before['chi2']]
    sels = [('A', 0), ('N', int(rng.randint(0, 2 * length)))]
    for form in 'CDEF':
        for v in rng.uniform(-1., 60., 3):
            sels.append((form, float(v)))
    counts = {}
    for sel in sels:
        k = oracle_count(sel, ranked, n_data)
        if k is None:
            continue
        counts[sel] = k
        info = clone(base)
        info.keep(sel)
        check_cut(info, before, k, ('random', sel))
        info.keep(sel)
        check_cut(info, before, k, ('random twice', sel))
    for s1 in counts:
        for s2 in counts:
            info = clone(base)
            info.keep(s2)
            info.keep(s1)
            check_cut(info, before, min(counts[s1], counts[s2]), ('random', s2, 'then', s1))
print('random vectors done, checks so far:', N_CHECKS)

# ------------------------------------------------- unusual but legal forms

source = make_source(FLAG_SETS[0])
chi2 = [2.5, 0., INF, 1., NAN, 1., 7.25]
ref = make_info(chi2, source)
before = snapshot(ref)
ranked = [float(x) for x in before['chi2']]


def fresh(**kw):
    return make_info(chi2, source, **kw)


unusual = [
    (['N', 3], ('N', 3)),                       # list instead of tuple
    (('N', np.int64(2)), ('N', 2)),             # numpy scalars
    (('N', 2.0), ('N', 2)),
    (('N', '4'), ('N', 4)),
    (('', 3), ('N', 3)),                        # "form N parsed as a boolean"
    ((False, 2), ('N', 2)),
    (('C', np.float32(1.5)), ('C', 1.5)),
    (('D', np.array(2.75)), ('D', 2.75)),        # 0-d array
    (('E', np.float64(0.5)), ('E', 0.5)),
    ((np.str_('F'), 0.5), ('F', 0.5)),
    (iter(('C', 3)), ('C', 3)),                 # any iterable of two items
    (np.array(['E', 0.9], dtype=object), ('E', 0.9)),
    (('A', 'ignored'), ('A', None)),
]
for given, plain in unusual:
    k = oracle_count(plain, ranked, 3)
    info = fresh()
    info.keep(given)
    check_cut(info, before, k, ('unusual', plain))

# float32 chi2, dimensionless Quantity chi2, no model fluxes
from astropy import units as u
for kw in [dict(dtype=np.float32), dict(wrap=lambda x: x * u.one), dict(fluxes=False),
           dict(dtype=np.float32, wrap=lambda x: x * u.one)]:
    for sel in ALL_SELECTORS:
        k = oracle_count(sel, ranked, 3)
        if k is None:
            continue
        if kw.get('dtype') is np.float32 and sel[1] is not None and sel[1] > 1e38:
            continue  # not representable in single precision
        info = fresh(**kw)
        b = snapshot(info)
        info.keep(sel)
        check_cut(info, b, k, ('dtype', sorted(kw), sel))
        check(same(b['chi2'], before['chi2']), 'ranking differs')
        info.keep(sel)
        check_cut(info, b, k, ('dtype twice', sorted(kw), sel))

# boundaries: N = 0, N = total, N = total + 1; empty result; refused selectors
for n, k in [(0, 0), (7, 7), (8, 7)]:
    info = fresh()
    info.keep(('N', n))
    check_cut(info, before, k, ('N boundary', n))
empty = make_info([], source)
for sel in ALL_SELECTORS + [('Z', 1), ('', 2)]:
    empty.keep(sel)                       # nothing to select from: never refused
    check(empty.n_fits == 0, 'empty')
    check(empty.model_fluxes.shape == (0, 3), 'empty fluxes')
for bad in [('Z', 1), ('a', 1), ('NN', 1), ('n', 1)]:
    info = fresh()
    try:
        info.keep(bad)
    except Exception as exc:
        check('Unknown format' in str(exc), 'message of refusal', exc)
        check_cut(info, before, 7, ('refused selector leaves the fits alone', bad))
    else:
        check(False, 'selector should be refused', bad)
for bad in [('A',), ('N', 1, 2), ()]:
    info = fresh()
    try:
        info.keep(bad)
    except ValueError:
        check_cut(info, before, 7, ('refused selector leaves the fits alone', bad))
    else:
        check(False, 'selector should be refused', bad)
info = fresh()
try:
    info.keep(None)
except TypeError:
    pass
else:
    check(False, 'None should be refused')
# no source: A/N/C/D do not need one, E/F do
info = make_info(chi2, None)
info.keep(('D', 1.5))
check_cut(info, before, oracle_count(('D', 1.5), ranked, 3), 'no source')
try:
    info.keep(('E', 1.5))
except AttributeError:
    pass
else:
    check(False, 'E without source')

# through a file: FitInfoFile write / read, then keep (second read as well)
tmp = tempfile.mkdtemp()
path = os.path.join(tmp, 'fits.fitinfo')
fout = FitInfoFile(path, 'w')
for sel in [('A', 0), ('N', 5)]:
    info = fresh()
    info.keep(sel)
    fout.write(info)
fout.close()
for repeat in range(2):
    fin = FitInfoFile(path, 'r')
    infos = list(fin)
    fin.close()
    check(len(infos) == 2, 'two records')
    check_cut(infos[0], before, 7, 'file A')
    check_cut(infos[1], before, 5, 'file N')
    check(infos[0].source == source and int(infos[0].source.n_data) == 3, 'source in file')
    for sel in [('F', 0.4), ('E', 0.9), ('D', 0.5), ('C', 2.7)]:
        k = oracle_count(sel, ranked, 3)
        for i, first in [(0, 7), (1, 5)]:
            info = pickle.loads(pickle.dumps(infos[i], 2))
            info.keep(sel)
            check_cut(info, before, min(k, first), ('file', sel))
# list of FitInfo objects: iteration yields copies, the originals stay untouched
orig = fresh()
for info in FitInfoFile([orig]):
    info.keep(('N', 2))
    check_cut(info, before, 2, 'copy from list')
check_cut(orig, before, 7, 'original untouched')
os.remove(path)
os.rmdir(tmp)

# pickled state has exactly the historical keys
check(sorted(fresh().__getstate__()) == ['av', 'chi2', 'model_fluxes', 'model_id', 'model_name', 'sc', 'source'], 'state keys')
check(sorted(source.__getstate__()) == ['error', 'flux', 'name', 'valid', 'x', 'y'], 'source state keys')


# ---- single-precision chi^2 (what the fitter produces from single-precision
# model fluxes), values that are not "round" numbers.  The oracle works on
# the exact double-precision values of the single-precision numbers.
rng = np.random.RandomState(777)


class PyIntSource(Source):
    """n_data as a plain Python int (weakly typed for numpy)"""
    @property
    def n_data(self):
        return int(Source.n_data.fget(self))


for it in range(300):
    length = int(rng.randint(1, 60))
    dtype = [np.float32, np.float32, np.float16, np.float64][it % 4]
    pool = np.concatenate([rng.uniform(0., 30., 6), [INF, NAN, 0., 1e30 if dtype is not np.float16 else 6e4]]).astype(dtype)
    chi2 = rng.choice(pool, size=length)
    flags = [int(x) for x in rng.choice([0, 1, 2, 3, 4, 9], size=int(rng.randint(1, 9)))]
    n_data = oracle_n_data(flags)
    source = make_source(flags)
    if it % 3 == 0:
        source = PyIntSource.from_dict(source.to_dict())
        check(type(source.n_data) is int, 'PyIntSource')
    base = make_info([float(x) for x in chi2], source, dtype=dtype)
    check(base.chi2.dtype == dtype, 'dtype kept by sort')
    before = snapshot(base)
    ranked = [float(x) for x in before['chi2']]
    GUARD[0] = max(1e-5, 16 * float(np.finfo(dtype).eps))
    sels = [('A', 0), ('N', int(rng.randint(0, 2 * length)))]
    for form in 'CDEF':
        for v in list(rng.uniform(-1., 40., 3)) + [1e29, 3e30]:
            sels.append((form, float(v)))
    counts = {}
    for sel in sels:
        k = oracle_count(sel, ranked, n_data)
        if k is None:
            continue
        if dtype is np.float16 and sel[1] > 6e4:
            continue
        counts[sel] = k
        info = clone(base)
        info.keep(sel)
        check_cut(info, before, k, ('single', dtype.__name__, sel, flags))
        check(info.chi2.dtype == dtype and info.av.dtype == np.float64, 'dtype kept by keep')
        info.keep(sel)
        check_cut(info, before, k, ('single twice', sel))
    for s1 in counts:
        for s2 in counts:
            info = clone(base)
            info.keep(s2)
            info.keep(s1)
            check_cut(info, before, min(counts[s1], counts[s2]), ('single', s2, 'then', s1))

GUARD[0] = 1e-5

# no valid data point at all (n_data = 0): per-point statistics are inf / NaN
source0 = make_source([0, 2, 3, 9])
for dtype in (np.float64, np.float32):
    base = make_info(chi2=[3., 0., 1., INF, NAN], source=source0, dtype=dtype)
    before = snapshot(base)
    for sel, k in [(('E', 5.), 0), (('F', 5.), 0), (('E', -1.), 0), (('C', 2.), 2), (('D', 2.), 2), (('A', 0), 5)]:
        check(oracle_count(sel, [float(x) for x in before['chi2']], 0) == k, 'oracle n_data = 0')
        info = clone(base)
        info.keep(sel)
        check_cut(info, before, k, ('n_data = 0', sel))

# best fit not finite: nothing is within a finite distance of it
for chi2 in ([INF, INF, NAN], [NAN, NAN], [INF]):
    base = make_info(chi2, make_source([1, 4, 1]), dtype=np.float32)
    before = snapshot(base)
    for sel in [('D', 1e30), ('F', 1e30), ('C', 1e30), ('E', 1e30)]:
        info = clone(base)
        with warnings.catch_warnings(record=True) as w:
            warnings.simplefilter('always')
            info.keep(sel)
        check_cut(info, before, 0, ('no finite best fit', chi2, sel))
        print('   (informational) warnings raised by keep', sel, 'on', chi2, ':', len(w))

print('OK: %i checks' % N_CHECKS)
