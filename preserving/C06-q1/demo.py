import sys, os; sys.path.insert(0, os.getcwd())
"""
Demonstration for property C06 (broadband convolution is the binned integral
of F_nu * R_nu).  Independent oracle: exact rational arithmetic (fractions).

Run as:  cd /tmp/wtQ_C06 && /venv/bin/python _out/q<i>/demo.py
"""
import math
import random
import shutil
import tempfile
import pathlib
from fractions import Fraction as Fr

import numpy as np
from astropy import units as u
from astropy.io import fits
from astropy.table import Table

import sedfitter
assert os.path.dirname(os.path.abspath(sedfitter.__file__)) == os.path.join(os.getcwd(), 'sedfitter'), sedfitter.__file__

from sedfitter.filter import Filter
from sedfitter.sed import SED, SEDCube
from sedfitter.convolve import convolve_model_dir

C_LIGHT = 299792458.0
N_CHECKS = [0]


def ok(cond, msg):
    N_CHECKS[0] += 1
    if not cond:
        print("DEMO FAILURE:", msg)
        sys.exit(1)


def close(a, b, rtol, atol, msg):
    a = np.asarray(a, float)
    b = np.asarray(b, float)
    ok(a.shape == b.shape, msg + " (shape %s vs %s)" % (a.shape, b.shape))
    bad = np.abs(a - b) > atol + rtol * np.abs(b)
    ok(not np.any(bad), msg + " got %r expected %r" % (a[bad][:3] if a.ndim else a, b[bad][:3] if b.ndim else b))


# ---------------------------------------------------------------------------
# Independent oracle (exact)
# ---------------------------------------------------------------------------

def _exact_piece(fx, fy, lo, hi):
    """exact integral over [lo, hi] of the piecewise-linear curve (fx ascending)"""
    lo = max(lo, fx[0])
    hi = min(hi, fx[-1])
    if hi <= lo:
        return Fr(0)
    tot = Fr(0)
    for k in range(len(fx) - 1):
        a = max(lo, fx[k])
        b = min(hi, fx[k + 1])
        if b > a:
            s = (fy[k + 1] - fy[k]) / (fx[k + 1] - fx[k])
            ya = fy[k] + s * (a - fx[k])
            yb = fy[k] + s * (b - fx[k])
            tot += (b - a) * (ya + yb) / 2
    return tot


def exact_binned(filter_nu_hz, filter_resp, sed_nu_hz):
    """R_i for every SED frequency, and the filter integral over the overlap"""
    fx = [Fr(float(v)) for v in filter_nu_hz]
    fy = [Fr(float(v)) for v in filter_resp]
    if fx[-1] < fx[0]:
        fx, fy = fx[::-1], fy[::-1]
    sx = [Fr(float(v)) for v in sed_nu_hz]
    n = len(sx)
    out = []
    for i in range(n):
        e1 = sx[0] if i == 0 else (sx[i - 1] + sx[i]) / 2
        e2 = sx[-1] if i == n - 1 else (sx[i] + sx[i + 1]) / 2
        out.append(_exact_piece(fx, fy, min(e1, e2), max(e1, e2)))
    overlap = _exact_piece(fx, fy, min(sx), max(sx))
    full = _exact_piece(fx, fy, fx[0], fx[-1])
    return out, overlap, full


# ---------------------------------------------------------------------------
# Generators
# ---------------------------------------------------------------------------

def gen_nodes(rng, n, lo, hi):
    """n irregular strictly increasing values, first = lo, last = hi"""
    while True:
        inner = sorted(math.exp(rng.uniform(math.log(lo), math.log(hi))) for _ in range(n - 2))
        xs = [lo] + inner + [hi]
        if all(xs[i + 1] - xs[i] > 1e-5 * xs[i] for i in range(n - 1)):
            return xs


def gen_response(rng, n, zero_edges):
    r = [rng.choice([0.0, rng.random(), rng.random() * 1e-3, rng.random() * 7]) for _ in range(n)]
    if zero_edges:
        r[0] = r[-1] = 0.0
    else:
        r[0] = 0.1 + rng.random()
        r[-1] = 0.1 + rng.random()
    if n > 2 and sum(r) == r[0] + r[-1]:
        r[n // 2] = 1.0
    if sum(r) == 0:
        r[0] = 1.0  # 2-sample filter needs some area
    return r


def make_filter(nu_hz, resp, descending, name='FX', unit=u.Hz, wav=1.0):
    nu_hz = list(nu_hz)
    resp = list(resp)
    if descending:
        nu_hz, resp = nu_hz[::-1], resp[::-1]
    f = Filter()
    f.name = name
    f.central_wavelength = wav * u.micron
    f.nu = (np.array(nu_hz) * u.Hz).to(unit)
    f.response = np.array(resp)
    return f


# ---------------------------------------------------------------------------
# The check of Filter.rebin against the statement
# ---------------------------------------------------------------------------

def check_rebin(filt, sed_nu, label, rtol=1e-9):
    nu_before = filt.nu.copy()
    resp_before = np.array(filt.response, copy=True)

    r1 = filt.rebin(sed_nu)
    r2 = filt.rebin(sed_nu)  # second call on the same objects

    ok(np.array_equal(np.asarray(r1.response), np.asarray(r2.response)), label + ": second rebin differs")
    ok(np.array_equal(filt.nu.value, nu_before.value) and filt.nu.unit == nu_before.unit, label + ": rebin changed filter nu")
    ok(np.array_equal(np.asarray(filt.response), resp_before), label + ": rebin changed filter response")
    ok(r1.name == filt.name, label + ": name not kept")
    ok(r1.central_wavelength == filt.central_wavelength, label + ": central wavelength not kept")
    ok(np.array_equal(r1.nu.to(u.Hz).value, sed_nu.to(u.Hz).value), label + ": binned filter nu is not the SED nu")

    resp = np.asarray(r1.response)
    ok(isinstance(r1.response, np.ndarray) and resp.dtype == np.float64, label + ": response type")
    ok(resp.shape == sed_nu.shape, label + ": response shape")
    ok(np.all(resp >= 0), label + ": negative binned response")

    exact, overlap, full = exact_binned(filt.nu.to(u.Hz).value, filt.response, sed_nu.to(u.Hz).value)
    # absolute slack: bin edges are rounded to the nearest float (~1e-16 * nu), times the response
    scale = 1e-13 * float(full)
    close(resp, [float(e) for e in exact], rtol, scale, label + ": R_i != exact integral over bin")
    close(resp.sum(), float(overlap), rtol, scale, label + ": sum R_i != filter integral over overlap")
    # bins that do not touch the filter range get exactly zero
    for i, e in enumerate(exact):
        if e == 0:
            ok(resp[i] == 0.0, label + ": bin %d should be exactly 0" % i)
    return resp, exact, overlap, full


def check_flat_and_linear(filt, sed_nu, label, rng):
    """normalised filter inside the SED range: flat spectrum gives c; linear; quadrature"""
    g = Filter(name=filt.name, central_wavelength=filt.central_wavelength, nu=filt.nu.copy(), response=np.array(filt.response, dtype=float))
    g.normalize()
    g.normalize()  # idempotent up to rounding
    resp, exact, overlap, full = check_rebin(g, sed_nu, label + " [normalised]")
    close(float(full), 1.0, 1e-12, 0, label + ": normalised filter integral")
    close(float(overlap), 1.0, 1e-12, 0, label + ": overlap should be the full filter")
    for cval in (1.0, 3.25e-7, 4.2e9):
        close(np.sum(cval * np.ones(len(resp)) * resp), cval, 1e-9, 0, label + ": flat spectrum")
    n = len(resp)
    F1 = np.array([rng.random() * 10 for _ in range(n)])
    F2 = np.array([rng.random() * 1e-3 for _ in range(n)])
    a, b = 2.5, 0.75
    lhs = np.sum((a * F1 + b * F2) * resp)
    rhs = a * np.sum(F1 * resp) + b * np.sum(F2 * resp)
    close(lhs, rhs, 1e-12, 0, label + ": linearity")
    ex = [float(e) for e in exact]
    close(np.sum(F1 * resp), math.fsum(f * e for f, e in zip(F1, ex)), 1e-9, 0, label + ": flux = sum F*R")


# ---------------------------------------------------------------------------
# Part 1: Filter.rebin on in-memory filters
# ---------------------------------------------------------------------------

def part_rebin():
    rng = random.Random(20260927)
    relations = ['inside', 'partial_low', 'partial_high', 'sed_inside', 'disjoint', 'touching']
    sizes = [(2, 2), (2, 80), (60, 2), (60, 80), (3, 5), (17, 9), (9, 33), (41, 64), (5, 80), (60, 7)]
    n_cases = 0
    for nf, ns in sizes:
        for rel in relations:
            for f_desc in (False, True):
                s_desc = rng.random() < 0.5
                zero_edges = rng.random() < 0.5
                flo = 10 ** rng.uniform(12.5, 14.5)
                fhi = flo * rng.uniform(1.05, 3.0)
                if rel == 'inside':
                    slo, shi = flo / rng.uniform(1.01, 30), fhi * rng.uniform(1.01, 30)
                elif rel == 'partial_low':
                    slo, shi = flo / rng.uniform(1.5, 10), flo + (fhi - flo) * rng.uniform(0.1, 0.9)
                elif rel == 'partial_high':
                    slo, shi = flo + (fhi - flo) * rng.uniform(0.1, 0.9), fhi * rng.uniform(1.5, 10)
                elif rel == 'sed_inside':
                    slo = flo + (fhi - flo) * rng.uniform(0.05, 0.4)
                    shi = flo + (fhi - flo) * rng.uniform(0.6, 0.95)
                elif rel == 'disjoint':
                    slo, shi = fhi * 1.5, fhi * 20
                else:  # touching: SED starts exactly at the last filter frequency
                    slo, shi = fhi, fhi * 12
                fx = gen_nodes(rng, nf, flo, fhi)
                fy = gen_response(rng, nf, zero_edges)
                sx = gen_nodes(rng, ns, slo, shi)
                if s_desc:
                    sx = sx[::-1]
                f_unit = rng.choice([u.Hz, u.Hz, u.GHz, u.THz])
                s_unit = rng.choice([u.Hz, u.Hz, u.MHz, u.THz])
                filt = make_filter(fx, fy, f_desc, unit=f_unit)
                sed_nu = (np.array(sx) * u.Hz).to(s_unit)
                label = "rebin nf=%d ns=%d %s fdesc=%s sdesc=%s" % (nf, ns, rel, f_desc, s_desc)
                check_rebin(filt, sed_nu, label)
                if rel == 'inside':
                    check_flat_and_linear(filt, sed_nu, label, rng)
                n_cases += 1

    # boundary: SED frequencies coincide with filter nodes; bin edges exactly on filter nodes
    fx = [1.0e14, 1.5e14, 2.0e14, 2.5e14, 3.0e14]
    fy = [0.0, 1.0, 3.0, 0.5, 2.0]
    for desc in (False, True):
        filt = make_filter(fx, fy, desc)
        for sx in ([1.0e14, 2.0e14, 3.0e14],            # nodes; midpoints 1.5e14, 2.5e14 are nodes too
                   [0.5e14, 1.5e14, 2.5e14, 3.5e14],    # midpoints 1.0e14 (first node), 2.0e14, 3.0e14 (last node)
                   [1.0e14, 3.0e14],                    # exactly the filter range
                   [3.0e14, 1.0e14],
                   [1.0e14, 1.0e14 + 64.0],             # very narrow SED at the filter edge
                   [2.0e14, 2.0e14 + 2.0],              # tiny bins inside
                   [0.1e14, 0.9e14, 1.0e14],            # last SED point exactly at the first filter node
                   [3.0e14, 4.0e14, 9.0e14],            # first SED point exactly at the last filter node
                   [5e13, 4e14]):                       # two points bracketing the filter
            for s_desc in (False, True):
                s = sx[::-1] if s_desc else sx
                check_rebin(filt, np.array(s) * u.Hz, "boundary desc=%s sed=%r" % (desc, s))
                n_cases += 1

    # unusual but legal input forms: integer list response, nu from a list, wavelength-like units
    f = Filter()
    f.name = 'INTS'
    f.central_wavelength = 1200 * u.nm
    f.nu = [3, 2, 1] * u.PHz
    f.response = [1, 2, 1]
    resp, exact, overlap, full = check_rebin(f, [0.5, 1.25, 2.0, 2.75, 4.0] * u.PHz, "integer/list input")
    close(resp.sum(), 3.0e15, 1e-12, 0, "integer filter area")
    f.normalize()
    close(np.asarray(f.response), [1 / 3e15, 2 / 3e15, 1 / 3e15], 1e-14, 0, "normalize in Hz")
    check_flat_and_linear(f, [0.5, 1.25, 2.0, 2.75, 4.0] * u.PHz, "integer/list input", rng)
    return n_cases


# ---------------------------------------------------------------------------
# Part 2: filters read from two-column text files
# ---------------------------------------------------------------------------

def write_filter_file(path, wav, resp, style, central):
    with open(path, 'w') as fh:
        fh.write("# wav = %s\n" % central)
        if style == 'plain':
            for w, r in zip(wav, resp):
                fh.write("%.17e %.17e\n" % (w, r))
        elif style == 'messy':
            fh.write("# a second comment line\n\n")
            for i, (w, r) in enumerate(zip(wav, resp)):
                sep = ['\t', '   ', ' \t '][i % 3]
                lead = ['', '  ', '\t'][i % 3]
                tail = ['', '   # inline comment', ' '][i % 3]
                fh.write("%s%r%s%r%s\n" % (lead, float(w), sep, float(r), tail))
                if i % 4 == 1:
                    fh.write("\n")
                if i % 5 == 2:
                    fh.write("   # comment between rows\n")
        elif style == 'three_columns':
            for w, r in zip(wav, resp):
                fh.write("%.17g %.17g %d\n" % (w, r, 7))
        elif style == 'forms':
            for i, (w, r) in enumerate(zip(wav, resp)):
                ws = ["%.17E" % w, "+%.17e" % w, repr(float(w))][i % 3]
                rs = ["%.17E" % r, "+%.17e" % r, repr(float(r))][i % 3]
                fh.write("%s %s\n" % (ws, rs))


def own_parse(path):
    """independent reader of the documented file format"""
    wav, resp = [], []
    with open(path) as fh:
        first = fh.readline()
        central = float(first.split('=')[1])
        for line in fh:
            line = line.split('#')[0].strip()
            if not line:
                continue
            t = line.split()
            wav.append(float(t[0]))
            resp.append(float(t[1]))
    return central, wav, resp


def part_files(tmp):
    rng = random.Random(606)
    n_cases = 0
    for idx, (n, style, wav_desc) in enumerate([(2, 'plain', False), (2, 'messy', True), (60, 'plain', True),
                                                (60, 'messy', False), (13, 'three_columns', True),
                                                (29, 'forms', False), (7, 'messy', True), (3, 'forms', True)]):
        wlo = 10 ** rng.uniform(-0.5, 2)
        wav = gen_nodes(rng, n, wlo, wlo * rng.uniform(1.1, 2.5))
        resp = gen_response(rng, n, zero_edges=(idx % 2 == 0))
        if wav_desc:
            wav, resp = wav[::-1], resp[::-1]
        central = "%.4e" % (0.5 * (wav[0] + wav[-1]))
        name = "F%02d" % idx
        path = os.path.join(tmp, name + '.txt')
        write_filter_file(path, wav, resp, style, central)

        for arg in (path, pathlib.Path(path)):   # a Path is an unusual but legal form
            f = Filter.read(arg)
            f_again = Filter.read(arg)           # second read of the same file
            c0, w0, r0 = own_parse(path)
            ok(w0 == [float(w) for w in wav] and r0 == [float(r) for r in resp], "own parser round trip")
            ok(f.name == name, "name from file name: %r" % f.name)
            close(f.central_wavelength.to(u.micron).value, c0, 1e-15, 0, "central wavelength from header")
            ok(f.central_wavelength.unit.physical_type == 'length', "central wavelength is a length")
            ok(np.array_equal(np.asarray(f.response), np.array(r0)), "response column read exactly")
            ok(np.asarray(f.response).dtype == np.float64, "response dtype")
            ok(np.array_equal(f.wav.to(u.micron).value, np.array(w0)), "wavelength column read exactly")
            nu_own = np.array([C_LIGHT / (w * 1e-6) for w in w0])
            close(f.nu.to(u.Hz).value, nu_own, 1e-14, 0, "nu = c / wav, same order as file")
            ok(np.array_equal(f.nu.value, f_again.nu.value) and np.array_equal(np.asarray(f.response), np.asarray(f_again.response)), "second read differs")

            # SED grids: coarser, finer, partially overlapping; both orders
            flo, fhi = nu_own.min(), nu_own.max()
            for ns, (slo, shi) in [(2, (flo / 3, fhi * 3)), (80, (flo / 1.5, fhi * 1.5)), (11, (flo / 2, 0.5 * (flo + fhi))),
                                   (37, (0.5 * (flo + fhi), fhi * 4)), (5, (flo, fhi))]:
                sx = gen_nodes(rng, ns, slo, shi)
                for s_desc in (False, True):
                    s = sx[::-1] if s_desc else sx
                    # the oracle uses the independently parsed curve
                    g = make_filter(nu_own, r0, False, name=name)
                    _, exact, overlap, full = check_rebin(g, np.array(s) * u.Hz, "file %s (oracle twin)" % name)
                    resp_lib = np.asarray(f.rebin(np.array(s) * u.Hz).response)
                    scale = 1e-13 * float(full)
                    close(resp_lib, [float(e) for e in exact], 1e-9, scale, "file %s style %s: R_i" % (name, style))
                    close(resp_lib.sum(), float(overlap), 1e-9, scale, "file %s: sum R_i" % name)
                    n_cases += 1
            fn = Filter.read(arg)
            fn.normalize()
            check_flat_and_linear(fn, np.array(gen_nodes(rng, 23, flo / 5, fhi * 5)) * u.Hz, "file %s normalised" % name, rng)
    return n_cases


def part_refusals(tmp):
    """files that are not legal filter files stay refused, with the same exception class"""
    cases = [("# wav = 1.25\n1.0 2.0\n", TypeError),                 # a single sample
             ("# wav = 1.25\n1.0 2.0\n3.0\n", ValueError),           # a row without response
             ("# wav = 1.25\n1.0 2.0\n3.0 1_0\n", ValueError),       # not a number for a text table
             ("# wav = 1.25\n1.0 2.0\n3.0 0x10\n", ValueError),
             ("# wav = 1.25\n1.0,2.0\n3.0,4.0\n", ValueError),       # not white-space separated
             ("# central wavelength 1.25\n1.0 2.0\n3.0 4.0\n", IndexError),   # no '=' in the header
             ("# wav = abc\n1.0 2.0\n3.0 4.0\n", ValueError),
             ("# wav = -1.25\n1.0 2.0\n3.0 4.0\n", ValueError),      # central wavelength must be > 0
             ("", IndexError)]
    for i, (text, exc) in enumerate(cases):
        path = os.path.join(tmp, 'bad%d.txt' % i)
        with open(path, 'w') as fh:
            fh.write(text)
        for _ in range(2):
            try:
                Filter.read(path)
            except Exception as e:
                ok(isinstance(e, exc), "refusal %d: %s instead of %s" % (i, type(e).__name__, exc.__name__))
            else:
                ok(False, "bad file %d was accepted" % i)
    # legal corner: values written as inf-free odd-looking numbers, CRLF line ends, no final newline
    path = os.path.join(tmp, 'CRLF.v2.txt')
    with open(path, 'w', newline='') as fh:
        fh.write("# wav = 2.\r\n+.5 1.\r\n1.E+0\t.25\r\n   2 0   # end")
    f = Filter.read(path)
    ok(f.name == 'CRLF', "name stops at the first dot: %r" % f.name)
    ok(f.central_wavelength == 2 * u.micron, "central wavelength")
    ok(np.array_equal(f.wav.to(u.micron).value, [0.5, 1.0, 2.0]) and np.array_equal(np.asarray(f.response), [1.0, 0.25, 0.0]), "CRLF file content")
    sed_nu = np.array([1e14, 2e14, 3.5e14, 5e14, 7e14]) * u.Hz
    check_rebin(make_filter([C_LIGHT / 0.5e-6, C_LIGHT / 1e-6, C_LIGHT / 2e-6], [1.0, 0.25, 0.0], False, name='CRLF'), sed_nu, "CRLF twin")
    exact, overlap, full = exact_binned([C_LIGHT / 0.5e-6, C_LIGHT / 1e-6, C_LIGHT / 2e-6], [1.0, 0.25, 0.0], sed_nu.value)
    close(np.asarray(f.rebin(sed_nu).response), [float(e) for e in exact], 1e-9, 1e-13 * float(full), "CRLF file R_i")
    return len(cases) + 1


# ---------------------------------------------------------------------------
# Part 3: convolve_model_dir -> convolved/<filter>.fits
# ---------------------------------------------------------------------------

def write_conf(d, version, names, order):
    with open(os.path.join(d, 'models.conf'), 'w') as fh:
        fh.write("name = test\nlength_subdir = 0\naperture_dependent = no\nlogd_step = 0.02\n")
        if version == 2:
            fh.write("version = 2\n")
    t = Table()
    t['MODEL_NAME'] = np.array(names, dtype='S30')
    t['par1'] = np.arange(len(names), dtype=float)
    t = t[order]
    t.write(os.path.join(d, 'parameters.fits'))


def read_convolved(d, name):
    with fits.open(os.path.join(d, 'convolved', name + '.fits')) as h:
        tab = h[1].data
        names = [str(x).strip() for x in tab['MODEL_NAME']]
        return names, np.array(tab['TOTAL_FLUX'], float), np.array(tab['TOTAL_FLUX_ERR'], float), h[0].header


def model_fluxes(rng, n_models, n_ap, n_wav, scale=1.0):
    """models: 0 flat (c = 3.5), 1 and 2 random, 3 = 2.5*m1 + 0.75*m2, others random"""
    val = np.array([[[rng.random() * 10 ** rng.uniform(-3, 2) for _ in range(n_wav)] for _ in range(n_ap)] for _ in range(n_models)])
    val[0] = 3.5
    val[3] = 2.5 * val[1] + 0.75 * val[2]
    val = val * scale
    unc = val * np.array([[[rng.random() * 0.1 for _ in range(n_wav)] for _ in range(n_ap)] for _ in range(n_models)])
    return val, unc


def check_convolved(d, filt_twins, names, sed_nu_hz, val, unc, rtol, label, par_order):
    """val / unc are indexed [model, ap, i] on the grid sed_nu_hz (any order)"""
    for name, (fnu, fresp, normalised_inside) in filt_twins.items():
        got_names, flux, err, hdr = read_convolved(d, name)
        ok(got_names == [names[i] for i in par_order], label + ": model order in %s.fits %r" % (name, got_names))
        exact, overlap, full = exact_binned(fnu, fresp, sed_nu_hz)
        R = np.array([float(e) for e in exact])
        ok(flux.shape == (len(names), val.shape[1]), label + ": flux shape")
        for row, im in enumerate(par_order):
            for ia in range(val.shape[1]):
                want = math.fsum(val[im, ia] * R)
                want_e = math.sqrt(math.fsum((unc[im, ia] * R) ** 2))
                close(flux[row, ia], want, rtol, 0, label + ": %s flux model %d ap %d" % (name, im, ia))
                close(err[row, ia], want_e, rtol, 0, label + ": %s error model %d ap %d" % (name, im, ia))
        row = {im: r for r, im in enumerate(par_order)}
        if normalised_inside:
            close(flux[row[0]], np.full(val.shape[1], val[0, 0, 0]), rtol, 0, label + ": %s flat spectrum returns c" % name)
        close(flux[row[3]], 2.5 * flux[row[1]] + 0.75 * flux[row[2]], max(rtol, 1e-12) * 4, 0, label + ": %s linearity" % name)


def part_pipeline(tmp):
    rng = random.Random(99)
    n_cases = 0
    names = ['model_%04d' % i for i in range(5)]
    par_order = [0, 4, 1, 3, 2]

    def build_filters(sed_lo, sed_hi, ddir):
        """three filters: normalised & inside the SED range (memory), partial overlap (memory, descending), from file"""
        twins = {}
        filters = []
        # A: inside, normalised, ascending nu
        fx = gen_nodes(rng, 24, sed_lo * 3, sed_lo * 9)
        fy = gen_response(rng, 24, True)
        fa = make_filter(fx, fy, False, name='FA', wav=2.0)
        fa.normalize()
        filters.append(fa)
        twins['FA'] = (fa.nu.to(u.Hz).value.copy(), np.array(fa.response, copy=True), True)
        # B: sticks out of the SED range at high frequency, non-zero edges, descending nu, given in THz
        fx = gen_nodes(rng, 60, sed_hi / 2, sed_hi * 2)
        fy = gen_response(rng, 60, False)
        fb = make_filter(fx, fy, True, name='FB', unit=u.THz, wav=0.3)
        filters.append(fb)
        twins['FB'] = (fb.nu.to(u.Hz).value.copy(), np.array(fb.response, copy=True), False)
        # C: read from a text file (decreasing wavelength), then normalised; inside
        wav = gen_nodes(rng, 15, C_LIGHT / (sed_lo * 40) * 1e6, C_LIGHT / (sed_lo * 20) * 1e6)[::-1]
        resp = gen_response(rng, 15, False)
        path = os.path.join(ddir, 'FC.dat')
        write_filter_file(path, wav, resp, 'messy', '%.4e' % wav[3])
        fc = Filter.read(path)
        fc.normalize()
        filters.append(fc)
        c0, w0, r0 = own_parse(path)
        nu0 = [C_LIGHT / (w * 1e-6) for w in w0]
        area = abs(float(exact_binned(nu0, r0, [min(nu0), max(nu0)])[2]))
        twins['FC'] = (np.array(nu0), np.array(r0) / area, True)
        return filters, twins

    # ---- version 1 packages (one FITS file per SED) -----------------------
    for n_ap, n_wav, sed_desc in [(1, 80, False), (3, 37, True), (1, 2, False)]:
        d = tempfile.mkdtemp(dir=tmp)
        os.mkdir(os.path.join(d, 'seds'))
        sed_lo, sed_hi = 1e12, 3e15
        nu = np.array(gen_nodes(rng, n_wav, sed_lo, sed_hi))
        if sed_desc:
            nu = nu[::-1]
        val, unc = model_fluxes(rng, 5, n_ap, n_wav)
        for i, nm in enumerate(names):
            s = SED()
            s.name = nm
            s.distance = 1 * u.kpc
            s.nu = nu * u.Hz
            s.wav = s.nu.to(u.micron, equivalencies=u.spectral())
            s.apertures = None if n_ap == 1 else np.logspace(1, 3, n_ap) * u.au
            s.flux = val[i] * u.mJy
            s.error = unc[i] * u.mJy
            s.write(os.path.join(d, 'seds', nm + '_sed.fits'))
        write_conf(d, 1, names, par_order)
        filters, twins = build_filters(sed_lo, sed_hi, d)
        convolve_model_dir(d, filters)
        check_convolved(d, twins, names, nu, val, unc, 1e-9, "v1 n_ap=%d n_wav=%d" % (n_ap, n_wav), par_order)
        # second call on the same directory / same filter objects
        convolve_model_dir(d, filters, overwrite=True)
        check_convolved(d, twins, names, nu, val, unc, 1e-9, "v1 second call n_ap=%d" % n_ap, par_order)
        for f in filters:   # the filters given by the caller are left alone
            close(f.nu.to(u.Hz).value, twins[f.name][0], 1e-15, 0, "filter nu untouched")
            close(np.asarray(f.response), twins[f.name][1], 1e-12, 0, "filter response untouched")
        n_cases += 2

    # ---- version 2 packages (SED cube) ------------------------------------
    for n_ap, n_wav, wav_desc, dtype, rtol, memmap, scale in [(1, 80, False, np.float64, 1e-9, True, 1.0), (4, 33, True, np.float64, 1e-9, False, 1.0),
                                                              (2, 61, False, np.float32, 3e-5, True, 1.0), (1, 2, True, np.float64, 1e-9, True, 1.0),
                                                              (1, 70, True, np.float32, 3e-5, False, 1.0),
                                                              (2, 45, False, np.float64, 1e-9, True, 1e-60), (1, 45, True, np.float64, 1e-9, False, 1e+60),
                                                              (3, 20, True, np.float32, 3e-5, True, 1e-9)]:
        d = tempfile.mkdtemp(dir=tmp)
        sed_lo, sed_hi = 1e12, 3e15
        nu = np.array(gen_nodes(rng, n_wav, sed_lo, sed_hi))
        wav = C_LIGHT / nu * 1e6
        if wav_desc:   # cube stored in decreasing wavelength = increasing frequency
            nu, wav = nu[::-1], wav[::-1]
        val, unc = model_fluxes(rng, 5, n_ap, n_wav, scale)
        val = val.astype(dtype)
        unc = unc.astype(dtype)
        cube = SEDCube()
        cube.names = np.array(names)
        cube.distance = 1 * u.kpc
        cube.wav = wav * u.micron
        cube.apertures = None if n_ap == 1 else np.logspace(1, 3, n_ap) * u.au
        cube.val = val * u.mJy
        cube.unc = unc * u.mJy
        cube.write(os.path.join(d, 'flux.fits'))
        write_conf(d, 2, names, list(range(5)))
        nu_cube = cube.nu.to(u.Hz).value    # what the package stores: derived from wav
        filters, twins = build_filters(sed_lo * 1.0000001, sed_hi / 1.0000001, d)
        convolve_model_dir(d, filters, memmap=memmap)
        v64, u64 = val.astype(np.float64), unc.astype(np.float64)
        check_convolved(d, twins, names, nu_cube, v64, u64, rtol, "v2 n_ap=%d n_wav=%d %s" % (n_ap, n_wav, np.dtype(dtype)), list(range(5)))
        convolve_model_dir(d, filters, overwrite=True, memmap=memmap)
        check_convolved(d, twins, names, nu_cube, v64, u64, rtol, "v2 second call", list(range(5)))
        n_cases += 2

    # ---- cube in other flux units: result is still in mJy ------------------
    d = tempfile.mkdtemp(dir=tmp)
    nu = np.array(gen_nodes(rng, 25, 1e12, 3e15))
    val, unc = model_fluxes(rng, 5, 1, 25)
    cube = SEDCube()
    cube.names = np.array(names)
    cube.distance = 1 * u.kpc
    cube.wav = (C_LIGHT / nu * 1e6) * u.micron
    cube.val = (val * 1e-3) * u.Jy
    cube.unc = (unc * 1e-3) * u.Jy
    cube.write(os.path.join(d, 'flux.fits'))
    write_conf(d, 2, names, list(range(5)))
    filters, twins = build_filters(1e12 * 1.0000001, 3e15 / 1.0000001, d)
    convolve_model_dir(d, filters)
    check_convolved(d, twins, names, cube.nu.to(u.Hz).value, val, unc, 1e-9, "v2 Jy cube", list(range(5)))
    n_cases += 1
    return n_cases


def main():
    tmp = tempfile.mkdtemp(prefix='demoC06_')
    tempfile.tempdir = tmp
    try:
        n1 = part_rebin()
        n2 = part_files(tmp)
        n2 += part_refusals(tmp)
        n3 = part_pipeline(tmp)
    finally:
        tempfile.tempdir = None
        shutil.rmtree(tmp, ignore_errors=True)
    print("DEMO OK: %d rebin cases, %d file cases, %d pipeline runs, %d assertions" % (n1, n2, n3, N_CHECKS[0]))


if __name__ == '__main__':
    main()
    sys.exit(0)
