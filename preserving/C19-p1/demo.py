import sys, os; sys.path.insert(0, os.getcwd())
"""
Property C19: a fit output file truncated at any byte either fails to read or
yields an exact prefix of the records written.  Checked against independent
snapshots of what was handed to FitInfoFile.write.
"""
import copy
import pickle
import shutil
import tempfile
import pathlib

import numpy as np

import sedfitter
assert os.path.abspath(sedfitter.__file__).startswith(os.getcwd()), sedfitter.__file__
from sedfitter.fit_info import FitInfoFile, FitInfo, FitInfoMeta
from sedfitter.source import Source

FIELDS = ('av', 'sc', 'chi2', 'model_id', 'model_name', 'model_fluxes')
SFIELDS = ('valid', 'flux', 'error')


def make_record(rng, i, n_fits, n_wav, with_fluxes, name=None, f32=False):
    s = Source()
    s.name = name if name is not None else "src_%03i" % i
    s.x = float(rng.uniform(0, 360))
    s.y = float(rng.uniform(-90, 90))
    s.valid = rng.integers(0, 5, n_wav).astype(int)
    s.flux = rng.uniform(0.1, 100., n_wav)
    s.error = rng.uniform(0.01, 1., n_wav)
    info = FitInfo(s)
    ft = np.float32 if f32 else float
    info.av = rng.uniform(0, 10, n_fits).astype(ft)
    info.sc = rng.uniform(-1, 1, n_fits).astype(ft)
    info.chi2 = np.sort(rng.uniform(0, 100, n_fits)).astype(ft)
    info.model_id = rng.permutation(n_fits)
    info.model_name = np.array(["model_%05i_%02i" % (k, i) for k in range(n_fits)], dtype='S30' if i % 2 else 'U30')
    info.model_fluxes = rng.uniform(-3, 3, (n_fits, n_wav)).astype(ft) if with_fluxes else None
    return info


def set_meta(info, meta):
    info.meta = meta


def snapshot(info):
    """Independent plain-python copy of the payload of a record."""
    d = {'name': info.source.name, 'x': info.source.x, 'y': info.source.y}
    for f in SFIELDS:
        d['s_' + f] = np.array(getattr(info.source, f), copy=True)
    for f in FIELDS:
        v = getattr(info, f)
        d[f] = None if v is None else np.array(v, copy=True)
    return d


def same_array(a, b):
    if a is None or b is None:
        return a is None and b is None
    a = np.asarray(a)
    b = np.asarray(b)
    return a.dtype == b.dtype and a.shape == b.shape and a.tobytes() == b.tobytes()


def matches(info, snap, meta):
    if not isinstance(info, FitInfo):
        return False
    if info.source.name != snap['name'] or info.source.x != snap['x'] or info.source.y != snap['y']:
        return False
    for f in SFIELDS:
        if not same_array(getattr(info.source, f), snap['s_' + f]):
            return False
    for f in FIELDS:
        if not same_array(getattr(info, f), snap[f]):
            return False
    if info.n_fits != len(snap['chi2']):
        return False
    m = info.meta
    return (m.model_dir == meta.model_dir and m.filters == meta.filters
            and m.extinction_law == meta.extinction_law)


def read_all(path, opener=str):
    """Returns (records_obtained_so_far, error_or_None)."""
    got = []
    try:
        fin = FitInfoFile(opener(path), 'r')
    except Exception as exc:
        return got, exc
    err = None
    try:
        for info in fin:
            got.append(info)
    except Exception as exc:
        err = exc
    # second pass on the same (exhausted or failed) object must not invent anything
    if err is None:
        again = list(fin)
        assert again == [], "second iteration over an exhausted file produced records"
    fin.close()
    return got, err


def make_meta():
    meta = FitInfoMeta()
    meta.model_dir = 'models_demo'
    meta.filters = [{'name': 'F1', 'wav': 1.2, 'aperture_arcsec': 3.0},
                    {'name': 'F2', 'wav': 3.6, 'aperture_arcsec': 3.0}]
    meta.extinction_law = {'wav': [0.1, 1.0, 10.0], 'kappa': [3.0, 2.0, 1.0]}
    return meta


def write_file(path, infos, use_with=False):
    if use_with and hasattr(FitInfoFile, '__enter__'):
        with FitInfoFile(path, 'w') as fout:
            for info in infos:
                fout.write(info)
    else:
        fout = FitInfoFile(path, 'w')
        for info in infos:
            fout.write(info)
        fout.close()
        fout.close()  # closing twice is harmless for a file handle


def check_case(tmp, label, infos, meta, offsets=None, use_with=False):
    for info in infos:
        set_meta(info, meta)
    snaps = [snapshot(info) for info in infos]
    full = os.path.join(tmp, 'full_' + label + '.fitinfo')
    write_file(full, infos, use_with=use_with)
    # writing must not have changed the caller's objects
    for info, snap in zip(infos, snaps):
        assert matches(info, snap, meta), "write() altered a record: " + label
    data = open(full, 'rb').read()

    # whole file, read twice (two different reader objects), str and Path
    for opener in (str, pathlib.Path):
        got, err = read_all(full, opener)
        if opener is pathlib.Path and isinstance(err, TypeError) and not got:
            continue  # Path objects not accepted by this version: refused, not wrong
        assert err is None, (label, err)
        assert len(got) == len(snaps), (label, len(got))
        assert all(matches(g, s, meta) for g, s in zip(got, snaps)), label

    if offsets is None:
        offsets = range(len(data))
    trunc = os.path.join(tmp, 'trunc.fitinfo')
    n_err = n_prefix = 0
    counts = set()
    for k in offsets:
        with open(trunc, 'wb') as f:
            f.write(data[:k])
        got, err = read_all(trunc)
        assert len(got) <= len(snaps), "record invented: %s offset %i" % (label, k)
        for j, g in enumerate(got):
            assert matches(g, snaps[j], meta), "wrong record %i: %s offset %i" % (j, label, k)
        if err is None:
            n_prefix += 1
            counts.add(len(got))
        else:
            n_err += 1
    # offset 0 (empty file) can never give records
    with open(trunc, 'wb') as f:
        pass
    got, err = read_all(trunc)
    assert got == [] and err is not None, "empty file did not fail: " + label
    print("%-28s %7i bytes  %6i truncations: %5i error, %5i prefix (sizes %s)"
          % (label, len(data), len(list(offsets)), n_err, n_prefix, sorted(counts)))
    return data


def _blank_fitinfo():
    return FitInfo.__new__(FitInfo)


class OldStyleRecord(object):
    """Pickles as a FitInfo whose state has exactly the historical keys."""

    def __init__(self, info):
        self.state = {'source': info.source}
        for f in FIELDS:
            self.state[f] = getattr(info, f)

    def __reduce_ex__(self, protocol):
        return _blank_fitinfo, (), self.state


def check_old_format(tmp, meta):
    """Files written by earlier versions (protocol 2, historical state keys)."""
    rng = np.random.default_rng(77)
    infos = [make_record(rng, i, n, 3, bool(i % 2)) for i, n in enumerate((4, 1, 6))]
    snaps = [snapshot(i) for i in infos]
    path = os.path.join(tmp, 'old.fitinfo')
    with open(path, 'wb') as f:
        pickle.dump(meta.model_dir, f, 2)
        pickle.dump(meta.filters, f, 2)
        pickle.dump(meta.extinction_law, f, 2)
        for info in infos:
            pickle.dump(OldStyleRecord(info), f, 2)
    data = open(path, 'rb').read()
    trunc = os.path.join(tmp, 'old_trunc.fitinfo')
    for k in range(len(data) + 1):
        with open(trunc, 'wb') as f:
            f.write(data[:k])
        got, err = read_all(trunc)
        assert len(got) <= len(snaps)
        for j, g in enumerate(got):
            assert matches(g, snaps[j], meta), "old format: wrong record at offset %i" % k
        if k == len(data):
            assert err is None and len(got) == len(snaps)
    print("old-format file: %i bytes, all truncations fine" % len(data))


def main():
    base = '/dev/shm' if os.path.isdir('/dev/shm') and os.access('/dev/shm', os.W_OK) else None
    tmp = tempfile.mkdtemp(prefix='c19demo_', dir=base)
    try:
        meta = make_meta()
        rng = np.random.default_rng(20190)
        sizes_sets = {1: [(5, 3)],
                      2: [(1, 2), (12, 4)],
                      3: [(7, 1), (0, 3), (3, 6)],      # a record with zero fits
                      4: [(2, 5), (9, 2), (1, 1), (15, 3)]}
        for with_fluxes in (False, True):
            for n_rec, sizes in sizes_sets.items():
                infos = [make_record(rng, i, nf, nw, with_fluxes) for i, (nf, nw) in enumerate(sizes)]
                check_case(tmp, "n%i_fluxes%i" % (n_rec, with_fluxes), infos, meta,
                           use_with=(n_rec % 2 == 0))

        # the same FitInfo objects written a second time to a second file, after
        # having been copied / pickled in memory (exercises state round trips)
        infos = [make_record(rng, i, nf, 3, True) for i, nf in enumerate((3, 8))]
        check_case(tmp, "first_write", infos, meta)
        infos2 = [copy.copy(infos[0]), pickle.loads(pickle.dumps(infos[1], 2)), copy.deepcopy(infos[0])]
        check_case(tmp, "rewrite_same_objects", infos2, meta)

        # unusual but legal: single-precision arrays, non-ASCII source name, name
        # containing pickle opcodes ('.' is STOP), records filtered with keep()
        infos = [make_record(rng, 0, 6, 2, True, name="α Ori. (a.b)", f32=True),
                 make_record(rng, 1, 5, 2, False, name="....", f32=True)]
        infos[0].keep(('N', 3))
        infos[1].keep(('C', float(infos[1].chi2[2])))
        check_case(tmp, "unusual_forms", infos, meta)

        # FitInfoFile wrapping in-memory records yields copies equal to the originals
        set_meta(infos[0], meta); set_meta(infos[1], meta)
        snaps = [snapshot(i) for i in infos]
        mem = FitInfoFile(infos)
        for _ in range(2):
            got = list(mem)
            assert len(got) == 2 and all(matches(g, s, meta) for g, s in zip(got, snaps))

        # boundary: one large record (arrays bigger than 64 kB), sampled offsets
        # plus every offset in the last 300 bytes and the first 300 bytes
        big = [make_record(rng, 0, 3000, 4, True), make_record(rng, 1, 2, 4, True)]
        for info in big:
            set_meta(info, meta)
        probe = os.path.join(tmp, 'probe.fitinfo')
        write_file(probe, big)
        n = os.path.getsize(probe)
        offs = sorted(set(list(range(0, min(300, n))) + list(range(0, n, 1009)) + list(range(max(0, n - 700), n))))
        check_case(tmp, "large_record", big, meta, offsets=offs)

        check_old_format(tmp, meta)
    finally:
        shutil.rmtree(tmp, ignore_errors=True)
    print("C19 demo: OK")


if __name__ == '__main__':
    main()
