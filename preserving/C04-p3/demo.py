import sys, os; sys.path.insert(0, os.getcwd())
# Demonstration for property C04 (results ranked by chi^2, every row describes
# one model).  Every fit result produced below is checked against an
# independent, loop-based re-computation that only uses the *inputs* (model
# names, model fluxes, extinction law, source) and the reported A_V / scale.
#
# Run as:  cd /tmp/wtP_C04 && /venv/bin/python _out/p<i>/demo.py

import math
import pickle
import shutil
import tempfile
import pathlib

import numpy as np
from astropy import units as u

import sedfitter
assert os.path.abspath(sedfitter.__file__).startswith(os.getcwd()), sedfitter.__file__

from sedfitter.models import Models
from sedfitter.source import Source
from sedfitter.fit_info import FitInfo, FitInfoFile, FitInfoMeta
from sedfitter.extinction import Extinction

N_CHECKED = [0]


def fail(msg):
    print("DEMO FAILURE: " + msg)
    sys.exit(1)


def require(cond, msg):
    if not cond:
        fail(msg)


# ---------------------------------------------------------------------------
# Independent re-computation
# ---------------------------------------------------------------------------

def source_logs(flux, error, valid):
    lf, le, w = [], [], []
    for F, e, v in zip(flux, error, valid):
        if v == 1:
            lf.append(math.log10(F) - 0.5 * (e / F) ** 2 / math.log(10.))
            le.append(abs(e / F) / math.log(10.))
            w.append(1. / le[-1] ** 2)
        elif v in (2, 3):
            lf.append(math.log10(F))
            le.append(e)
            w.append(0.)
        elif v == 4:
            lf.append(F)
            le.append(e)
            w.append(1. / e ** 2)
        else:
            lf.append(0.)
            le.append(0.)
            w.append(0.)
    return lf, le, w


def indep_chi2(pred, lf, le, w, valid):
    total = 0.
    for j, v in enumerate(valid):
        if v in (1, 4):
            t = (lf[j] - pred[j]) ** 2 * w[j]
        elif v == 2:
            t = 0.
            if pred[j] < lf[j]:
                t = -2. * math.log(1. - le[j]) if le[j] < 1. else math.inf
        elif v == 3:
            t = 0.
            if pred[j] > lf[j]:
                t = -2. * math.log(1. - le[j]) if le[j] < 1. else math.inf
        else:
            t = 0.
        if math.isinf(t):
            t = 1.e30
        total += t
    return total


def indep_fit_2d(logf, lf, w, k, s, av_min, av_max):
    used = [j for j in range(len(w)) if w[j] > 0]
    A = np.array([[k[j] * math.sqrt(w[j]), s[j] * math.sqrt(w[j])] for j in used])
    b = np.array([(lf[j] - logf[j]) * math.sqrt(w[j]) for j in used])
    (av, sc), _, _, _ = np.linalg.lstsq(A, b, rcond=None)
    if av < av_min or av > av_max:
        av = min(max(av, av_min), av_max)
        num = sum((lf[j] - logf[j] - av * k[j]) * s[j] * w[j] for j in used)
        den = sum(s[j] * s[j] * w[j] for j in used)
        sc = num / den
    return av, sc


def indep_av_3d(logf, lf, w, k, av_min, av_max):
    used = [j for j in range(len(w)) if w[j] > 0]
    num = sum((lf[j] - logf[j]) * k[j] * w[j] for j in used)
    den = sum(k[j] * k[j] * w[j] for j in used)
    return min(max(num / den, av_min), av_max)


def close(a, b, rtol=1e-7, atol=1e-8):
    if math.isinf(a) or math.isinf(b):
        return a == b
    return abs(a - b) <= atol + rtol * max(abs(a), abs(b))


def check_info(label, info, names, logF, k, s, av_min, av_max, source,
               logd=None, extended=None, check_optimum=True):
    """
    names : list of str, logF : float64 array (n, nw) or (n, nd, nw) of the
    log10 fluxes in mJy of the package (-inf where the flux is zero).
    """

    n = len(names)
    nw = len(k)
    valid = [int(v) for v in source.valid]
    lf, le, w = source_logs([float(x) for x in source.flux],
                            [float(x) for x in source.error], valid)

    av = np.asarray(info.av, dtype=float)
    sc = np.asarray(info.sc, dtype=float)
    chi2 = np.asarray(info.chi2, dtype=float)
    ids = np.asarray(info.model_id)
    mnames = [x.decode() if isinstance(x, bytes) else str(x) for x in info.model_name]
    mf = np.asarray(info.model_fluxes, dtype=float)

    # every model exactly once
    require(av.shape == (n,) and sc.shape == (n,) and chi2.shape == (n,)
            and ids.shape == (n,) and len(mnames) == n and mf.shape == (n, nw),
            label + ": wrong shapes")
    require(ids.dtype.kind in 'iu', label + ": model_id is not integer")
    require(sorted(int(i) for i in ids) == list(range(n)),
            label + ": model_id is not a permutation of all models")
    require(sorted(mnames) == sorted(names), label + ": names are not those of the package")

    # non-decreasing chi^2 (NaN, if any, last)
    nan = np.isnan(chi2)
    if nan.any():
        first = int(np.argmax(nan))
        require(nan[first:].all(), label + ": NaN chi2 not at the end")
    good = chi2[~nan]
    require(np.all(good[1:] >= good[:-1]), label + ": chi2 not in non-decreasing order")

    for i in range(n):
        m = int(ids[i])
        require(mnames[i] == names[m], label + ": row %i name/index mismatch" % i)

        if logF.ndim == 2:
            row = logF[m]
            pred = [row[j] + av[i] * k[j] + sc[i] * s[j] for j in range(nw)]
        else:
            hits = [d for d in range(len(logd)) if logd[d] == sc[i]]
            require(len(hits) == 1, label + ": row %i scale is not one of the log10 distances" % i)
            dbest = hits[0]
            row = logF[m, dbest]
            pred = [row[j] + av[i] * k[j] for j in range(nw)]

        # predicted fluxes stored with the row
        for j in range(nw):
            a, b = float(mf[i, j]), float(pred[j])
            if math.isnan(b):
                require(math.isnan(a), label + ": row %i flux %i" % (i, j))
            else:
                require(close(a, b, rtol=1e-10, atol=1e-10),
                        label + ": row %i predicted flux %i is %r, expected %r" % (i, j, a, b))

        if math.isnan(chi2[i]):
            # only legitimate if the model has a zero flux somewhere
            require(not np.all(np.isfinite(logF[m])), label + ": NaN chi2 for a regular model")
            continue

        require(av_min - 1e-12 <= av[i] <= av_max + 1e-12, label + ": A_V outside range")

        if logF.ndim == 2:
            # chi2 belongs to the reported av / scale of this model
            c = indep_chi2(pred, lf, le, w, valid)
            require(close(float(chi2[i]), c), label + ": row %i chi2 %r, independent %r" % (i, chi2[i], c))
            if check_optimum:
                av_i, sc_i = indep_fit_2d(row, lf, w, k, s, av_min, av_max)
                require(close(float(av[i]), av_i, 1e-6, 1e-7), label + ": row %i av %r vs %r" % (i, av[i], av_i))
                require(close(float(sc[i]), sc_i, 1e-6, 1e-7), label + ": row %i sc %r vs %r" % (i, sc[i], sc_i))
        else:
            best_c, best_d, best_av = None, None, None
            for d in range(len(logd)):
                av_d = indep_av_3d(logF[m, d], lf, w, k, av_min, av_max)
                c = indep_chi2([logF[m, d, j] + av_d * k[j] for j in range(nw)], lf, le, w, valid)
                if extended is not None and any(extended[m, d, j] for j in range(nw) if valid[j] > 0):
                    c = math.inf
                if best_c is None or c < best_c:
                    best_c, best_d, best_av = c, d, av_d
            require(close(float(chi2[i]), best_c), label + ": row %i chi2 %r, independent %r" % (i, chi2[i], best_c))
            if math.isfinite(best_c):
                require(best_d == dbest, label + ": row %i distance index %i vs %i" % (i, dbest, best_d))
                require(close(float(av[i]), best_av, 1e-6, 1e-7), label + ": row %i av" % i)
                c = indep_chi2(pred, lf, le, w, valid)
                require(close(float(chi2[i]), c), label + ": row %i chi2 does not belong to reported av" % i)

    N_CHECKED[0] += 1
    print("   ok: " + label)


def same_info(a, b):
    for attr in ('av', 'sc', 'chi2', 'model_id', 'model_name', 'model_fluxes'):
        x, y = getattr(a, attr), getattr(b, attr)
        x = np.asarray(x)
        y = np.asarray(y)
        if x.dtype.kind in 'f':
            if not np.array_equal(x, y, equal_nan=True):
                return False
        elif not np.array_equal(x, y):
            return False
    return True


# ---------------------------------------------------------------------------
# Inputs
# ---------------------------------------------------------------------------

def make_source(flux, error, valid, as_lists=False, name='src'):
    s = Source()
    s.name = name
    s.x = 1.5
    s.y = -2.5
    if as_lists:
        s.valid = list(valid)
        s.flux = list(flux)
        s.error = tuple(error)
    else:
        s.valid = np.array(valid)
        s.flux = np.array(flux, dtype=float)
        s.error = np.array(error, dtype=float)
    return s


def make_models(names, fluxes, wav, distances=None, extended=None, names_dtype=None):
    m = Models()
    m.names = np.array(names) if names_dtype is None else np.array(names, dtype=names_dtype)
    m.wavelengths = wav
    if distances is not None:
        m.distances = distances
        m.logd = np.log10(distances.to(u.kpc).value)
    m.fluxes = fluxes
    if extended is not None:
        m.extended = extended
    return m


def logs_of(fluxes):
    v = fluxes.to(u.mJy).value
    with np.errstate(divide='ignore'):
        return np.log10(v).astype(float)


rng = np.random.RandomState(20240404)
WAV = np.array([1.2, 2.2, 3.6, 8.0, 24.]) * u.micron

ext = Extinction()
ext.wav = np.logspace(-2., 3., 60) * u.micron
ext.chi = ext.wav.value ** -1.7 * u.cm ** 2 / u.g
AV_LAW = ext.get_av(WAV)           # dimensionless Quantity, as in Fitter
SC_LAW = -2. * np.ones(AV_LAW.shape)
K = [float(x) for x in np.asarray(AV_LAW, dtype=float)]
S = [-2.] * len(K)


def run_2d(label, names, fluxes, source, av_min, av_max, names_dtype=None, check_optimum=True):
    m = make_models(names, fluxes, WAV, names_dtype=names_dtype)
    names_before = m.names.copy()
    flux_before = m.fluxes.copy()
    src_before = (np.array(source.flux, dtype=float).copy(), np.array(source.error, dtype=float).copy(), np.array(source.valid).copy())
    info = m.fit(source, AV_LAW, SC_LAW, av_min, av_max)
    check_info(label, info, list(names), logs_of(fluxes), K, S, av_min, av_max, source, check_optimum=check_optimum)
    # second call on the same objects
    info2 = m.fit(source, AV_LAW, SC_LAW, av_min, av_max)
    check_info(label + " (second call)", info2, list(names), logs_of(fluxes), K, S, av_min, av_max, source, check_optimum=check_optimum)
    require(same_info(info, info2), label + ": second call differs from the first")
    require(np.array_equal(m.names, names_before), label + ": Models.names modified by fit")
    require(np.array_equal(m.fluxes.value, flux_before.value, equal_nan=True), label + ": Models.fluxes modified by fit")
    require(np.array_equal(np.array(source.flux, dtype=float), src_before[0], equal_nan=True)
            and np.array_equal(np.array(source.error, dtype=float), src_before[1])
            and np.array_equal(np.array(source.valid), src_before[2]), label + ": source modified by fit")
    return m, info


print("=== aperture-independent grids")

# 1. plain random grid, all kinds of data points
n = 60
names = ['m%04d' % i for i in range(n)]
fluxes = 10. ** rng.uniform(-1, 2, size=(n, 5)) * u.mJy
src = make_source([3.1, 7.5, 1.1, 40., 90.], [0.2, 0.5, 0.05, 0.9, 0.6], [1, 1, 4, 2, 3])
m1, info1 = run_2d("2-D random grid, valid=1,1,4,2,3", names, fluxes, src, 0., 30.)
run_2d("2-D random grid, clipped A_V range", names, fluxes, src, 0.5, 1.5)
run_2d("2-D random grid, av_min == av_max (boundary)", names, fluxes, src, 2., 2.)
run_2d("2-D random grid, av_min == av_max == 0", names, fluxes, src, 0., 0.)

# 2. unused and plot-only points, lists instead of arrays for the source, -999 flux with valid 9
src2 = make_source([3.1, 7.5, -999., 40., 9.], [0.2, 0.5, 1., 4., 0.6], [1, 1, 9, 1, 0], as_lists=True)
run_2d("2-D, valid 0 and 9, source given as lists", names, fluxes, src2, 0., 10.)

# 3. exact ties: blocks of identical models (more than 16 of them), in Jy, float32 values
base = 10. ** rng.uniform(-4, -1, size=(9, 5))
idx = np.array([0, 1, 2] + [3] * 25 + [4, 5] + [6] * 3 + [7, 8] + [3] * 4 + [0])
tie_flux = (base[idx].astype(np.float32)) * u.Jy
tie_names = ['tie_%03d' % i for i in range(len(idx))]
mt, infot = run_2d("2-D ties, float32 Jy fluxes, bytes names", tie_names, tie_flux, src, 0., 5., names_dtype='S12')
chi2t = np.asarray(infot.chi2, float)
idst = np.asarray(infot.model_id)
for b in range(9):
    members = set(np.where(idx == b)[0].tolist())
    rows = [r for r in range(len(idx)) if int(idst[r]) in members]
    require(rows == list(range(rows[0], rows[0] + len(rows))), "tied models are not contiguous")
    require(len(set(chi2t[rows].tolist())) == 1, "identical models have different chi2")

# 4. all models identical (everything tied), and a single-model package
allsame = np.tile(base[0], (40, 1)) * u.mJy
run_2d("2-D, 40 identical models", ['same%02d' % i for i in range(40)], allsame, src, 0., 5.)
run_2d("2-D, single-model package", ['only'], base[:1] * u.mJy, src, 0., 5.)
run_2d("2-D, two-model package", ['a', 'b'], base[:2] * u.mJy, src, 0., 5.)

# 5. limits with confidence 1 (chi2 contribution reset to 1e30) -> "infinite" chi2 for some models
src5 = make_source([3.1, 7.5, 1.1, 0.5, 2000.], [0.2, 0.5, 0.05, 1.0, 1.0], [1, 1, 4, 2, 3])
m5, info5 = run_2d("2-D, limits with 100% confidence", names, fluxes, src5, 0., 3.)
require(np.any(np.asarray(info5.chi2, float) >= 1e30) and np.any(np.asarray(info5.chi2, float) < 1e30),
        "expected a mix of huge and regular chi2")

# 6. models with zero flux in some band (log flux -inf, chi2 ends up NaN for them)
zf = fluxes.copy()
zf[7, 2] = 0. * u.mJy
zf[33, 0] = 0. * u.mJy
run_2d("2-D, two models with a zero flux", names, zf, src, 0., 30.)

# 7. the package is modified between fits: in place, through the setter, other unit
m7 = make_models(names, fluxes.copy(), WAV)
i7 = m7.fit(src, AV_LAW, SC_LAW, 0., 30.)
check_info("2-D before modification", i7, names, logs_of(fluxes), K, S, 0., 30., src)
m7.fluxes[5, :] = m7.fluxes[5, :] * 3.
m7.fluxes[11, 1] = 0.123 * u.mJy
i7b = m7.fit(src, AV_LAW, SC_LAW, 0., 30.)
check_info("2-D after in-place modification of Models.fluxes", i7b, names, logs_of(m7.fluxes), K, S, 0., 30., src)
require(not same_info(i7, i7b), "in-place modification had no effect")
newf = 10. ** rng.uniform(-4, -1, size=(n, 5)) * u.Jy
m7.fluxes = newf
i7c = m7.fit(src, AV_LAW, SC_LAW, 0., 30.)
check_info("2-D after assigning new fluxes (Jy)", i7c, names, logs_of(newf), K, S, 0., 30., src)
m7.fluxes = (newf.value * 1000.) * u.Jy   # same shape, values scaled
i7d = m7.fit(src, AV_LAW, SC_LAW, 0., 30.)
check_info("2-D after assigning scaled fluxes", i7d, names, logs_of(m7.fluxes), K, S, 0., 30., src)
m7.names = np.array(['x' + nm for nm in names])
i7e = m7.fit(src, AV_LAW, SC_LAW, 0., 30.)
check_info("2-D after renaming the models", i7e, ['x' + nm for nm in names], logs_of(m7.fluxes), K, S, 0., 30., src)
# a different source on the same Models object
i7f = m7.fit(src2, AV_LAW, SC_LAW, 0., 30.)
check_info("2-D other source on same Models", i7f, ['x' + nm for nm in names], logs_of(m7.fluxes), K, S, 0., 30., src2)

print("=== aperture-dependent grids")


def run_3d(label, names, fluxes, distances, source, av_min, av_max, extended=None):
    m = make_models(names, fluxes, WAV, distances=distances, extended=extended)
    info = m.fit(source, AV_LAW, SC_LAW, av_min, av_max)
    logd = [float(x) for x in m.logd]
    check_info(label, info, list(names), logs_of(fluxes), K, S, av_min, av_max, source, logd=logd, extended=extended)
    info2 = m.fit(source, AV_LAW, SC_LAW, av_min, av_max)
    require(same_info(info, info2), label + ": second call differs from the first")
    require(np.array_equal(m.names, np.array(names)), label + ": names modified")
    return m, info


n3, nd = 35, 7
names3 = ['d%03d' % i for i in range(n3)]
dist = np.logspace(np.log10(0.8), np.log10(3.), nd) * u.kpc
f3 = (10. ** rng.uniform(-1, 2, size=(n3, 1, 5)) * rng.uniform(0.5, 1.5, size=(n3, nd, 5))
      / (dist.value ** 2)[None, :, None]) * u.mJy
run_3d("3-D random grid", names3, f3, dist, src, 0., 30.)
run_3d("3-D random grid, clipped A_V", names3, f3, dist, src, 1., 1.2)
run_3d("3-D random grid, av_min == av_max", names3, f3, dist, src, 0.7, 0.7)
run_3d("3-D, source with valid 0/9 as lists", names3, f3, dist, src2, 0., 30.)

extd = np.zeros((n3, nd, 5), dtype=bool)
extd[4, :, :] = True            # resolved at every distance -> chi2 = inf
extd[9, :, 1] = True            # idem (one used band is enough)
extd[20, :3, 0] = True          # resolved at the near distances only
extd[21, :, 4] = True
m3, info3 = run_3d("3-D with resolved models (infinite chi2)", names3, f3, dist, src, 0., 30., extended=extd)
c3 = np.asarray(info3.chi2, float)
require(np.sum(np.isinf(c3)) == 3 and np.all(np.isinf(c3[-3:])), "expected three infinite chi2 at the end")
require(set(int(i) for i in np.asarray(info3.model_id)[-3:]) == {4, 9, 21}, "wrong models have infinite chi2")
# band 4 is not used by src2 (valid == 0): model 21 is then not removed
m3b, info3b = run_3d("3-D with resolved models, band not used", names3, f3, dist, src2, 0., 30., extended=extd)
require(np.sum(np.isinf(np.asarray(info3b.chi2, float))) == 2, "expected two infinite chi2")

# ties in 3-D, one distance only (boundary), single model
f3t = f3[np.array([0, 1, 1, 1, 2, 0] + [3] * 20)]
run_3d("3-D ties", ['t%02d' % i for i in range(26)], f3t, dist, src, 0., 30.)
run_3d("3-D single distance", names3, f3[:, :1, :], dist[:1], src, 0., 30.)
run_3d("3-D single model", names3[:1], f3[:1], dist, src, 0., 30.)

print("=== FitInfo.sort driven directly")

for trial in range(4):
    nn = [1, 2, 17, 300][trial]
    fi = FitInfo()
    chi = rng.randint(0, 5, size=nn).astype(float) if trial != 2 else rng.uniform(size=nn)
    if nn == 300:
        chi[::7] = np.inf
    tag = np.arange(nn)
    fi.chi2 = chi.copy()
    fi.av = tag * 0.5
    fi.sc = tag * -0.25
    fi.model_name = np.array(['n%05d' % t for t in tag])
    fi.model_fluxes = np.tile(tag[:, None] * 1., (1, 3)) + np.array([0., 0.1, 0.2])
    fi.sort()
    ids = np.asarray(fi.model_id)
    require(sorted(ids.tolist()) == list(range(nn)), "sort: not a permutation")
    require(np.all(np.diff(fi.chi2) >= 0) or nn == 1 or np.all((fi.chi2[1:] >= fi.chi2[:-1])), "sort: not ordered")
    require(np.all(fi.chi2[1:] >= fi.chi2[:-1]), "sort: not ordered")
    for r in range(nn):
        t = int(ids[r])
        require(fi.chi2[r] == chi[t] and fi.av[r] == t * 0.5 and fi.sc[r] == t * -0.25
                and fi.model_name[r] == 'n%05d' % t
                and np.array_equal(fi.model_fluxes[r], t + np.array([0., 0.1, 0.2])), "sort: row mixes models")
    # without convolved fluxes
    fj = FitInfo()
    fj.chi2 = chi.copy(); fj.av = tag * 1.; fj.sc = tag * 2.; fj.model_name = np.array(['n%05d' % t for t in tag])
    fj.sort()
    require(fj.model_fluxes is None and np.array_equal(fj.av, np.asarray(fj.model_id) * 1.), "sort without fluxes")
    N_CHECKED[0] += 1
print("   ok: FitInfo.sort on hand-made results")

print("=== results written to and read from a file")

tmp = tempfile.mkdtemp()
try:
    meta_src = i7f
    for inf in (info1, infot, info3, i7f):
        inf.meta.model_dir = 'somewhere'
        inf.meta.filters = [{'wav': w, 'aperture_arcsec': 3.} for w in WAV]
        inf.meta.extinction_law = None
    path = os.path.join(tmp, 'out.fitinfo')
    try:
        fout = FitInfoFile(pathlib.Path(path), 'w')       # unusual input form
        used_path_object = True
    except TypeError:
        fout = FitInfoFile(path, 'w')
        used_path_object = False
    for inf in (info1, infot, info3, i7f):
        fout.write(inf)
    fout.close()
    for attempt in range(2):        # read twice
        fin = FitInfoFile(path, 'r')
        back = list(fin)
        fin.close()
        require(len(back) == 4, "wrong number of results read back")
        for a, b in zip((info1, infot, info3, i7f), back):
            require(same_info(a, b), "result changed by writing/reading")
            require(b.source == a.source, "source changed by writing/reading")
            require(b.meta.model_dir == 'somewhere', "meta lost")
        check_info("read back: 2-D", back[0], names, logs_of(fluxes), K, S, 0., 30., src)
        check_info("read back: ties", back[1], tie_names, logs_of(tie_flux), K, S, 0., 5., src)
        check_info("read back: 3-D resolved", back[2], names3, logs_of(f3), K, S, 0., 30., src,
                   logd=[float(x) for x in m3.logd], extended=extd)
    # plain pickle of one FitInfo, and an old-style state without any extra key
    b = pickle.loads(pickle.dumps(info1, 2))
    require(same_info(info1, b), "pickle round trip")
    old = FitInfo.__new__(FitInfo)
    old.__setstate__({'source': info1.source, 'av': info1.av, 'sc': info1.sc, 'chi2': info1.chi2,
                      'model_id': info1.model_id, 'model_name': info1.model_name,
                      'model_fluxes': info1.model_fluxes})
    check_info("old-style pickled state", old, names, logs_of(fluxes), K, S, 0., 30., src)
    # iterating over in-memory results gives copies that describe the same rows
    for c in FitInfoFile([info1, i7f]):
        pass
    check_info("in-memory FitInfoFile", list(FitInfoFile(info1))[0], names, logs_of(fluxes), K, S, 0., 30., src)
    print("   (Path object accepted by FitInfoFile: %s)" % used_path_object)
finally:
    shutil.rmtree(tmp)


print("=== file formats, input forms and error classes")

tmp = tempfile.mkdtemp()
try:
    # a file as written by older versions: protocol 2 records, in the documented order
    old_path = os.path.join(tmp, 'old.fitinfo')
    with open(old_path, 'wb') as fh:
        pickle.dump('somewhere', fh, 2)
        pickle.dump(info1.meta.filters, fh, 2)
        pickle.dump(None, fh, 2)
        pickle.dump(info1, fh, 2)
        pickle.dump(info3, fh, 2)
    fin = FitInfoFile(old_path, 'r')
    back = list(fin)
    fin.close()
    require(len(back) == 2 and same_info(back[0], info1) and same_info(back[1], info3), "old file not read correctly")
    check_info("file written with protocol 2", back[0], names, logs_of(fluxes), K, S, 0., 30., src)

    # a file written by FitInfoFile, read record by record with plain pickle
    new_path = os.path.join(tmp, 'new.fitinfo')
    if hasattr(FitInfoFile, '__enter__'):
        with FitInfoFile(pathlib.Path(new_path), 'w') as fout:
            fout.write(infot)
            fout.write(info3)
        require(fout._handle.closed, "file not closed by the context manager")
    else:
        fout = FitInfoFile(new_path, 'w')
        fout.write(infot)
        fout.write(info3)
        fout.close()
    with open(new_path, 'rb') as fh:
        require(pickle.load(fh) == 'somewhere', "first record is not the model directory")
        require(len(pickle.load(fh)) == len(WAV), "second record is not the filters")
        require(pickle.load(fh) is None, "third record is not the extinction law")
        r1 = pickle.load(fh)
        r2 = pickle.load(fh)
        try:
            pickle.load(fh)
            fail("more records than results written")
        except EOFError:
            pass
    require(same_info(r1, infot) and same_info(r2, info3), "records differ from the results written")
    r1.meta = infot.meta
    check_info("records read with plain pickle", r1, tie_names, logs_of(tie_flux), K, S, 0., 5., src)
    # os.PathLike for reading as well, when supported
    try:
        fin = FitInfoFile(pathlib.Path(new_path), 'r')
    except TypeError:
        fin = FitInfoFile(new_path, 'r')
    back = list(fin)
    fin.close()
    require(len(back) == 2 and same_info(back[1], info3), "reading through a Path object")
    # things that are refused are still refused
    for bad in (12, None, 3.5, {'a': 1}):
        try:
            FitInfoFile(bad, 'r')
            fail("FitInfoFile accepted %r" % (bad,))
        except TypeError:
            pass
    try:
        FitInfoFile(os.path.join(tmp, 'does_not_exist'), 'r')
        fail("missing file accepted")
    except (IOError, OSError):
        pass
    kept = list(FitInfoFile(info1))[0]
    try:
        kept.keep(('Z', 1))
        fail("unknown selection format accepted")
    except Exception as exc:
        require('Unknown format' in str(exc), "message of the unknown-format error")
    bad_models = Models()
    bad_models.names = np.array(['a'])
    bad_models.wavelengths = WAV
    bad_models._fluxes = np.ones(5) * u.mJy        # 1-d: not a legal package
    try:
        bad_models.fit(src, AV_LAW, SC_LAW, 0., 1.)
        fail("1-d flux array accepted")
    except Exception:
        pass
finally:
    shutil.rmtree(tmp)

# model_id is usable as an index into the package, also after selection, for a big package
big_n = 70000
bi = FitInfo()
bchi = rng.randint(0, 1000, size=big_n).astype(float)
bi.chi2 = bchi.copy()
bi.av = np.arange(big_n) * 1.
bi.sc = np.arange(big_n) * -1.
bi.model_name = np.array(['b%06d' % t for t in range(big_n)])
bi.sort()
bid = np.asarray(bi.model_id)
require(bid.dtype.kind in 'iu' and np.array_equal(np.sort(bid), np.arange(big_n)), "big: not a permutation")
require(int(bid.max()) == big_n - 1 and int(bid.min()) == 0, "big: index range")
require(np.all(bi.chi2[1:] >= bi.chi2[:-1]), "big: not ordered")
require(np.array_equal(bchi[bid], bi.chi2) and np.array_equal(bi.av, bid * 1.) and np.array_equal(bi.sc, bid * -1.)
        and np.array_equal(np.array(['b%06d' % t for t in range(big_n)])[bid], bi.model_name), "big: rows mix models")
bi.keep(('N', 100))
require(len(bi.model_id) == 100 and np.array_equal(bi.av, np.asarray(bi.model_id) * 1.), "big: after keep")
ids1 = np.asarray(info1.model_id)
require(np.array_equal(np.array(names)[ids1], np.asarray(info1.model_name)), "model_id does not index the package names")
require(np.array_equal(logs_of(fluxes)[ids1] + np.asarray(info1.av, float)[:, None] * np.array(K)
                       + np.asarray(info1.sc, float)[:, None] * np.array(S) - np.asarray(info1.model_fluxes, float) < 1e-9,
                       np.ones((n, 5), bool)), "vectorised flux check through model_id")
b = pickle.loads(pickle.dumps(info1, pickle.HIGHEST_PROTOCOL))
require(same_info(b, info1) and np.asarray(b.model_id).dtype == ids1.dtype, "highest-protocol pickle")
print("   ok: formats, input forms, error classes, big package")

print("=== package on disk, through Fitter")

from sedfitter.sed import SEDCube
from sedfitter.fit import Fitter

tmp = tempfile.mkdtemp()
try:
    for aperture_dependent in (False, True):
        d = os.path.join(tmp, 'pkg_%i' % aperture_dependent)
        os.mkdir(d)
        cube = SEDCube()
        nm = 12
        cube.names = np.array(['model_{0:04d}'.format(i) for i in range(nm)])
        cube.distance = 1 * u.kpc
        cube.wav = np.logspace(-2., 3., 100) * u.micron
        if aperture_dependent:
            cube.apertures = np.logspace(1., 6., 10) * u.au
            val = np.cumsum(rng.uniform(size=(nm, 10, 100)), axis=1)
        else:
            cube.apertures = None
            val = 1 + rng.uniform(size=(nm, 1, 100))
        val[5] = val[2]     # tie
        val[6] = val[2]
        cube.val = val * u.mJy
        cube.unc = cube.val * 0.01
        cube.write(os.path.join(d, 'flux.fits'))
        with open(os.path.join(d, 'models.conf'), 'w') as fh:
            fh.write("name = test\nlength_subdir = 0\naperture_dependent = %s\nlogd_step = 0.05\nversion = 2\n"
                     % ('yes' if aperture_dependent else 'no'))
        for use_memmap in (False, True):
            fitter = Fitter([3.4 * u.micron, 8.0 * u.micron, 15. * u.micron], [1., 3., 3.] * u.arcsec, d,
                            extinction_law=ext, av_range=[0., 4.], distance_range=[1., 2.] * u.kpc,
                            remove_resolved=aperture_dependent, use_memmap=use_memmap)
            mod = fitter.models
            kk = [float(x) for x in np.asarray(fitter.av_law, float)]
            ss = [float(x) for x in np.asarray(fitter.sc_law, float)]
            fv = mod.fluxes.to(u.mJy).value
            with np.errstate(divide='ignore'):
                lg = np.log10(fv).astype(float)      # same precision as the stored values
            for srcx in (make_source([0.2, 1.3, 1.5], [0.1, 0.2, 0.3], [1, 1, 1]),
                         make_source([0.2, 1.2, 1.8], [0.05, 0.1, 0.9], [1, 1, 3])):
                for rep in range(2):
                    inf = fitter.fit(srcx)
                    if aperture_dependent:
                        extx = np.asarray(mod.extended) if isinstance(mod.extended, np.ndarray) else None
                        check_info("Fitter 3-D memmap=%s call %i" % (use_memmap, rep), inf,
                                   [str(x) for x in mod.names], lg, kk, ss, 0., 4., srcx,
                                   logd=[float(x) for x in mod.logd], extended=extx)
                    else:
                        check_info("Fitter 2-D memmap=%s call %i" % (use_memmap, rep), inf,
                                   [str(x) for x in mod.names], lg, kk, ss, 0., 4., srcx,
                                   check_optimum=not use_memmap)
        # the complete fit() function, all fits written to a file with the convolved fluxes
        from sedfitter import fit as fit_function
        data_file = os.path.join(d, 'data.txt')
        with open(data_file, 'w') as fh:
            fh.write("source_1 0.0 0.0 1 1 1 0.2 0.1 1.3 0.2 1.5 0.3\n")
            fh.write("source_2 0.0 0.0 1 3 1 0.2 0.05 1.2 0.9 1.8 0.3\n")
        out_file = os.path.join(d, 'out.fitinfo')
        fit_function(data_file, [3.4 * u.micron, 8.0 * u.micron, 15. * u.micron], [1., 3., 3.] * u.arcsec, d, out_file,
                     extinction_law=ext, av_range=[0., 4.], distance_range=[1., 2.] * u.kpc, n_data_min=2,
                     output_format=('A', 0), output_convolved=True, remove_resolved=aperture_dependent)
        for rep in range(2):
            fin = FitInfoFile(out_file, 'r')
            res = list(fin)
            fin.close()
            require(len(res) == 2 and res[0].source.name == 'source_1' and res[1].source.name == 'source_2', "fit(): sources")
            for inf in res:
                if aperture_dependent:
                    check_info("fit() 3-D, file, read %i" % rep, inf, [str(x) for x in mod.names], lg, kk, ss, 0., 4., inf.source,
                               logd=[float(x) for x in mod.logd], extended=extx)
                else:
                    check_info("fit() 2-D, file, read %i" % rep, inf, [str(x) for x in mod.names], lg, kk, ss, 0., 4., inf.source,
                               check_optimum=False)
finally:
    shutil.rmtree(tmp, ignore_errors=True)

print("")
print("ALL CHECKS PASSED (%i result sets verified)" % N_CHECKED[0])
sys.exit(0)
