import sys, os; sys.path.insert(0, os.getcwd())

# ---------------------------------------------------------------------------
# Demonstration for property C08 (a planted model is recovered through the
# whole pipeline).  Self-contained: builds model packages in both formats and
# both fitting modes, synthesises photometry with an INDEPENDENT convolution /
# aperture interpolation / extinction / distance scaling, runs
# convolve_model_dir -> fit -> write_parameters and checks the first data row
# of the parameter table and the first record of the fit output file.
# ---------------------------------------------------------------------------

import io
import pickle
import shutil
import tempfile
import contextlib

import numpy as np
from astropy import units as u
from astropy.table import Table

import sedfitter
assert os.path.dirname(os.path.abspath(sedfitter.__file__)) == os.path.join(os.getcwd(), 'sedfitter'), sedfitter.__file__

from sedfitter import fit, write_parameters
from sedfitter.fit import Fitter
from sedfitter.source import Source
from sedfitter.convolve import convolve_model_dir
from sedfitter.extinction import Extinction
from sedfitter.filter import Filter
from sedfitter.sed import SED, SEDCube

C_LIGHT = 299792458.0
LN10 = np.log(10.)

NAMES = ['zeta_07', 'alpha_3', 'mu_x', 'beta', 'omega_1', 'gamma_22', 'delta', 'kappa_5']
N_MODELS = len(NAMES)
WAV = np.logspace(-1., 3., 150)                      # micron, increasing
APERTURES_AU = np.logspace(2., 5., 12)
FILTER_DEFS = [('fa', 2.0, 1.5, 2.5), ('fb', 4.1, 3.0, 5.0), ('fc', 7.7, 6.0, 10.0),
               ('fd', 14.0, 11.0, 17.0), ('fe', 21.5, 18.0, 26.0)]
MONO_WAV = [WAV[50], WAV[62], WAV[75], WAV[84], WAV[90]]   # exact grid wavelengths
AP_ARCSEC = np.array([1.5, 2.0, 2.0, 3.0, 3.0])
LOGD_STEP = 0.025
DRANGE_KPC = (1.0, 2.0)
AV_RANGE = (0., 10.)

QUIET = True


@contextlib.contextmanager
def quiet():
    if QUIET:
        buf = io.StringIO()
        with contextlib.redirect_stdout(buf), contextlib.redirect_stderr(buf):
            yield
    else:
        yield


def nu_of(wav_um):
    return C_LIGHT / (np.asarray(wav_um, float) * 1e-6)


# ------------------------------------------------------------------ models

def make_model_fluxes(rng):
    """flux[m, ap, w] in mJy, strongly different colours + curves of growth"""
    lw = np.log10(WAV)
    flux = np.zeros((N_MODELS, len(APERTURES_AU), len(WAV)))
    slopes = np.linspace(-2.0, 2.0, N_MODELS)[rng.permutation(N_MODELS)]
    for m in range(N_MODELS):
        base = 10. ** rng.uniform(0., 2.) * WAV ** slopes[m]
        for _ in range(3):
            c = rng.uniform(0.2, 1.4)
            base = base * (1. + rng.uniform(1., 6.) * np.exp(-(lw - c) ** 2 / 0.02))
        q = rng.uniform(0.05, 0.8) + 0.15 * rng.uniform(-1, 1) * lw
        q = np.clip(q, 0.02, None)
        growth = (APERTURES_AU[:, None] / APERTURES_AU[-1]) ** q[None, :]
        flux[m] = base[None, :] * growth
    return flux


def make_filters(rng):
    filters = []
    for name, cen, w1, w2 in FILTER_DEFS:
        fw = np.linspace(w2, w1, 60)
        resp = 0.2 + rng.random(60)
        resp[[0, -1]] = 0.
        f = Filter()
        f.name = name
        f.central_wavelength = cen * u.micron
        f.nu = (fw * u.micron).to(u.Hz, equivalencies=u.spectral())
        f.response = resp
        f.normalize()
        filters.append((f, fw, resp))
    return filters


def make_extinction():
    special = [0.55] + [d[1] for d in FILTER_DEFS] + list(MONO_WAV)
    w = np.unique(np.concatenate([np.logspace(-2., 3., 50), special]))
    e = Extinction()
    e.wav = w * u.micron
    e.chi = w ** -2 * u.cm ** 2 / u.g
    return e


def expected_av_law(wav_um):
    return -0.4 * (np.asarray(wav_um) / 0.55) ** -2


# ------------------------------------------- independent convolution

def _cumint(x, y, t):
    t = np.clip(t, x[0], x[-1])
    seg = 0.5 * (x[1:] - x[:-1]) * (y[1:] + y[:-1])
    cum = np.concatenate([[0.], np.cumsum(seg)])
    k = np.clip(np.searchsorted(x, t, side='right') - 1, 0, len(x) - 2)
    dx = t - x[k]
    slope = (y[k + 1] - y[k]) / (x[k + 1] - x[k])
    return cum[k] + y[k] * dx + 0.5 * slope * dx * dx


def indep_binned_response(fw_um, resp):
    """response of a (normalised) filter binned on the model frequency grid"""
    x = nu_of(fw_um)
    o = np.argsort(x)
    x, y = x[o], np.asarray(resp, float)[o]
    y = y / abs(np.sum(0.5 * (x[1:] - x[:-1]) * (y[1:] + y[:-1])))
    g = nu_of(WAV)[::-1]                                  # increasing frequency
    edges = np.concatenate([[g[0]], 0.5 * (g[1:] + g[:-1]), [g[-1]]])
    big = _cumint(x, y, edges)
    return (big[1:] - big[:-1])[::-1]                     # back to WAV order


def indep_band_fluxes(flux, filters, mode):
    """band[m, ap, j] : fluxes of every model in every band at 1 kpc"""
    if mode == 'bb':
        out = np.zeros(flux.shape[:2] + (len(filters),))
        for j, (f, fw, resp) in enumerate(filters):
            r = indep_binned_response(fw, resp)
            out[:, :, j] = np.sum(flux * r[None, None, :], axis=2)
        return out
    else:
        idx = [int(np.argmin(np.abs(WAV - w))) for w in MONO_WAV]
        return flux[:, :, idx].copy()


def indep_model_grid(band, apdep, logd):
    """log10 model fluxes: (m, j) or (m, d, j)"""
    if not apdep:
        return np.log10(band[:, 0, :])
    out = np.zeros((band.shape[0], len(logd), band.shape[2]))
    for k, ld in enumerate(logd):
        d_pc = 10. ** ld * 1000.
        for j in range(band.shape[2]):
            ap = min(AP_ARCSEC[j] * d_pc, APERTURES_AU[-1])
            for m in range(band.shape[0]):
                out[m, k, j] = np.log10(np.interp(ap, APERTURES_AU, band[m, :, j])) - 2. * ld
    return out


def indep_distance_grid():
    l0, l1 = np.log10(DRANGE_KPC[0]), np.log10(DRANGE_KPC[1])
    n = int(np.ceil(1 + (l1 - l0) / LOGD_STEP))
    return l0 + (l1 - l0) * np.arange(n) / (n - 1.)


def indep_fit(grid, apdep, logd, avlaw, logf, w):
    """brute-force independent fit of every model; returns chi2, av, sc arrays"""
    nm = grid.shape[0]
    chi2 = np.zeros(nm); av = np.zeros(nm); sc = np.zeros(nm)
    sw = np.sqrt(w)
    use = w > 0
    for m in range(nm):
        if not apdep:
            r = logf - grid[m]
            A = np.vstack([avlaw, -2. * np.ones_like(avlaw)]).T
            p = np.linalg.lstsq(A[use] * sw[use, None], r[use] * sw[use], rcond=None)[0]
            a = min(max(p[0], AV_RANGE[0]), AV_RANGE[1])
            if a != p[0]:
                rr = r - a * avlaw
                s = np.sum(w * rr * -2.) / np.sum(w * 4.)
            else:
                s = p[1]
            chi2[m] = np.sum(w * (r - a * avlaw + 2. * s) ** 2)
            av[m], sc[m] = a, s
        else:
            best = None
            for k in range(len(logd)):
                r = logf - grid[m, k]
                a = np.sum(w * r * avlaw) / np.sum(w * avlaw ** 2)
                a = min(max(a, AV_RANGE[0]), AV_RANGE[1])
                c = np.sum(w * (r - a * avlaw) ** 2)
                if best is None or c < best[0]:
                    best = (c, a, logd[k])
            chi2[m], av[m], sc[m] = best
    return chi2, av, sc


# ------------------------------------------------------------- packages

def build_package(root, version, apdep, flux, par, rng, conf_yes='yes', conf_no='no'):
    d = os.path.join(root, 'pkg_v%i_%s' % (version, 'ap' if apdep else 'noap'))
    os.mkdir(d)
    fl = flux if apdep else flux[:, -1:, :]
    if version == 1:
        os.mkdir(os.path.join(d, 'seds'))
        for m, name in enumerate(NAMES):
            s = SED()
            s.name = name
            s.distance = 1. * u.kpc
            s.wav = WAV * u.micron
            s.nu = s.wav.to(u.Hz, equivalencies=u.spectral())
            s.apertures = APERTURES_AU * u.au if apdep else None
            s.flux = fl[m] * u.mJy
            s.error = fl[m] * 0.01 * u.mJy
            s.write(os.path.join(d, 'seds', name + '_sed.fits'))
        order = rng.permutation(N_MODELS)
    else:
        cube = SEDCube()
        cube.names = np.array(NAMES)
        cube.distance = 1. * u.kpc
        cube.wav = WAV * u.micron
        cube.apertures = APERTURES_AU * u.au if apdep else None
        cube.val = fl * u.mJy
        cube.unc = fl * 0.01 * u.mJy
        cube.write(os.path.join(d, 'flux.fits'))
        order = np.arange(N_MODELS)       # must follow the cube (which is not alphabetical)
    with open(os.path.join(d, 'models.conf'), 'w') as f:
        f.write("name = demo\n")
        f.write("length_subdir = 0\n")
        f.write("aperture_dependent = %s\n" % (conf_yes if apdep else conf_no))
        f.write("logd_step = %s\n" % LOGD_STEP)
        if version == 2:
            f.write("version = 2\n")
    t = Table()
    t['par1'] = par[order, 0]
    t['MODEL_NAME'] = np.array([NAMES[i] for i in order], dtype='S30' if version == 1 else 'S')
    t['par2'] = par[order, 1]
    t['par3'] = par[order, 2]
    t.write(os.path.join(d, 'parameters.fits'))
    return d


def source_line(name, valid, flux, err):
    s = "%s 10.0 -5.0 " % name
    s += " ".join("%i" % v for v in valid) + " "
    s += " ".join("%.12e %.12e" % (f, e) for f, e in zip(flux, err))
    return s


def plant(grid, apdep, logd, avlaw, m, av0, where, rel, form='lin', extra=None):
    """returns dict with data line ingredients and expectations.
    `where` is a distance-grid index (apdep) or a scale (aperture-independent)"""
    if apdep:
        logf = grid[m, where] + av0 * avlaw
        sc0 = logd[where]
    else:
        logf = grid[m] + av0 * avlaw - 2. * where
        sc0 = where
    n = len(logf)
    valid = np.ones(n, int)
    if form == 'lin':
        # the fitter subtracts 0.5 (err/flux)^2 / ln(10) from log10(flux) (mean of the
        # log of a noisy quantity); the planted photometry allows for it so that the
        # planted solution is exact for any relative error
        flux = 10. ** (logf + 0.5 * rel ** 2 / LN10)
        err = rel * flux
    else:                                   # valid = 4 : log10 fluxes given
        valid[:] = 4
        flux = logf.copy()
        err = np.repeat(rel / LN10, n)
    if extra == 'drop':                     # unused band with garbage value
        valid[1] = 0
        flux[1] = -999.
        err[1] = -999.
    elif extra == 'upper':                  # upper limit well above the model
        valid[3] = 3
        flux[3] = 10. ** (logf[3] + 1.)
        err[3] = 0.9
    return dict(m=m, av0=av0, sc0=sc0, rel=rel, valid=valid, flux=flux, err=err)


def what_fitter_sees(p):
    """log10 fluxes and weights following the documented treatment"""
    v, f, e = p['valid'], p['flux'], p['err']
    logf = np.zeros(len(v)); w = np.zeros(len(v))
    r = v == 1
    logf[r] = np.log10(f[r]) - 0.5 * (e[r] / f[r]) ** 2 / LN10
    w[r] = (LN10 * f[r] / e[r]) ** 2
    r = v == 4
    logf[r] = f[r]
    w[r] = 1. / e[r] ** 2
    return logf, w


def read_first_records(filename):
    out = []
    with open(filename, 'rb') as fh:
        model_dir = pickle.load(fh)
        pickle.load(fh)
        pickle.load(fh)
        while True:
            try:
                out.append(pickle.load(fh))
            except EOFError:
                break
    return model_dir, out


def parse_parameter_file(filename):
    lines = open(filename).read().splitlines()
    header = lines[1].split()
    assert header[:5] == ['fit_id', 'model_name', 'chi2', 'av', 'scale'], header
    res = {}
    i = 3
    while i < len(lines):
        cols = lines[i].split()
        name, n_data, n_fits = cols[0], int(cols[1]), int(cols[2])
        rows = [lines[i + 1 + k].split() for k in range(n_fits)]
        res[name] = (n_data, rows)
        i += 1 + n_fits
    return header, res


CHECKS = [0]


def check(cond, msg):
    CHECKS[0] += 1
    if not cond:
        print("FAILED:", msg)
        sys.exit(1)


def run_package(root, version, apdep, mode, flux, filters, par, rng, extinction, tag='',
                conf_yes='yes', conf_no='no', data_as_handle=False, hook=None):
    """Build / convolve / fit / write for one package and check all planted sources."""

    with quiet():
        d = build_package(root, version, apdep, flux, par, rng, conf_yes=conf_yes, conf_no=conf_no)
        if mode == 'bb':
            convolve_model_dir(d, [f[0] for f in filters])
            # second call on the same files (overwriting): must give the same files
            convolve_model_dir(d, [f[0] for f in filters], overwrite=True)

    band = indep_band_fluxes(flux if apdep else flux[:, -1:, :], filters, mode)
    logd = indep_distance_grid()
    grid = indep_model_grid(band, apdep, logd)
    wavs = np.array([f[1] for f in FILTER_DEFS]) if mode == 'bb' else np.array(MONO_WAV)
    avlaw = expected_av_law(wavs)

    nd = len(logd)
    plants = {}
    specs = [
        ('src_a', 2, 3.7, nd // 3 if apdep else 0.35, 0.05, 'lin', None),
        ('src_b', 5, AV_RANGE[0], 0 if apdep else -0.5, 0.01, 'lin', None),          # A_V at lower boundary, nearest distance
        ('src_c', 0, AV_RANGE[1], nd - 1 if apdep else 1.25, 0.1, 'lin', None),       # A_V at upper boundary, farthest distance
        ('src_d', 7, 6.2, nd // 2 if apdep else 0., 0.02, 'log', None),              # log10 fluxes (valid = 4)
        ('src_e', 3, 1.5, 1 if apdep else 2.0, 0.05, 'lin', 'drop'),                 # one unused band
        ('src_f', 6, 8.9, nd - 2 if apdep else -1.0, 0.03, 'lin', 'upper'),          # one (inactive) upper limit
        ('src_g', 1, 0.4, 2 if apdep else 0.1, 0.2, 'lin', None),                    # large errors
        ('src_h', 4, 5.0, nd // 2 + 1 if apdep else 0.7, 1.e-4, 'lin', None),        # tiny errors
    ]
    lines = []
    for name, m, av0, where, rel, form, extra in specs:
        p = plant(grid, apdep, logd, avlaw, m, av0, where, rel, form=form, extra=extra)
        plants[name] = p
        lines.append(source_line(name, p['valid'], p['flux'], p['err']))

    data_file = os.path.join(root, 'data_%s%s' % (os.path.basename(d), tag))
    with open(data_file, 'w') as fh:
        fh.write("\n".join(lines) + "\n")

    if mode == 'bb':
        filter_names = [f[0] for f in FILTER_DEFS]
    else:
        filter_names = [w * u.micron for w in MONO_WAV]

    output = os.path.join(root, 'fits_%s%s' % (os.path.basename(d), tag))
    with quiet():
        data_arg = open(data_file) if data_as_handle else data_file
        fit(data_arg, filter_names, AP_ARCSEC * u.arcsec, d, output,
            extinction_law=extinction, distance_range=list(DRANGE_KPC) * u.kpc,
            av_range=list(AV_RANGE), output_format=('N', 3))
        if data_as_handle:
            data_arg.close()
        par_file = os.path.join(root, 'pars_%s%s' % (os.path.basename(d), tag))
        write_parameters(output, par_file)
        # second call on the same file, to a different output, all rows kept
        write_parameters(output, par_file + '_all', select_format=('A', 0))
        add = {'extra': dict((n, float(k)) for k, n in enumerate(NAMES))}
        write_parameters(output, par_file + '_add', select_format=('N', 2), additional=add)

    header, table = parse_parameter_file(par_file)
    header2, table_all = parse_parameter_file(par_file + '_all')
    header3, table_add = parse_parameter_file(par_file + '_add')
    check(header[5:] == ['par1', 'par2', 'par3'], "parameter header %s" % header)
    check(header3[5:] == ['par1', 'par2', 'par3', 'extra'], "parameter header (additional) %s" % header3)
    model_dir, records = read_first_records(output)
    check(model_dir == d, "model_dir in fit file")
    check([r.source.name for r in records] == [s[0] for s in specs], "sources in the fit file")

    label = "v%i %s %s%s" % (version, 'aperture-dependent' if apdep else 'aperture-independent', mode, tag)

    for rec in records:
        name = rec.source.name
        p = plants[name]
        logf, w = what_fitter_sees(p)
        chi2_i, av_i, sc_i = indep_fit(grid, apdep, logd, avlaw, logf, w)
        order = np.argsort(chi2_i)
        m = p['m']
        n_used = int(np.sum(w > 0))
        # --- premise: planted model is independently the best, and the others are far away
        check(order[0] == m, "%s %s: independent fit does not rank the planted model first" % (label, name))
        check(chi2_i[order[1]] > 50. * max(chi2_i[m], 0.02), "%s %s: degenerate package (second best chi2 %g vs %g)" % (label, name, chi2_i[order[1]], chi2_i[m]))
        chi2_tol = 1e-3
        # --- first record of the fit output file
        check(rec.model_name[0].strip() == NAMES[m], "%s %s: first record is %s, planted %s" % (label, name, rec.model_name[0], NAMES[m]))
        c0, a0, s0 = float(rec.chi2[0]), float(rec.av[0]), float(rec.sc[0])
        check(0. <= c0 + 1e-9 and c0 < chi2_tol, "%s %s: chi2 of the planted model %g (tolerance %g)" % (label, name, c0, chi2_tol))
        check(abs(a0 - p['av0']) < 2e-3, "%s %s: A_V %g planted %g" % (label, name, a0, p['av0']))
        check(abs(s0 - p['sc0']) < 2e-4, "%s %s: scale %g planted %g" % (label, name, s0, p['sc0']))
        # and against the independent fit (only single precision storage in between)
        check(abs(a0 - av_i[m]) < 2e-3, "%s %s: A_V %g independent %g" % (label, name, a0, av_i[m]))
        check(abs(s0 - sc_i[m]) < 2e-4, "%s %s: scale %g independent %g" % (label, name, s0, sc_i[m]))
        check(abs(c0 - chi2_i[m]) < 1e-3 + 0.02 * chi2_i[m], "%s %s: chi2 %g independent %g" % (label, name, c0, chi2_i[m]))
        check(len(rec.chi2) == 3 and np.all(np.diff(np.asarray(rec.chi2, float)) >= 0), "%s %s: records not sorted" % (label, name))
        check(rec.model_name[1].strip() == NAMES[order[1]], "%s %s: second record %s independent %s" % (label, name, rec.model_name[1], NAMES[order[1]]))
        # --- first data row of the parameter table(s)
        for tab, nrows, npar in ((table, 1, 3), (table_all, 3, 3), (table_add, 2, 4)):
            n_data, rows = tab[name]
            check(n_data == n_used and len(rows) == nrows, "%s %s: n_data / n_fits" % (label, name))
            row = rows[0]
            check(row[0] == '1' and row[1] == NAMES[m], "%s %s: first row is %s, planted %s" % (label, name, row[:2], NAMES[m]))
            check(row[2] == ('%10.3f' % c0).strip() and float(row[2]) < chi2_tol + 5e-4, "%s %s: chi2 column %s" % (label, name, row[2]))
            check(row[3] == ('%10.3f' % a0).strip() and abs(float(row[3]) - p['av0']) < 2.5e-3, "%s %s: av column %s" % (label, name, row[3]))
            check(row[4] == ('%10.3f' % s0).strip() and abs(float(row[4]) - p['sc0']) < 7e-4, "%s %s: scale column %s" % (label, name, row[4]))
            expect = [('%10.3e' % x).strip() for x in par[m]]
            if npar == 4:
                expect.append(('%10.3e' % float(m)).strip())
            check(row[5:] == expect, "%s %s: parameters %s expected %s (row of %s)" % (label, name, row[5:], expect, NAMES[m]))
            if nrows > 1:
                m2 = order[1]
                check(rows[1][1] == NAMES[m2] and rows[1][5:8] == [('%10.3e' % x).strip() for x in par[m2]], "%s %s: second row" % (label, name))

    print("ok   %-45s %i sources" % (label, len(records)))

    ctx = dict(d=d, grid=grid, logd=logd, avlaw=avlaw, plants=plants, specs=specs, output=output,
               filter_names=filter_names, records=records, data_file=data_file, par_file=par_file, label=label)
    if hook is not None:
        hook(ctx)
    return ctx


def fitter_reuse(ctx, extinction, apdep, use_memmap=False):
    """One Fitter, used several times on the same Source objects (and on altered ones)."""
    with quiet():
        fitter = Fitter(ctx['filter_names'], AP_ARCSEC * u.arcsec, ctx['d'], extinction_law=extinction,
                        distance_range=list(DRANGE_KPC) * u.kpc, av_range=list(AV_RANGE), use_memmap=use_memmap)
    sources = {}
    for line in open(ctx['data_file']):
        s = Source.from_ascii(line)
        sources[s.name] = s
    first = {}
    for rnd in range(3):
        for name in sorted(sources, reverse=bool(rnd % 2)):
            info = fitter.fit(sources[name])
            p = ctx['plants'][name]
            res = (info.model_name[0].strip(), float(np.asarray(info.chi2, float)[0]),
                   float(np.asarray(info.av, float)[0]), float(np.asarray(info.sc, float)[0]),
                   tuple(np.asarray(info.model_id)))
            check(res[0] == NAMES[p['m']], "%s %s: Fitter re-use round %i: %s first" % (ctx['label'], name, rnd, res[0]))
            check(abs(res[2] - p['av0']) < 2e-3 and abs(res[3] - p['sc0']) < 2e-4,
                  "%s %s: Fitter re-use round %i: av/scale" % (ctx['label'], name, rnd))
            if rnd == 0:
                first[name] = res
            else:
                check(res == first[name], "%s %s: repeated fit of the same source differs" % (ctx['label'], name))
    # the same Source object, altered IN PLACE to the photometry of another planted model
    s = sources['src_a']
    pa, ph = ctx['plants']['src_a'], ctx['plants']['src_h']
    s.flux[:] = ph['flux']
    s.error[:] = ph['err']
    info = fitter.fit(s)
    check(info.model_name[0].strip() == NAMES[ph['m']] and abs(float(np.asarray(info.av, float)[0]) - ph['av0']) < 2e-3,
          "%s: source altered in place is not re-evaluated" % ctx['label'])
    # and through the setters, back to the original
    s.flux = pa['flux'].copy()
    s.error = pa['err'].copy()
    info = fitter.fit(s)
    check(info.model_name[0].strip() == NAMES[pa['m']] and tuple(np.asarray(info.model_id)) == first['src_a'][4],
          "%s: source re-set through the setters" % ctx['label'])
    print("ok   %-45s Fitter re-used (use_memmap=%s)" % (ctx['label'], use_memmap))
    return fitter, sources


def main(extra=None, hook=None):
    root = tempfile.mkdtemp(prefix='c08demo_')
    try:
        rng = np.random.default_rng(20240607)
        flux = make_model_fluxes(rng)
        filters = make_filters(rng)
        par = np.column_stack([rng.random(N_MODELS), 1e3 * rng.random(N_MODELS), -1e-5 * rng.random(N_MODELS)])
        ext = make_extinction()
        ctxs = []
        ctxs.append((run_package(root, 1, False, 'bb', flux, filters, par, rng, ext, hook=hook), False))
        ctxs.append((run_package(root, 1, True, 'bb', flux, filters, par, rng, ext, conf_yes='y', data_as_handle=True, hook=hook), True))
        ctxs.append((run_package(root, 2, False, 'bb', flux, filters, par, rng, ext, conf_no='n', hook=hook), False))
        ctxs.append((run_package(root, 2, True, 'bb', flux, filters, par, rng, ext, conf_yes='YES', hook=hook), True))
        root2 = os.path.join(root, 'mono')
        os.mkdir(root2)
        run_package(root2, 2, True, 'mono', flux, filters, par, rng, ext, tag=' (wavelengths)', hook=hook)
        run_package(root2, 2, False, 'mono', flux, filters, par, rng, ext, tag=' (wavelengths)', hook=hook)
        for k, (ctx, apdep) in enumerate(ctxs):
            ctx['fitter'], ctx['sources'] = fitter_reuse(ctx, ext, apdep, use_memmap=bool(k % 2))
        if extra is not None:
            extra(root, ctxs, ext, dict(flux=flux, filters=filters, par=par, rng=rng))
        print("ALL OK (%i checks)" % CHECKS[0])
    finally:
        shutil.rmtree(root, ignore_errors=True)


# ---------------------------------------------------------------------------
# Specific to this change: fit files in every pickle protocol (written by the
# library, or by hand as older / newer versions would), in-memory FitInfo
# objects, and path-like file names
# ---------------------------------------------------------------------------

def check_table(filename, ctx, par, what, names=None):
    header, table = parse_parameter_file(filename)
    check(header[5:] == ['par1', 'par2', 'par3'], "%s: header" % what)
    names = sorted(ctx['plants']) if names is None else names
    check(sorted(table) == sorted(names), "%s: sources in the table %s" % (what, sorted(table)))
    for name in names:
        p = ctx['plants'][name]
        row = table[name][1][0]
        check(row[0] == '1' and row[1] == NAMES[p['m']], "%s %s %s: first row is %s, planted %s" % (ctx['label'], what, name, row[:2], NAMES[p['m']]))
        check(float(row[2]) < 1.5e-3 and abs(float(row[3]) - p['av0']) < 2.5e-3 and abs(float(row[4]) - p['sc0']) < 7e-4,
              "%s %s %s: chi2/av/scale %s" % (ctx['label'], what, name, row[2:5]))
        check(row[5:] == [('%10.3e' % x).strip() for x in par[p['m']]], "%s %s %s: parameters" % (ctx['label'], what, name))


def check_first_records(filename, ctx, what):
    model_dir, records = read_first_records(filename)
    check(type(model_dir) is str and model_dir == ctx['d'], "%s: model_dir %r" % (what, model_dir))
    check(len(records) == len(ctx['plants']), "%s: number of records" % what)
    for rec in records:
        p = ctx['plants'][rec.source.name]
        check(rec.model_name[0].strip() == NAMES[p['m']] and float(rec.chi2[0]) < 1e-3 and
              abs(float(rec.av[0]) - p['av0']) < 2e-3 and abs(float(rec.sc[0]) - p['sc0']) < 2e-4,
              "%s %s %s: first record" % (ctx['label'], what, rec.source.name))


def extra(root, ctxs, ext, stuff):
    import pathlib
    from sedfitter.fit_info import FitInfoFile, FitInfo
    par = stuff['par']
    accepted = []
    for k, (ctx, apdep) in enumerate(ctxs):
        fitter, sources = ctx['fitter'], ctx['sources']
        order = [sp[0] for sp in ctx['specs']]
        # src_a was altered and restored by the re-use test; take fresh ones
        sources = dict((s.name, s) for s in (Source.from_ascii(l) for l in open(ctx['data_file'])))
        infos = [fitter.fit(sources[n]) for n in order]
        for info in infos:
            info.keep(('N', 3))
        base = os.path.join(root, 'x%i_' % k)

        # (1) in-memory results: one object, a list, a tuple; twice on the same objects
        with quiet():
            for rnd in range(2):
                write_parameters(infos, base + 'mem_list')
                write_parameters(tuple(infos), base + 'mem_tuple', select_format=('N', 2))
                write_parameters(infos[2], base + 'mem_one')
        check_table(base + 'mem_list', ctx, par, 'list of FitInfo')
        check_table(base + 'mem_tuple', ctx, par, 'tuple of FitInfo')
        check_table(base + 'mem_one', ctx, par, 'single FitInfo', names=[order[2]])
        check(all(len(i.chi2) == 3 for i in infos), "write_parameters changed the objects passed in")

        # (2) files written by hand in every protocol (as older and newer versions would)
        for proto in (0, 1, 2, 3, 4, pickle.HIGHEST_PROTOCOL, 'mixed'):
            fn = base + 'proto_%s' % proto
            with open(fn, 'wb') as fh:
                protos = [2, 4, 3, 5] if proto == 'mixed' else [proto] * 4
                pickle.dump(infos[0].meta.model_dir, fh, protos[0])
                pickle.dump(infos[0].meta.filters, fh, protos[1])
                pickle.dump(infos[0].meta.extinction_law, fh, protos[2])
                for j, info in enumerate(infos):
                    pickle.dump(info, fh, protos[3] if proto != 'mixed' else (2, 3, 4, 5)[j % 4])
            with quiet():
                write_parameters(fn, fn + '.txt')
            check_table(fn + '.txt', ctx, par, 'hand-written file, protocol %s' % proto)

        # (3) written through FitInfoFile, read back with plain pickle and with FitInfoFile,
        #     twice from the same file; appended records stay in order
        fn = base + 'fif'
        fout = FitInfoFile(fn, 'w')
        for info in infos:
            fout.write(info)
        fout.close()
        check_first_records(fn, ctx, 'FitInfoFile')
        for rnd in range(2):
            fin = FitInfoFile(fn, 'r')
            check(fin.meta.model_dir == ctx['d'] and len(fin.meta.filters) == 5 and np.array_equal(fin.meta.extinction_law.wav.value, ext.wav.value), "meta read back")
            got = list(fin)
            fin.close()
            check([g.source.name for g in got] == order, "records read back in order")
            for g, info in zip(got, infos):
                check(g.source == info.source and np.array_equal(g.model_name, info.model_name) and
                      np.array_equal(np.asarray(g.chi2, float), np.asarray(info.chi2, float)) and
                      np.array_equal(np.asarray(g.av, float), np.asarray(info.av, float)) and
                      np.array_equal(np.asarray(g.sc, float), np.asarray(info.sc, float)) and
                      np.array_equal(g.model_id, info.model_id) and g.model_fluxes is not None and
                      np.array_equal(g.model_fluxes, info.model_fluxes), "record read back differs")
        with quiet():
            write_parameters(fn, fn + '.txt')
        check_table(fn + '.txt', ctx, par, 'FitInfoFile')
        # an empty file name / wrong types are refused as before
        for bad in (None, 3, 2.5, b'bytes', {'a': 1}):
            try:
                FitInfoFile(bad, 'r')
                check(False, "FitInfoFile accepted %r" % (bad,))
            except TypeError:
                check(True, "")

        # (4) path-like file names: accepted (then the property must hold through them) or
        #     refused with an exception (never silently something else)
        pdir = pathlib.Path(ctx['d'])
        pout = pathlib.Path(base + 'path_out')
        try:
            with quiet():
                fit(pathlib.Path(ctx['data_file']), ctx['filter_names'], AP_ARCSEC * u.arcsec, pdir, pout,
                    extinction_law=ext, distance_range=list(DRANGE_KPC) * u.kpc,
                    av_range=list(AV_RANGE), output_format=('N', 3))
                write_parameters(pout, pathlib.Path(base + 'path_pars'))
                write_parameters(pout, pathlib.PurePath(base + 'path_pars2'), select_format=('A', 0))
        except (TypeError, AttributeError):
            accepted.append(False)
        else:
            accepted.append(True)
            check_first_records(str(pout), ctx, 'path-like names')
            check_table(base + 'path_pars', ctx, par, 'path-like names')
            check_table(base + 'path_pars2', ctx, par, 'path-like names (all)')
        if accepted[-1] and k in (0, 2):
            # convolution of a package given as a Path gives the same convolved files
            import filecmp
            d2 = ctx['d'] + '_copy'
            shutil.copytree(ctx['d'], d2)
            shutil.rmtree(os.path.join(d2, 'convolved'))
            with quiet():
                convolve_model_dir(pathlib.Path(d2), [f[0] for f in stuff['filters']])
            for f in FILTER_DEFS:
                a = Table.read(os.path.join(d2, 'convolved', f[0] + '.fits'), hdu=1)
                b = Table.read(os.path.join(ctx['d'], 'convolved', f[0] + '.fits'), hdu=1)
                check(np.array_equal(a['TOTAL_FLUX'], b['TOTAL_FLUX']) and list(a['MODEL_NAME']) == list(b['MODEL_NAME']), "convolved file through a Path")
    check(len(set(accepted)) == 1, "path-like names accepted for some packages only")
    print("ok   in-memory results, all pickle protocols, FitInfoFile round trips; path-like names %s" % ('accepted' if accepted[0] else 'refused (TypeError)'))


if __name__ == '__main__':
    main(extra=extra)
