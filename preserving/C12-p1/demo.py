import sys, os
sys.path.insert(0, os.getcwd())

import itertools
import tempfile
import pathlib

import numpy as np
from astropy import units as u

import sedfitter
assert os.path.dirname(os.path.abspath(sedfitter.__file__)) == os.path.join(os.getcwd(), 'sedfitter'), sedfitter.__file__

from sedfitter.sed import SED, SEDCube
from sedfitter.convolved_fluxes import ConvolvedFluxes

C_MICRON_HZ = 2.99792458e14  # c in micron * Hz
KPC_CM = 3.0856775814913674e21
FLUX_UNITS = {'mJy': u.mJy, 'Jy': u.Jy, 'cgs': u.erg / u.cm ** 2 / u.s, 'lum': u.erg / u.s}
TMP = tempfile.mkdtemp(prefix='c12demo_')
N_CHECKS = [0]


def close(a, b, rtol=1e-12):
    a = np.asarray(a, dtype=float)
    b = np.asarray(b, dtype=float)
    assert a.shape == b.shape, (a.shape, b.shape)
    assert np.all(np.abs(a - b) <= rtol * np.abs(b)), (a, b)
    N_CHECKS[0] += 1


def exact(a, b):
    a = np.asarray(a)
    b = np.asarray(b)
    assert a.shape == b.shape, (a.shape, b.shape)
    assert np.array_equal(a, b), (a, b)
    N_CHECKS[0] += 1


def to_cgs(values, kind, nu_hz, d_cm):
    """independent conversion of plain arrays to erg/cm^2/s (nu F_nu)"""
    if kind == 'mJy':
        return values * 1e-26 * nu_hz
    if kind == 'Jy':
        return values * 1e-23 * nu_hz
    if kind == 'cgs':
        return values
    if kind == 'lum':
        return values / d_cm ** 2
    raise ValueError(kind)


def from_cgs(values, kind, nu_hz, d_cm):
    if kind == 'mJy':
        return values / nu_hz / 1e-26
    if kind == 'Jy':
        return values / nu_hz / 1e-23
    if kind == 'cgs':
        return values
    if kind == 'lum':
        return values * d_cm ** 2
    raise ValueError(kind)


def make_wav(rng, n_wav, descending):
    wav = np.sort(10. ** rng.uniform(-1., 3., n_wav))
    # make sure they are distinct
    wav = wav * (1. + 1e-3 * np.arange(n_wav))
    if descending:
        wav = wav[::-1].copy()
    return wav


def check_sed(rng, n_ap, n_wav, descending, kind, with_ap, as_path=False):
    wav = make_wav(rng, n_wav, descending)
    nu = C_MICRON_HZ / wav
    if not with_ap:
        n_ap = 1
    flux = 10. ** rng.uniform(-3, 3, (n_ap, n_wav))
    err = flux * rng.uniform(0.01, 0.2, (n_ap, n_wav))
    d_cm = 1.7 * KPC_CM

    s = SED()
    s.name = 'model_%d_%d' % (n_ap, n_wav)
    s.distance = 1.7 * u.kpc
    s.wav = wav * u.micron
    s.nu = nu * u.Hz
    if with_ap:
        s.apertures = np.sort(rng.uniform(10., 1e4, n_ap)) * u.au
        ap_au = s.apertures.value.copy()
    s.flux = flux * FLUX_UNITS[kind]
    s.error = err * FLUX_UNITS[kind]

    fn = os.path.join(TMP, 'sed_%d.fits' % N_CHECKS[0])
    fn_arg = pathlib.Path(fn) if as_path else fn
    try:
        s.write(fn_arg)
    except TypeError:
        # Path objects are not promised to be accepted
        assert as_path
        s.write(fn)

    # the object that was written is not modified by writing
    exact(s.wav.value, wav)
    exact(s.nu.value, nu)
    exact(s.flux.value, flux)
    exact(s.error.value, err)

    asc = np.argsort(wav, kind='stable')

    for rep in range(2):  # second call on the same file
        for order in ('nu', 'wav'):
            exp_idx = asc if order == 'wav' else asc[::-1]
            for kind_out in FLUX_UNITS:
                r = SED.read(fn, unit_flux=FLUX_UNITS[kind_out], order=order)
                assert r.name == s.name
                close(r.distance.to(u.cm).value, d_cm)
                assert r.wav.unit == u.micron and r.nu.unit == u.Hz
                close(r.wav.value, wav[exp_idx])
                close(r.nu.value, nu[exp_idx])
                if order == 'wav':
                    assert np.all(np.diff(r.wav.value) > 0)
                else:
                    assert np.all(np.diff(r.nu.value) > 0)
                assert r.flux.unit.is_equivalent(FLUX_UNITS[kind_out])
                exp_f = from_cgs(to_cgs(flux, kind, nu, d_cm), kind_out, nu, d_cm)[:, exp_idx]
                exp_e = from_cgs(to_cgs(err, kind, nu, d_cm), kind_out, nu, d_cm)[:, exp_idx]
                close(r.flux.to(FLUX_UNITS[kind_out]).value, exp_f)
                close(r.error.to(FLUX_UNITS[kind_out]).value, exp_e)
                assert r.flux.shape == (n_ap, n_wav)
                if with_ap:
                    close(r.apertures.to(u.au).value, ap_au)
                else:
                    assert r.n_ap == 1
            # default units, other wavelength / frequency units
            r = SED.read(fn, unit_wav=u.cm, unit_freq=u.GHz, order=order)
            close(r.wav.value, wav[exp_idx] * 1e-4)
            close(r.nu.value, nu[exp_idx] * 1e-9)
            close(r.flux.value, to_cgs(flux, kind, nu, d_cm)[:, exp_idx])
            close(r.error.value, to_cgs(err, kind, nu, d_cm)[:, exp_idx])
    try:
        SED.read(fn, order='lambda')
    except ValueError:
        pass
    else:
        raise AssertionError('bad order accepted')
    return s, fn


def check_cube(rng, n_models, n_ap, n_wav, descending, kind, with_ap, with_unc, use_nu=False, dtype=float):
    wav = make_wav(rng, n_wav, descending)
    nu = C_MICRON_HZ / wav
    if not with_ap:
        n_ap = 1
    val = (10. ** rng.uniform(-3, 3, (n_models, n_ap, n_wav))).astype(dtype)
    unc = (val * rng.uniform(0.01, 0.2, (n_models, n_ap, n_wav))).astype(dtype)
    names = np.array(['m%04d_x' % (7 * i + 3) for i in range(n_models)])
    valid = (rng.uniform(size=n_models) > 0.3).astype(int)

    c = SEDCube()
    c.names = names
    c.valid = valid
    c.distance = 2.5 * u.kpc
    if use_nu:
        c.nu = nu * u.Hz
    else:
        c.wav = wav * u.micron
    if with_ap:
        ap = np.sort(rng.uniform(10., 1e4, n_ap))
        c.apertures = ap * u.au
    c.val = val * FLUX_UNITS[kind]
    if with_unc:
        c.unc = unc * FLUX_UNITS[kind]

    # both spectral axes available whichever was set, repeatedly
    for rep in range(2):
        close(c.wav.to(u.micron).value, wav)
        close(c.nu.to(u.Hz).value, nu)

    fn = os.path.join(TMP, 'cube_%d.fits' % N_CHECKS[0])
    c.write(fn)
    exact(c.val.value, val)

    asc = np.argsort(wav, kind='stable')

    for rep in range(2):
        for order, memmap in itertools.product(('nu', 'wav'), (True, False)):
            exp_idx = asc if order == 'wav' else asc[::-1]
            r = SEDCube.read(fn, order=order, memmap=memmap)
            exact(r.names, names)
            exact(np.asarray(r.valid).astype(int), valid)
            close(r.distance.to(u.cm).value, 2.5 * KPC_CM)
            for rep2 in range(2):
                close(r.wav.to(u.micron).value, wav[exp_idx])
                close(r.nu.to(u.Hz).value, nu[exp_idx])
            assert r.val.unit == FLUX_UNITS[kind], (r.val.unit, kind)
            exact(r.val.value, val[:, :, exp_idx])
            assert r.val.shape == (n_models, n_ap, n_wav)
            if with_unc:
                assert r.unc.unit == FLUX_UNITS[kind]
                exact(r.unc.value, unc[:, :, exp_idx])
            else:
                assert r.unc is None
            if with_ap:
                close(r.apertures.to(u.au).value, ap)
            else:
                assert r.apertures is None
            # every cell individually (model, aperture, wavelength)
            for im in range(n_models):
                for iw in range(n_wav):
                    j = int(np.argmin(np.abs(r.wav.to(u.micron).value - wav[iw])))
                    assert abs(r.wav.to(u.micron).value[j] - wav[iw]) <= 1e-12 * wav[iw]
                    assert np.array_equal(r.val.value[im, :, j], val[im, :, iw])
            # extraction of single models, from the read cube and the original
            for im in list(range(n_models)) + [0]:
                for cube, idx in ((r, exp_idx), (c, np.arange(n_wav))):
                    sed = cube.get_sed(names[im])
                    assert sed.name == names[im]
                    close(sed.wav.to(u.micron).value, wav[idx])
                    close(sed.nu.to(u.Hz).value, nu[idx])
                    exact(sed.flux.value, val[im][:, idx])
                    assert sed.flux.unit == FLUX_UNITS[kind]
                    if with_unc:
                        exact(sed.error.value, unc[im][:, idx])
                    else:
                        assert sed.error is None
                    if with_ap:
                        close(sed.apertures.to(u.au).value, ap)
                    else:
                        assert sed.apertures is None
            try:
                r.get_sed('m0003')  # prefix of a name, not a name
            except ValueError:
                pass
            else:
                raise AssertionError('unknown model accepted')
    return c, fn


def check_conv(rng, n_models, n_ap, kind, with_ap):
    if not with_ap:
        n_ap = 1
    names = np.array(['conv_%05d' % (11 * i) for i in range(n_models)])
    flux = 10. ** rng.uniform(-3, 3, (n_models, n_ap))
    err = flux * rng.uniform(0.01, 0.2, (n_models, n_ap))
    c = ConvolvedFluxes()
    c.model_names = names
    c.central_wavelength = 3.6 * u.micron
    if with_ap:
        ap = np.sort(rng.uniform(10., 1e4, n_ap))
        c.apertures = ap * u.au
    c.flux = flux * FLUX_UNITS[kind]
    c.error = err * FLUX_UNITS[kind]
    fn = os.path.join(TMP, 'conv_%d.fits' % N_CHECKS[0])
    c.write(fn)
    for rep in range(2):
        r = ConvolvedFluxes.read(fn)
        exact(np.char.strip(np.asarray(r.model_names).astype(str)), names)
        close(r.central_wavelength.to(u.micron).value, 3.6)
        assert r.flux.unit == FLUX_UNITS[kind] and r.error.unit == FLUX_UNITS[kind]
        exact(r.flux.value, flux)
        exact(r.error.value, err)
        if with_ap:
            close(r.apertures.to(u.au).value, ap)
        else:
            assert r.apertures is None
    return c, fn


def common_checks(seed=12345):
    rng = np.random.default_rng(seed)
    kinds = list(FLUX_UNITS)
    k = 0
    # boundary sizes and some in between
    for n_wav in (2, 3, 17, 40):
        for n_ap in (1, 2, 5):
            for descending in (False, True):
                kind = kinds[k % 4]
                k += 1
                with_ap = (k % 3 != 0)
                check_sed(rng, n_ap, n_wav, descending, kind, with_ap, as_path=(k % 5 == 0))
    for n_models in (1, 3, 6):
        for n_wav in (2, 9, 40):
            for descending in (False, True):
                kind = kinds[k % 4]
                k += 1
                check_cube(rng, n_models, 1 + k % 5, n_wav, descending, kind,
                           with_ap=(k % 3 != 0), with_unc=(k % 2 == 0), use_nu=(k % 4 == 1))
    # single precision cube (legal, unusual)
    check_cube(rng, 4, 3, 11, True, 'mJy', True, True, dtype=np.float32)
    for n_models in (1, 6):
        for n_ap in (1, 5):
            for with_ap in (True, False):
                kind = kinds[k % 4]
                k += 1
                check_conv(rng, n_models, n_ap, kind, with_ap)


###########################################################################
# checks specific to this change: SED.read / SED.write spectral ordering
###########################################################################

def specific_checks():
    rng = np.random.default_rng(777)

    # 1. write the same object twice, and read / re-write / re-read: the
    #    object is unchanged and the two files give the same answer
    for descending in (False, True):
        s, fn = check_sed(rng, 3, 7, descending, 'mJy', True)
        fn2 = fn.replace('.fits', '_again.fits')
        s.write(fn2)
        s.write(fn2, overwrite=True)
        a = SED.read(fn, unit_flux=u.mJy, order='wav')
        b = SED.read(fn2, unit_flux=u.mJy, order='wav')
        exact(a.flux.value, b.flux.value)
        exact(a.wav.value, b.wav.value)
        # chain: read in wav order, write, read in nu order
        fn3 = fn.replace('.fits', '_chain.fits')
        a.write(fn3)
        c = SED.read(fn3, unit_flux=u.mJy, order='nu')
        close(c.flux.value, a.flux.value[:, ::-1])
        close(c.error.value, a.error.value[:, ::-1])
        close(c.wav.value, a.wav.value[::-1])
        close(c.nu.value, a.nu.value[::-1])

    # 2. a spectral axis that is neither increasing nor decreasing (legal for
    #    write, which sorts by frequency): every cell still goes with its
    #    wavelength
    n_ap, n_wav = 2, 9
    wav = make_wav(rng, n_wav, False)[rng.permutation(n_wav)]
    nu = C_MICRON_HZ / wav
    flux = 10. ** rng.uniform(-2, 2, (n_ap, n_wav))
    err = 0.1 * flux
    s = SED()
    s.name = 'shuffled'
    s.distance = 1. * u.kpc
    s.wav = wav * u.micron
    s.nu = nu * u.Hz
    s.apertures = [100., 1000.] * u.au
    s.flux = flux * u.mJy
    s.error = err * u.mJy
    fn = os.path.join(TMP, 'shuffled.fits')
    s.write(fn)
    asc = np.argsort(wav)
    r = SED.read(fn, unit_flux=u.mJy, order='wav')
    close(r.wav.value, wav[asc])
    close(r.flux.value, flux[:, asc])
    close(r.error.value, err[:, asc])
    r = SED.read(fn, unit_flux=u.mJy, order='nu')
    close(r.wav.value, wav[asc[::-1]])
    close(r.flux.value, flux[:, asc[::-1]])
    exact(s.flux.value, flux)
    exact(s.wav.value, wav)

    # 3. wavelengths given in other units / frequency in GHz, descending
    wav = make_wav(rng, 5, True)
    s = SED()
    s.name = 'units'
    s.distance = 3.e21 * u.cm
    s.wav = (wav * 1e-4) * u.cm
    s.nu = (C_MICRON_HZ / wav * 1e-9) * u.GHz
    flux = 10. ** rng.uniform(-2, 2, (1, 5))
    s.flux = flux * u.Jy
    s.error = flux * 0.05 * u.Jy
    fn = os.path.join(TMP, 'units.fits')
    s.write(fn)
    r = SED.read(fn, unit_flux=u.Jy, order='wav')
    close(r.wav.value, wav[::-1])
    close(r.flux.value, flux[:, ::-1])
    r = SED.read(fn, unit_flux=u.Jy, order='nu')
    close(r.wav.value, wav)
    close(r.flux.value, flux)
    close(r.error.value, 0.05 * flux)

    # 4. missing .gz extension is still found
    import gzip, shutil
    with open(fn, 'rb') as f_in, gzip.open(os.path.join(TMP, 'zipped.fits.gz'), 'wb') as f_out:
        shutil.copyfileobj(f_in, f_out)
    r = SED.read(os.path.join(TMP, 'zipped.fits'), unit_flux=u.Jy, order='nu')
    close(r.flux.value, flux)

    # 5. missing parts are still refused on writing
    s2 = SED()
    s2.name = 'incomplete'
    s2.distance = 1. * u.kpc
    s2.wav = [1., 2.] * u.micron
    s2.nu = (C_MICRON_HZ / np.array([1., 2.])) * u.Hz
    s2.flux = [[1., 2.]] * u.mJy
    try:
        s2.write(os.path.join(TMP, 'incomplete.fits'))
    except ValueError:
        pass
    else:
        raise AssertionError('SED without errors written')


if __name__ == '__main__':
    common_checks()
    specific_checks()
    import shutil
    shutil.rmtree(TMP, ignore_errors=True)
    print('demo OK (%d array comparisons)' % N_CHECKS[0])
