import sys, os; sys.path.insert(0, os.getcwd())

# Demonstration for property C13 (aperture interpolation: exact at tabulated
# radii, linear between, clamped above, refused below; names/order/wavelength
# untouched; single-aperture tables repeated; wavelength-dependent variant
# equals the linear interpolant at each filter's aperture).
#
# Everything is compared against a plain-Python scalar reference
# implementation that does not use numpy/scipy interpolation or astropy unit
# conversion.

import pickle
import tempfile
import warnings

import numpy as np
from astropy import units as u

warnings.simplefilter('ignore')

import sedfitter
assert os.path.dirname(os.path.abspath(sedfitter.__file__)) == os.path.join(os.getcwd(), 'sedfitter'), sedfitter.__file__

from sedfitter.convolved_fluxes import ConvolvedFluxes
from sedfitter.sed import SED

# metres per unit, written out by hand
METRES = {'au': 1.49597870700e11,
          'pc': 1.49597870700e11 * 648000. / 3.141592653589793,
          'cm': 1.e-2,
          'km': 1.e3,
          'm': 1.,
          'micron': 1.e-6}
UNITS = {'au': u.au, 'pc': u.pc, 'cm': u.cm, 'km': u.km, 'm': u.m}

DUMP = []
N_CHECKS = [0]


class Refused(Exception):
    pass


def factor(from_name, to_name):
    return METRES[from_name] / METRES[to_name]


def ref_interp(tab_r, tab_y, r):
    """
    Scalar reference: tab_r increasing list of floats, tab_y list of floats
    """
    if len(tab_r) == 1:
        return tab_y[0]
    if r > tab_r[-1]:
        r = tab_r[-1]
    if r < tab_r[0]:
        raise Refused()
    for k in range(len(tab_r)):
        if r == tab_r[k]:
            return tab_y[k]
    for k in range(len(tab_r) - 1):
        if tab_r[k] < r < tab_r[k + 1]:
            t = (r - tab_r[k]) / (tab_r[k + 1] - tab_r[k])
            return tab_y[k] + (tab_y[k + 1] - tab_y[k]) * t
    raise AssertionError("unreachable")


def close(a, b, rtol, atol=0.):
    N_CHECKS[0] += 1
    return abs(a - b) <= atol + rtol * max(abs(a), abs(b))


def plain(x):
    return np.asarray(getattr(x, 'value', x), dtype=float)


def make_table(rng, n_ap, n_models, unit_name, dtype=np.float64, with_apertures=True):
    names = np.array(['model_%03i_%s' % (rng.integers(1000), 'abcdefgh'[i]) for i in range(n_models)])
    # shuffle so that the names are not in alphabetical order
    names = names[rng.permutation(n_models)]
    ap = np.cumsum(rng.lognormal(mean=0., sigma=1., size=n_ap)) * 10. ** rng.uniform(-1, 3)
    ap = ap * factor('au', unit_name)
    flux = np.cumsum(rng.lognormal(size=(n_models, n_ap)), axis=1) * 10. ** rng.uniform(-3, 3, size=(n_models, 1))
    # not necessarily monotonic
    flux[rng.random(flux.shape) < 0.2] *= 0.5
    error = rng.lognormal(size=(n_models, n_ap)) * 0.1
    c = ConvolvedFluxes()
    c.central_wavelength = float(rng.uniform(0.5, 500.)) * u.micron
    c.model_names = names
    if with_apertures:
        c.apertures = ap.astype(dtype) * UNITS[unit_name]
    else:
        assert n_ap == 1
        c.apertures = None
    c.flux = flux.astype(dtype) * u.mJy
    c.error = error.astype(dtype) * u.Jy
    return c


def snapshot(c):
    return (None if c.apertures is None else (c.apertures.value.copy(), c.apertures.unit),
            c.flux.value.copy(), c.flux.unit, c.error.value.copy(), c.error.unit,
            c.model_names.copy(), c.central_wavelength)


def same_snapshot(a, b):
    if (a[0] is None) != (b[0] is None):
        return False
    if a[0] is not None:
        if not (np.array_equal(a[0][0], b[0][0]) and a[0][1] == b[0][1]):
            return False
    return (np.array_equal(a[1], b[1]) and a[2] == b[2] and np.array_equal(a[3], b[3]) and a[4] == b[4]
            and np.array_equal(a[5], b[5]) and a[6] == b[6])


def check_conv(c, req_values, req_unit_name, rtol, expect_refused=False, label=''):
    """
    Interpolate the ConvolvedFluxes c to req_values (floats, in req_unit_name)
    and compare everything to the scalar reference.
    """
    before = snapshot(c)
    req = np.array(req_values, dtype=float) * UNITS[req_unit_name]
    req_copy = req.copy()

    if c.apertures is None:
        tab_unit_name = req_unit_name
        tab_r = [1.]
    else:
        tab_unit_name = [k for k in UNITS if UNITS[k] == c.apertures.unit][0]
        tab_r = [float(x) for x in c.apertures.value]

    try:
        out = c.interpolate(req)
    except Exception as exc:
        assert expect_refused, "unexpected refusal %s: %r" % (label, exc)
        assert 'too small' in str(exc), exc
        assert same_snapshot(before, snapshot(c))
        N_CHECKS[0] += 1
        return None
    assert not expect_refused, "request below the table was not refused " + label

    # the inputs are untouched
    assert same_snapshot(before, snapshot(c)), label
    assert np.array_equal(req.value, req_copy.value) and req.unit == req_copy.unit, label

    # a second call gives the same
    out2 = c.interpolate(req)
    assert np.array_equal(out.flux.value, out2.flux.value)
    assert np.array_equal(out.error.value, out2.error.value)
    assert np.array_equal(out.apertures.value, out2.apertures.value)

    # names, order, wavelength
    assert out.model_names.shape == c.model_names.shape
    assert list(out.model_names) == list(c.model_names), label
    assert out.central_wavelength == c.central_wavelength
    assert out.central_wavelength.unit == c.central_wavelength.unit
    assert out.n_models == c.n_models

    # units and shapes
    assert isinstance(out.flux, u.Quantity) and out.flux.unit == c.flux.unit
    assert isinstance(out.error, u.Quantity) and out.error.unit == c.error.unit
    assert out.flux.shape == (c.n_models, len(req_values))
    assert out.error.shape == (c.n_models, len(req_values))
    assert out.apertures.shape == (len(req_values),)
    if c.apertures is not None:
        assert out.apertures.unit == c.apertures.unit

    f = factor(req_unit_name, tab_unit_name)
    for j, rv in enumerate(req_values):
        r = rv * f if req_unit_name != tab_unit_name else rv
        # returned apertures: the request, clamped to the largest tabulated one
        if len(tab_r) > 1:
            expected_ap = min(r, tab_r[-1])
        else:
            expected_ap = r
        assert close(float(out.apertures.value[j]), expected_ap, 1e-12), (label, j)
        for i in range(c.n_models):
            ef = ref_interp(tab_r, [float(x) for x in c.flux.value[i]], r)
            ee = ref_interp(tab_r, [float(x) for x in c.error.value[i]], r)
            assert close(float(out.flux.value[i, j]), ef, rtol), (label, i, j, out.flux.value[i, j], ef)
            assert close(float(out.error.value[i, j]), ee, rtol), (label, i, j, out.error.value[i, j], ee)
            # exact at a tabulated radius given in the unit of the table,
            # and exactly the largest-aperture value above the table
            # (float32 apertures: differences of radii are rounded, so only close)
            if len(tab_r) == 1 or (req_unit_name == tab_unit_name and (r in tab_r or r > tab_r[-1]) and c.apertures.dtype == np.float64):
                assert float(out.flux.value[i, j]) == ef, (label, i, j, r, tab_r, out.flux.value[i, j], ef)
                assert float(out.error.value[i, j]) == ee, (label, i, j)
                N_CHECKS[0] += 2

    DUMP.append(('conv', label, out.flux.value.copy(), out.error.value.copy(), out.apertures.value.copy()))
    return out


def requests_for(rng, tab_r, n_inside=4):
    """
    Requests inside, on and above the table (in the unit of the table)
    """
    req = []
    lo, hi = tab_r[0], tab_r[-1]
    if len(tab_r) > 1:
        req += list(rng.uniform(lo, hi, size=n_inside))
        # half-way and very close to tabulated radii
        k = int(rng.integers(len(tab_r) - 1))
        req.append(0.5 * (tab_r[k] + tab_r[k + 1]))
        req.append(tab_r[k] + 1e-9 * (tab_r[k + 1] - tab_r[k]))
        req.append(tab_r[k + 1] - 1e-9 * (tab_r[k + 1] - tab_r[k]))
    req += list(tab_r)                      # on, including smallest and largest
    req += [hi * (1 + 1e-12), hi * 1.5, hi * 1.e4]   # above
    req = np.array(req)
    return [float(x) for x in req[rng.permutation(len(req))]]


def run_convolved(rng, n_tables=40):

    for it in range(n_tables):
        n_ap = int(rng.integers(1, 9)) if it >= 8 else it + 1
        n_models = int(rng.integers(1, 7))
        unit_name = ['au', 'pc', 'cm', 'km', 'm'][it % 5]
        dtype = np.float32 if it % 4 == 3 else np.float64
        rtol = 2e-6 if dtype is np.float32 else 1e-11
        c = make_table(rng, n_ap, n_models, unit_name, dtype=dtype)
        tab_r = [float(x) for x in c.apertures.value]
        label = 'table %i (%i ap, %i models, %s, %s)' % (it, n_ap, n_models, unit_name, dtype.__name__)

        # in the unit of the table
        check_conv(c, requests_for(rng, tab_r), unit_name, rtol, label=label + ' same unit')

        # a single request, and a request that repeats values
        check_conv(c, [tab_r[-1]], unit_name, rtol, label=label + ' single')
        check_conv(c, [tab_r[0], tab_r[0], tab_r[-1] * 2, tab_r[-1] * 2], unit_name, rtol, label=label + ' repeated')

        # in another unit: stay clear of the smallest radius by more than the
        # round-off of a unit conversion
        other = ['pc', 'cm', 'au', 'm', 'km'][it % 5]
        g = factor(unit_name, other)
        req = [r * g for r in requests_for(rng, tab_r) if r > tab_r[0] * (1 + 1e-9) or len(tab_r) == 1]
        req.append(tab_r[0] * (1 + 1e-7) * g)
        check_conv(c, req, other, max(rtol, 1e-9), label=label + ' other unit ' + other)

        # below the table: refused, also if only one of many is too small, and
        # also if it is only just too small
        if n_ap > 1:
            check_conv(c, [tab_r[0] * 0.5], unit_name, rtol, expect_refused=True, label=label)
            check_conv(c, [tab_r[-1], tab_r[0] * (1 - 1e-9), tab_r[1]], unit_name, rtol, expect_refused=True, label=label)
            check_conv(c, [tab_r[0] * 0.9995], unit_name, rtol, expect_refused=True, label=label)
            check_conv(c, [tab_r[0] * 0.9 * g, tab_r[-1] * 3 * g], other, rtol, expect_refused=True, label=label)
        else:
            # a single-aperture table is simply repeated, whatever is asked
            check_conv(c, [tab_r[0] * 0.5, tab_r[0], tab_r[0] * 7], unit_name, rtol, label=label + ' n_ap=1 any radius')

        # unusual but legal forms of the request: a Quantity made from a list,
        # a non-contiguous view, a float32 Quantity
        if n_ap > 1:
            mid = 0.5 * (tab_r[0] + tab_r[1])
            expected = [[ref_interp(tab_r, [float(x) for x in c.flux.value[i]], r) for r in (mid, tab_r[-1])] for i in range(n_models)]
            o1 = c.interpolate([mid, tab_r[-1] * 5] * UNITS[unit_name])
            big = np.array([mid, -1., tab_r[-1] * 5, -1.]) * UNITS[unit_name]
            o2 = c.interpolate(big[::2])
            assert np.array_equal(o1.flux.value, o2.flux.value)
            assert big.value[1] == -1. and big.value[2] == tab_r[-1] * 5
            for i in range(n_models):
                for j in range(2):
                    assert close(float(o1.flux.value[i, j]), expected[i][j], rtol)
            mid32 = float(np.float32(mid))
            if tab_r[0] < mid32 < tab_r[1]:
                o3 = c.interpolate(np.array([mid32], dtype=np.float32) * UNITS[unit_name])
                for i in range(n_models):
                    e = ref_interp(tab_r, [float(x) for x in c.flux.value[i]], mid32)
                    assert close(float(o3.flux.value[i, 0]), e, rtol)

        # the table changes: a later call must follow
        if n_ap > 1:
            c.flux = c.flux * 3.
            newerr = c.error.value.copy()
            newerr[:, -1] = 0.125
            c.error = newerr * c.error.unit
            o = check_conv(c, [tab_r[0], 0.25 * tab_r[0] + 0.75 * tab_r[1], tab_r[-1] * 9], unit_name, rtol, label=label + ' after change')
            assert np.all(o.error.value[:, -1] == 0.125)
            # in-place modification of the stored arrays
            c.flux[0, 0] = c.flux[0, 0] * 2
            check_conv(c, [tab_r[0], 0.5 * tab_r[0] + 0.5 * tab_r[1]], unit_name, rtol, label=label + ' after in-place change')
            # new apertures
            c.apertures = c.apertures * 2.
            tab_r2 = [float(x) for x in c.apertures.value]
            check_conv(c, requests_for(rng, tab_r2), unit_name, rtol, label=label + ' after new apertures')

    # tables without apertures at all
    for it in range(4):
        c = make_table(rng, 1, it + 1, 'au', with_apertures=False)
        check_conv(c, [0.5, 1.0, 1.5, 1e6], ['au', 'pc'][it % 2], 1e-12, label='no apertures %i' % it)


def run_files(rng):
    """
    Through FITS files, as the fitter does, read twice
    """
    tmpdir = tempfile.mkdtemp()
    for it in range(4):
        n_ap = [1, 2, 5, 8][it]
        c = make_table(rng, n_ap, it + 2, ['au', 'cm', 'pc', 'au'][it], dtype=[np.float64, np.float32][it % 2])
        filename = os.path.join(tmpdir, 'conv_%i.fits' % it)
        c.write(filename)
        for repeat in range(2):
            c2 = ConvolvedFluxes.read(filename)
            assert list(np.char.strip(c2.model_names)) == list(c.model_names)
            tab_r = [float(x) for x in c2.apertures.value]
            unit_name = [k for k in UNITS if UNITS[k] == c2.apertures.unit][0]
            assert [float(x) for x in c.apertures.value] == tab_r
            rtol = 2e-6 if it % 2 else 1e-11
            # apertures in AU from arcsec x distance in pc, as in models.py
            aperture_arcsec = 3.
            distances_pc = np.logspace(0, 4, 7)
            req_au = aperture_arcsec * distances_pc
            g = factor(unit_name, 'au')
            ok = [float(x) for x in req_au if x > tab_r[0] * g * (1 + 1e-9) or n_ap == 1]
            ok += [tab_r[-1] * g * 2]
            check_conv(c2, ok, 'au', max(rtol, 1e-9), label='file %i read %i' % (it, repeat))
            check_conv(c2, requests_for(rng, tab_r), unit_name, rtol, label='file %i read %i same unit' % (it, repeat))


def make_sed(rng, n_ap, n_wav, unit_name, dtype=np.float64, with_apertures=True, reverse=False):
    s = SED()
    s.name = 'sed_%i' % rng.integers(1000)
    s.distance = 1. * u.kpc
    wav = np.sort(10. ** rng.uniform(-1, 3, size=n_wav))
    if reverse:
        wav = wav[::-1]
    s.wav = wav * u.micron
    ap = np.cumsum(rng.lognormal(size=n_ap))
    ap = (ap + 0.05 * ap[0] * np.arange(n_ap)) * 10. ** rng.uniform(0, 3) * factor('au', unit_name)
    if with_apertures:
        s.apertures = ap.astype(dtype) * UNITS[unit_name]
    else:
        s.apertures = None
    flux = np.cumsum(rng.lognormal(size=(n_ap, n_wav)), axis=0) * 10. ** rng.uniform(-12, -8)
    s.flux = flux.astype(dtype) * u.erg / u.cm ** 2 / u.s
    s.error = (0.1 * flux).astype(dtype) * u.erg / u.cm ** 2 / u.s
    return s


def sed_tab_au(s):
    unit_name = [k for k in UNITS if UNITS[k] == s.apertures.unit][0]
    f = factor(unit_name, 'au')
    return [float(x) * f for x in s.apertures.value], unit_name


def check_sed(s, req_au, rtol, form='bare', expect_refused=False, label=''):
    """
    SED.interpolate with req_au (floats in AU) passed as bare numbers or as a
    Quantity in some unit
    """
    flux_before = s.flux.value.copy()
    ap_before = None if s.apertures is None else s.apertures.value.copy()
    if form == 'bare':
        req = np.array(req_au, dtype=float)
    else:
        req = np.array(req_au, dtype=float) * factor('au', form) * UNITS[form]
    try:
        out = s.interpolate(req)
    except Exception as exc:
        assert expect_refused, "unexpected refusal %s: %r" % (label, exc)
        assert 'too small' in str(exc), exc
        N_CHECKS[0] += 1
        return None
    assert not expect_refused, "request below the table was not refused " + label
    if form == 'bare':
        req = np.array(req_au, dtype=float)
    else:
        req = np.array(req_au, dtype=float) * factor('au', form) * UNITS[form]
    out2 = s.interpolate(req)
    assert np.array_equal(plain(out), plain(out2))
    assert np.array_equal(s.flux.value, flux_before)
    assert s.apertures is None or np.array_equal(s.apertures.value, ap_before)
    out = plain(out)
    assert out.shape == (s.n_wav, len(req_au)), (out.shape, label)

    if s.apertures is None or s.n_ap == 1:
        tab_r = [1.]
    else:
        tab_r, unit_name = sed_tab_au(s)
    for iw in range(s.n_wav):
        col = [float(x) for x in s.flux.value[:, iw]]
        for j, r in enumerate(req_au):
            e = ref_interp(tab_r, col, r)
            assert close(float(out[iw, j]), e, rtol), (label, iw, j, out[iw, j], e)
            if len(tab_r) == 1 or r > tab_r[-1] * (1 + 1e-9):
                assert float(out[iw, j]) == col[-1]
                N_CHECKS[0] += 1
    DUMP.append(('sed', label, out.copy()))
    return out


def ref_variable_apertures(filt_wav, filt_ap, sed_wav):
    """
    Aperture as a function of wavelength: linear in log-log between the
    filters, constant outside. Scalar python.
    """
    import math
    pairs = sorted(zip(filt_wav, filt_ap))
    lw = [math.log10(p[0]) for p in pairs]
    la = [math.log10(p[1]) for p in pairs]
    result = []
    for w in sed_wav:
        x = math.log10(w)
        if x <= lw[0]:
            result.append(10. ** la[0])
        elif x >= lw[-1]:
            result.append(10. ** la[-1])
        else:
            for k in range(len(lw) - 1):
                if lw[k] <= x <= lw[k + 1]:
                    t = (x - lw[k]) / (lw[k + 1] - lw[k])
                    result.append(10. ** (la[k] + (la[k + 1] - la[k]) * t))
                    break
    return result


def check_sed_variable(s, filt_wav, filt_ap_au, rtol, label=''):
    flux_before = s.flux.value.copy()
    out = s.interpolate_variable(np.array(filt_wav, dtype=float), np.array(filt_ap_au, dtype=float))
    out2 = s.interpolate_variable(np.array(filt_wav, dtype=float), np.array(filt_ap_au, dtype=float))
    assert np.array_equal(plain(out), plain(out2))
    assert np.array_equal(s.flux.value, flux_before)
    out = plain(out)
    assert out.shape == (s.n_wav,), out.shape
    sed_wav = [float(x) for x in s.wav.to(u.micron).value]
    if s.apertures is None or s.n_ap == 1:
        for iw in range(s.n_wav):
            assert float(out[iw]) == float(s.flux.value[0, iw])
            N_CHECKS[0] += 1
        return out
    tab_r, unit_name = sed_tab_au(s)
    # the library brings apertures above the table to just inside it
    clamped = [a if a <= tab_r[-1] else tab_r[-1] * 0.999 for a in filt_ap_au]
    ap_w = ref_variable_apertures(filt_wav, clamped, sed_wav)
    for iw in range(s.n_wav):
        col = [float(x) for x in s.flux.value[:, iw]]
        a = min(max(ap_w[iw], tab_r[0]), tab_r[-1])
        e = ref_interp(tab_r, col, a)
        assert close(float(out[iw]), e, rtol), (label, iw, out[iw], e)
        # at a filter wavelength: the interpolant at that filter's aperture
        for fw, fa in zip(filt_wav, clamped):
            if fw == sed_wav[iw] and list(filt_wav).count(fw) == 1:
                e = ref_interp(tab_r, col, fa)
                assert close(float(out[iw]), e, rtol), (label, 'filter', iw, out[iw], e)
    DUMP.append(('sedvar', label, out.copy()))
    return out


def run_sed(rng, n_seds=30):

    for it in range(n_seds):
        n_ap = int(rng.integers(1, 9)) if it >= 8 else it + 1
        n_wav = int(rng.integers(3, 30))
        unit_name = ['au', 'pc', 'cm', 'km', 'm'][it % 5]
        dtype = np.float32 if it % 4 == 2 else np.float64
        if dtype is np.float32:
            # a float32 table converted to AU would only be known to 1e-7
            unit_name = 'au'
        rtol = 2e-6 if dtype is np.float32 else 1e-10
        s = make_sed(rng, n_ap, n_wav, unit_name, dtype=dtype, reverse=(it % 3 == 0))
        tab_r, _ = sed_tab_au(s)
        label = 'sed %i (%i ap, %i wav, %s, %s)' % (it, n_ap, n_wav, unit_name, dtype.__name__)

        def inside_table(r):
            # a tabulated radius survives a unit conversion only to round-off
            return r > tab_r[0] * (1 + 1e-9) or n_ap == 1

        req = requests_for(rng, tab_r)
        if unit_name == 'au':
            check_sed(s, req, rtol, form='bare', label=label + ' bare')
            check_sed(s, req, rtol, form='au', label=label + ' au')
        safe = [r for r in req if inside_table(r)]
        check_sed(s, safe, max(rtol, 1e-9), form='bare', label=label + ' bare safe')
        check_sed(s, safe, max(rtol, 1e-9), form='pc', label=label + ' pc')
        check_sed(s, safe, max(rtol, 1e-9), form='cm', label=label + ' cm')
        check_sed(s, [safe[0]], max(rtol, 1e-9), form='bare', label=label + ' single')

        if n_ap > 1:
            check_sed(s, [tab_r[0] * 0.5], rtol, expect_refused=True, label=label)
            check_sed(s, [tab_r[-1], tab_r[0] * 0.9995, tab_r[-1] * 2], rtol, form='pc', expect_refused=True, label=label)
            check_sed(s, [tab_r[0] * (1 - 1e-6)], rtol, form='bare', expect_refused=True, label=label)
        else:
            check_sed(s, [tab_r[0] * 0.5, tab_r[0] * 2], rtol, label=label + ' n_ap=1')

        # wavelength-dependent variant; filters on wavelengths of the SED,
        # apertures inside, on and above the table
        sed_wav = [float(x) for x in s.wav.value]
        n_filt = int(rng.integers(1, min(6, n_wav) + 1))
        idx = rng.choice(n_wav, size=n_filt, replace=False)
        filt_wav = [sed_wav[i] for i in idx]
        lo, hi = tab_r[0], tab_r[-1]
        filt_ap = list(rng.uniform(lo * (1 + 1e-6), max(hi, lo * 1.001), size=n_filt))
        check_sed_variable(s, filt_wav, filt_ap, max(rtol, 1e-9), label=label + ' variable inside')
        filt_ap2 = list(filt_ap)
        filt_ap2[0] = hi
        if n_filt > 1:
            filt_ap2[1] = lo * (1 + 1e-9) if n_ap > 1 else lo
        if n_filt > 2:
            filt_ap2[2] = hi * 3.
        check_sed_variable(s, filt_wav, filt_ap2, max(rtol, 1e-9), label=label + ' variable on/above')
        # filters between the wavelengths of the SED
        filt_wav3 = sorted(10. ** rng.uniform(-0.5, 2.5, size=3))[::-1]
        check_sed_variable(s, filt_wav3, [hi * 0.9 + lo * 0.1, lo + 0.01 * (hi - lo), hi], max(rtol, 1e-9), label=label + ' variable off-grid')
        if n_ap > 1:
            try:
                s.interpolate_variable(np.array(filt_wav), np.array([lo * 0.5] * n_filt))
            except Exception as exc:
                assert 'too small' in str(exc)
                N_CHECKS[0] += 1
            else:
                raise AssertionError("variable: too small aperture accepted")

        # the SED changes: a later call must follow
        if n_ap > 1:
            s.flux = s.flux * 2.
            check_sed(s, safe, max(rtol, 1e-9), form='bare', label=label + ' after change')
            s.flux[0, 0] = s.flux[0, 0] * 3.
            check_sed(s, safe, max(rtol, 1e-9), form='bare', label=label + ' after in-place change')
            check_sed_variable(s, filt_wav, filt_ap, max(rtol, 1e-9), label=label + ' variable after change')

    # SEDs without apertures at all
    for it in range(3):
        s = make_sed(rng, 1, 5 + it, 'au', with_apertures=False)
        check_sed(s, [0.5, 10., 1e7], 1e-12, form=['bare', 'pc', 'bare'][it], label='sed no apertures %i' % it)
        check_sed_variable(s, [1., 10.], [100., 1000.], 1e-12, label='sed no apertures variable %i' % it)

    # The in-place clamp of a bare request that SED.interpolate has always done
    s = make_sed(rng, 3, 4, 'au')
    tab_r, _ = sed_tab_au(s)
    req = np.array([tab_r[1], tab_r[-1] * 2])
    s.interpolate(req)
    assert req[0] == tab_r[1] and req[1] == tab_r[-1]
    N_CHECKS[0] += 1


def run_sed_files(rng):
    tmpdir = tempfile.mkdtemp()
    for it in range(3):
        s = make_sed(rng, [2, 4, 8][it], 12, ['au', 'cm', 'pc'][it])
        filename = os.path.join(tmpdir, 'sed_%i.fits' % it)
        s.write(filename)
        for repeat in range(2):
            s2 = SED.read(filename, order='wav')
            assert s2.name == s.name
            tab_r, _ = sed_tab_au(s2)
            req = [r for r in requests_for(rng, tab_r) if r > tab_r[0] * (1 + 1e-9)]
            check_sed(s2, req, 1e-9, form='bare', label='sed file %i read %i' % (it, repeat))
            w = [float(x) for x in s2.wav.value]
            check_sed_variable(s2, [w[2], w[7], w[10]], [tab_r[0] * 1.5 if tab_r[0] * 1.5 < tab_r[-1] else tab_r[-1], tab_r[-1], tab_r[-1] * 10],
                               1e-9, label='sed file %i read %i variable' % (it, repeat))


def main(extra=None):
    rng = np.random.default_rng(20130913)
    devnull = open(os.devnull, 'w')
    stdout = sys.stdout
    sys.stdout = devnull
    try:
        run_convolved(rng)
        run_files(rng)
        run_sed(rng)
        run_sed_files(rng)
        if extra is not None:
            extra(rng)
    finally:
        sys.stdout = stdout
    if os.environ.get('C13_DEMO_DUMP'):
        with open(os.environ['C13_DEMO_DUMP'], 'wb') as f:
            pickle.dump(DUMP, f)
    print("C13 demo: %i comparisons against the scalar reference, all fine" % N_CHECKS[0])


def extra(rng):
    # Other forms of the request. Which forms are understood is not part of
    # the property; but a form that is understood has to give the stated
    # values, and a request below the table has to be refused in any form.
    import inspect
    understood = {}

    def attempt(name, call):
        try:
            result = call()
        except Exception as exc:
            if 'too small' in str(exc):
                raise AssertionError("request inside the table refused as too small: " + name)
            understood.setdefault(name, False)
            return None
        understood[name] = True
        return result

    def must_refuse(name, call):
        try:
            call()
        except Exception as exc:
            assert isinstance(exc, Exception)
            if 'too small' in str(exc):
                assert str(exc).startswith("Aperture(s) requested too small"), str(exc)
            N_CHECKS[0] += 1
            return
        raise AssertionError("request below the table accepted: " + name)

    for it in range(12):
        n_ap = int(rng.integers(2, 9))
        n_models = int(rng.integers(1, 7))
        unit_name = ['au', 'pc', 'cm'][it % 3]
        unit = UNITS[unit_name]
        c = make_table(rng, n_ap, n_models, unit_name)
        tab_r = [float(x) for x in c.apertures.value]
        r_in = 0.3 * tab_r[0] + 0.7 * tab_r[1]
        r_on = tab_r[-2]
        r_above = tab_r[-1] * 4
        r_below = tab_r[0] * 0.7

        def expected(r, i, what):
            return ref_interp(tab_r, [float(x) for x in getattr(c, what).value[i]], r)

        forms = {
            'conv scalar quantity': (lambda r: c.interpolate(r * unit), 1),
            'conv numpy scalar quantity': (lambda r: c.interpolate(np.float64(r) * unit), 1),
            'conv list of quantities': (lambda r: c.interpolate([r * unit, tab_r[0] * unit]), 2),
            'conv tuple of quantities': (lambda r: c.interpolate((r * unit, tab_r[0] * unit)), 2),
            'conv quantity from tuple': (lambda r: c.interpolate(u.Quantity((r, tab_r[0]), unit)), 2),
            'conv int quantity': (lambda r: c.interpolate(u.Quantity([r, tab_r[0]], unit)[:]), 2),
        }
        for name, (call, n) in forms.items():
            for repeat in range(2):
                for r in (r_in, r_on, r_above):
                    o = attempt(name, lambda: call(r))
                    if o is None:
                        continue
                    assert o.flux.shape == (n_models, n) and o.error.shape == (n_models, n)
                    assert list(o.model_names) == list(c.model_names)
                    assert o.central_wavelength == c.central_wavelength
                    for i in range(n_models):
                        assert close(float(o.flux.value[i, 0]), expected(r, i, 'flux'), 1e-11), name
                        assert close(float(o.error.value[i, 0]), expected(r, i, 'error'), 1e-11), name
                        if n == 2:
                            assert float(o.flux.value[i, 1]) == float(c.flux.value[i, 0])
                    assert close(float(o.apertures.value[0]), min(r, tab_r[-1]), 1e-12)
            must_refuse(name, lambda: call(r_below))
        # bare numbers have never been understood by ConvolvedFluxes.interpolate
        for bad in ([r_in, r_on], np.array([r_in]), r_in, [r_in * unit, r_on]):
            try:
                c.interpolate(bad)
            except TypeError:
                N_CHECKS[0] += 1
            else:
                raise AssertionError("bare numbers accepted")

        # the same for SEDs
        s = make_sed(rng, n_ap, 9, 'au' if it % 2 else 'pc')
        stab, _ = sed_tab_au(s)
        a_in = 0.3 * stab[0] + 0.7 * stab[1]
        a_on = stab[-2]
        a_above = stab[-1] * 4
        a_below = stab[0] * 0.7
        first = stab[0] * (1 + 1e-9)

        def sexpected(r, iw):
            return ref_interp(stab, [float(x) for x in s.flux.value[:, iw]], r)

        pc = factor('au', 'pc')
        sforms = {
            'sed list': (lambda r: s.interpolate([r, first]), 2),
            'sed tuple': (lambda r: s.interpolate((r, first)), 2),
            'sed float': (lambda r: s.interpolate(r), 1),
            'sed numpy scalar': (lambda r: s.interpolate(np.float64(r)), 1),
            'sed scalar quantity': (lambda r: s.interpolate(r * pc * u.pc), 1),
            'sed list of quantities': (lambda r: s.interpolate([r * pc * u.pc, first * u.au]), 2),
            'sed int list': (lambda r: s.interpolate([int(r)]), 1),
            'sed array': (lambda r: s.interpolate(np.array([r, first])), 2),
            'sed quantity': (lambda r: s.interpolate([r * pc, first * pc] * u.pc), 2),
        }
        for name, (call, n) in sforms.items():
            for repeat in range(2):
                for r in (a_in, a_on, a_above):
                    rr = r
                    if name == 'sed int list':
                        rr = float(int(r))
                        if rr < first:
                            continue
                    o = attempt(name, lambda: call(r))
                    if o is None:
                        continue
                    o = plain(o)
                    assert o.shape == (s.n_wav, n), (name, o.shape)
                    for iw in range(s.n_wav):
                        assert close(float(o[iw, 0]), sexpected(rr, iw), 1e-9), name
                        if n == 2:
                            assert close(float(o[iw, 1]), sexpected(first, iw), 1e-9), name
            must_refuse(name, lambda: call(a_below))

        w = [float(x) for x in s.wav.value]
        fw = [w[1], w[4], w[7]]
        fa = [a_in, a_on, a_above]
        vforms = {
            'variable arrays': lambda a: s.interpolate_variable(np.array(fw), np.array(a)),
            'variable lists': lambda a: s.interpolate_variable(list(fw), list(a)),
            'variable tuples': lambda a: s.interpolate_variable(tuple(fw), tuple(a)),
            'variable quantities': lambda a: s.interpolate_variable(np.array(fw) * 1e-4 * u.cm, np.array(a) * pc * u.pc),
            'variable mixed': lambda a: s.interpolate_variable(list(fw), np.array(a) * u.au),
        }
        clamped = [x if x <= stab[-1] else stab[-1] * 0.999 for x in fa]
        ap_w = ref_variable_apertures(fw, clamped, w)
        for name, call in vforms.items():
            for repeat in range(2):
                o = attempt(name, lambda: call(fa))
                if o is None:
                    continue
                o = plain(o)
                assert o.shape == (s.n_wav,)
                for iw in range(s.n_wav):
                    a = min(max(ap_w[iw], stab[0]), stab[-1])
                    assert close(float(o[iw]), sexpected(a, iw), 1e-9), name
                for k, i in enumerate((1, 4, 7)):
                    assert close(float(o[i]), sexpected(clamped[k], i), 1e-9), name
            must_refuse(name, lambda: call([a_below, a_on, a_in]))

        # arrays without units given by the caller are still clamped in place
        req = np.array([a_in, a_above])
        s.interpolate(req)
        assert req[0] == a_in and close(req[1], stab[-1], 1e-15)
        req = np.array(fa)
        s.interpolate_variable(np.array(fw), req)
        assert req[0] == a_in and close(req[2], stab[-1] * 0.999, 1e-15)
        # ... but quantities are not
        req = np.array([a_in, a_above]) * u.au
        s.interpolate(req)
        assert req.value[1] == a_above

        # optional trailing arguments, where there are any, keep the values
        if 'with_units' in inspect.signature(s.interpolate).parameters:
            base = plain(s.interpolate(np.array([a_in, a_above])))
            for flag in (False, True):
                o = s.interpolate(np.array([a_in, a_above]), with_units=flag)
                if flag:
                    assert o.unit == s.flux.unit
                else:
                    assert not isinstance(o, u.Quantity)
                assert np.array_equal(plain(o), base)
            understood['with_units'] = True

        # the description of an object does not depend on what was asked of it
        assert repr(c) == repr(c) and repr(s) == repr(s)
        assert isinstance(repr(c), str) and isinstance(repr(s), str)

    # the ordinary forms are always understood
    for name in ('conv quantity from tuple', 'conv int quantity', 'sed array', 'sed quantity', 'variable arrays'):
        assert understood[name], name
    sys.stderr.write("forms understood: %s\n" % ', '.join(sorted(k for k in understood if understood[k])))
    sys.stderr.write("forms not understood: %s\n" % ', '.join(sorted(k for k in understood if not understood[k])))


if __name__ == "__main__":
    main(extra)
