import sys, os; sys.path.insert(0, os.getcwd())

# Change p2 (kind b): lazily allocated ConvolvedFluxes arrays, memoised (content-keyed) spectral axis
# conversion in the cubes, per-call reuse of cube slices (compact copies) when reading wavelength filters.

# Demonstration for property C16 (monochromatic convolution emits every
# in-range wavelength at any memory limit; wavelength 'filters' of a cube
# package select the nearest tabulated slice).  Everything that is expected is
# computed here from the arrays that were used to build the packages, and the
# output files are inspected with astropy.io.fits directly.
#
# Window convention used by the library (and by its documentation: "only
# wavelengths below wav_max"): a tabulated wavelength w is inside the window
# when wav_min <= w < wav_max.

import copy
import pickle
import shutil
import tempfile
import itertools

import numpy as np
from astropy import units as u
from astropy.io import fits
from astropy.table import Table
from astropy import log

import sedfitter
assert os.path.dirname(os.path.abspath(sedfitter.__file__)) == os.path.join(os.getcwd(), 'sedfitter'), sedfitter.__file__

from sedfitter.sed import SED, SEDCube
from sedfitter.models import Models
from sedfitter.convolve import convolve_model_dir_monochromatic
from sedfitter.convolved_fluxes import ConvolvedFluxes, MonochromaticFluxes

log.setLevel('ERROR')

ROOT = tempfile.mkdtemp(prefix='c16demo_')
N_CALLS = [0]


class Package(object):
    pass


def build_perfile(name, n_wav, n_ap, n_models, rng, explicit_single_aperture=False,
                  subdirs=False, gz=False, increasing_wav_in_memory=True):
    """A per-file (version 1) package; returns what was put into it."""
    d = os.path.join(ROOT, name)
    os.makedirs(os.path.join(d, 'seds'))
    pk = Package()
    pk.dir = d
    pk.n_wav, pk.n_ap, pk.n_models = n_wav, n_ap, n_models
    # strictly increasing, irregular wavelengths (micron)
    pk.wav = np.round(np.cumsum(rng.uniform(0.7, 6.0, n_wav)), 4)
    if n_ap == 1 and not explicit_single_aperture:
        pk.apertures = None
    else:
        pk.apertures = np.round(np.cumsum(rng.uniform(50., 500., n_ap)), 2)
    pk.names = ['mdl_{0:02d}_{1}'.format(i, 'abcxyz'[int(rng.integers(0, 6))]) for i in range(n_models)]
    pk.flux = {}
    pk.error = {}
    for i, nm in enumerate(pk.names):
        fl = np.cumsum(rng.uniform(0.1, 3., (n_ap, n_wav)), axis=0) * 10. ** rng.uniform(-3, 3)
        er = fl * rng.uniform(0.001, 0.1, (n_ap, n_wav))
        pk.flux[nm], pk.error[nm] = fl, er
        s = SED()
        s.name = nm
        s.distance = 1. * u.kpc
        if increasing_wav_in_memory or i % 2 == 0:
            s.wav = pk.wav * u.micron
            s.nu = s.wav.to(u.Hz, equivalencies=u.spectral())
            s.apertures = None if pk.apertures is None else pk.apertures * u.au
            s.flux = fl * u.mJy
            s.error = er * u.mJy
        else:
            s.wav = pk.wav[::-1] * u.micron
            s.nu = s.wav.to(u.Hz, equivalencies=u.spectral())
            s.apertures = None if pk.apertures is None else pk.apertures * u.au
            s.flux = fl[:, ::-1] * u.mJy
            s.error = er[:, ::-1] * u.mJy
        sub = os.path.join(d, 'seds', nm[:5]) if subdirs else os.path.join(d, 'seds')
        if not os.path.exists(sub):
            os.mkdir(sub)
        s.write(os.path.join(sub, nm + '_sed.fits' + ('.gz' if gz and i % 2 == 1 else '')))
    with open(os.path.join(d, 'models.conf'), 'w') as f:
        f.write("name = demo\nlength_subdir = {0}\naperture_dependent = {1}\nlogd_step = 0.02\n".format(
            5 if subdirs else 0, 'yes' if n_ap > 1 else 'no'))
    # parameter table in an order that is neither the file order nor sorted
    pk.par_order = [pk.names[k] for k in rng.permutation(n_models)]
    if n_models > 1 and pk.par_order == sorted(pk.names):
        pk.par_order = pk.par_order[::-1]
    t = Table()
    t['MODEL_NAME'] = np.array(pk.par_order, dtype='S30')
    t['par1'] = rng.uniform(0, 1, n_models)
    t.write(os.path.join(d, 'parameters.fits'))
    return pk


def max_ram_for_chunk(pk, chunk):
    """A memory limit (Gb) for which the library's chunk size is `chunk`."""
    max_ram = (chunk + 0.5) * 4. * 2. * pk.n_models * pk.n_ap / 1024. ** 3
    assert int(np.floor(max_ram * 1024. ** 3 / (4. * 2. * pk.n_models * pk.n_ap))) == chunk
    return max_ram


def clear_convolved(pk):
    c = os.path.join(pk.dir, 'convolved')
    if os.path.exists(c):
        shutil.rmtree(c)


def expected_indices(pk, lo, hi):
    wav_desc = pk.wav[::-1]
    return [j for j in range(pk.n_wav) if lo <= wav_desc[j] < hi]


def read_outputs(pk):
    """Raw content of all files in convolved/, read with astropy.io.fits only."""
    out = {}
    c = os.path.join(pk.dir, 'convolved')
    for fn in sorted(os.listdir(c)):
        with fits.open(os.path.join(c, fn), memmap=False) as h:
            rec = {}
            rec['header'] = dict((k, h[0].header[k]) for k in ('FILTWAV', 'NMODELS', 'NAP'))
            tab = h['CONVOLVED FLUXES']
            rec['names'] = [str(x).strip() for x in np.char.decode(tab.data['MODEL_NAME']) ] \
                if tab.data['MODEL_NAME'].dtype.kind == 'S' else [str(x).strip() for x in tab.data['MODEL_NAME']]
            rec['flux'] = np.array(tab.data['TOTAL_FLUX'], dtype=float).reshape(len(rec['names']), -1)
            rec['error'] = np.array(tab.data['TOTAL_FLUX_ERR'], dtype=float).reshape(len(rec['names']), -1)
            rec['units'] = (tab.columns['TOTAL_FLUX'].unit, tab.columns['TOTAL_FLUX_ERR'].unit)
            ap = h['APERTURES']
            rec['apertures'] = (np.array(ap.data['APERTURE'], dtype=float) * u.Unit(ap.columns['APERTURE'].unit)).to(u.au).value
            rec['colnames'] = list(tab.columns.names)
        out[fn] = rec
    return out


def check_outputs(pk, table, lo, hi, what):
    wav_desc = pk.wav[::-1]
    expect = expected_indices(pk, lo, hi)
    out = read_outputs(pk)
    assert sorted(out) == ['MO{0:03d}.fits'.format(j + 1) for j in expect], (what, sorted(out), expect)
    # returned table: one row per SED wavelength, the in-range ones are named
    assert len(table) == pk.n_wav, what
    assert table.colnames[:2] == ['wav', 'filter'], what
    np.testing.assert_allclose(u.Quantity(table['wav']).to(u.micron).value, wav_desc, rtol=1e-12)
    for j in range(pk.n_wav):
        nm = table['filter'][j]
        nm = nm.decode() if isinstance(nm, bytes) else str(nm)
        assert nm.strip() == ('MO{0:03d}'.format(j + 1) if j in expect else ''), (what, j, nm)
    for j in expect:
        rec = out['MO{0:03d}.fits'.format(j + 1)]
        k = pk.n_wav - 1 - j  # index in increasing wavelength order
        np.testing.assert_allclose(rec['header']['FILTWAV'], wav_desc[j], rtol=1e-12)
        assert rec['header']['NMODELS'] == pk.n_models and rec['header']['NAP'] == pk.n_ap, what
        assert rec['colnames'] == ['MODEL_NAME', 'TOTAL_FLUX', 'TOTAL_FLUX_ERR'], what
        assert rec['names'] == pk.par_order, (what, rec['names'], pk.par_order)
        assert rec['units'] == ('mJy', 'mJy'), rec['units']
        want_f = np.array([pk.flux[nm][:, k] for nm in pk.par_order])
        want_e = np.array([pk.error[nm][:, k] for nm in pk.par_order])
        assert rec['flux'].shape == (pk.n_models, pk.n_ap), what
        np.testing.assert_allclose(rec['flux'], want_f, rtol=1e-10, atol=0, err_msg=str(what))
        np.testing.assert_allclose(rec['error'], want_e, rtol=1e-10, atol=0, err_msg=str(what))
        if pk.apertures is None:
            np.testing.assert_allclose(rec['apertures'], (1.e-30 * u.cm).to(u.au).value, rtol=1e-10)
        else:
            np.testing.assert_allclose(rec['apertures'], pk.apertures, rtol=1e-10)
    return out


def same_outputs(a, b, what):
    assert sorted(a) == sorted(b), what
    for fn in a:
        for key in ('names', 'header', 'units'):
            assert a[fn][key] == b[fn][key], (what, fn, key)
        for key in ('flux', 'error', 'apertures'):
            assert np.array_equal(a[fn][key], b[fn][key]), (what, fn, key)


def run(pk, lo=None, hi=None, chunk=None, overwrite=False, unit=u.micron, model_dir=None):
    kwargs = {}
    if lo is not None:
        kwargs['wav_min'] = (lo * u.micron).to(unit) if np.isfinite(lo) else lo * unit
    if hi is not None:
        kwargs['wav_max'] = (hi * u.micron).to(unit) if np.isfinite(hi) else hi * unit
    if chunk is not None:
        kwargs['max_ram'] = max_ram_for_chunk(pk, chunk)
    if overwrite:
        kwargs['overwrite'] = True
    N_CALLS[0] += 1
    return convolve_model_dir_monochromatic(pk.dir if model_dir is None else model_dir, **kwargs)


def window_ends(pk):
    w = pk.wav
    ends = [-np.inf, w[0] * 0.5]
    for k in range(pk.n_wav):
        ends.append(w[k])
        if k + 1 < pk.n_wav:
            ends.append(0.5 * (w[k] + w[k + 1]) + 0.01 * (w[k + 1] - w[k]))
    ends += [w[-1] * 1.5, np.inf]
    return ends


def exhaustive(pk):
    """All windows and all chunk sizes of a small package."""
    ends = window_ends(pk)
    n_single = 0
    for a, b in itertools.combinations_with_replacement(range(len(ends)), 2):
        lo, hi = ends[a], ends[b]
        if len(expected_indices(pk, lo, hi)) == 1:
            n_single += 1
        ref = None
        for chunk in range(1, pk.n_wav + 1):
            clear_convolved(pk)
            t = run(pk, lo, hi, chunk)
            out = check_outputs(pk, t, lo, hi, ('exhaustive', pk.n_wav, lo, hi, chunk))
            if ref is None:
                ref = out
            else:
                same_outputs(ref, out, ('chunk independence', lo, hi, chunk))
    assert n_single > 0


def sampled(pk, rng, n_windows, chunks):
    ends = window_ends(pk)
    for _ in range(n_windows):
        a, b = sorted(rng.integers(0, len(ends), 2))
        lo, hi = ends[a], ends[b]
        ref = None
        for chunk in chunks:
            clear_convolved(pk)
            t = run(pk, lo, hi, chunk)
            out = check_outputs(pk, t, lo, hi, ('sampled', lo, hi, chunk))
            if ref is None:
                ref = out
            else:
                same_outputs(ref, out, ('chunk independence', lo, hi, chunk))


def part_perfile():
    rng = np.random.default_rng(160016)

    # exhaustive for small numbers of wavelengths
    exhaustive(build_perfile('e2', 2, 1, 1, rng))
    exhaustive(build_perfile('e3', 3, 2, 3, rng))
    exhaustive(build_perfile('e4', 4, 3, 2, rng, increasing_wav_in_memory=False))

    # larger packages: sampled windows, chunk sizes that do and do not divide
    pk9 = build_perfile('s9', 9, 3, 5, rng, subdirs=True, gz=True)
    sampled(pk9, rng, 6, (1, 2, 4, 5, 8, 9))
    pk7 = build_perfile('s7', 7, 1, 4, rng, explicit_single_aperture=True)
    sampled(pk7, rng, 5, (1, 3, 6, 7))

    # defaults: everything, in one go (default memory limit) and not
    clear_convolved(pk9)
    t = run(pk9)
    ref = check_outputs(pk9, t, -np.inf, np.inf, 'default')
    assert len(ref) == 9
    for chunk in (1, 2, 4, 7, 9):
        clear_convolved(pk9)
        t = run(pk9, chunk=chunk)
        same_outputs(ref, check_outputs(pk9, t, -np.inf, np.inf, ('all', chunk)), ('all', chunk))

    # a second call on the same files: refused without overwrite (files
    # untouched), identical with overwrite, also at another memory limit and
    # with a narrower window (the other files stay)
    try:
        run(pk9, chunk=4)
    except OSError:
        pass
    else:
        raise AssertionError("second call without overwrite was not refused")
    same_outputs(ref, read_outputs(pk9), 'after refused call')
    t = run(pk9, chunk=4, overwrite=True)
    same_outputs(ref, check_outputs(pk9, t, -np.inf, np.inf, 'overwrite'), 'overwrite')
    w = pk9.wav
    t = run(pk9, lo=w[2], hi=w[6], chunk=3, overwrite=True)
    assert [str(x.decode() if isinstance(x, bytes) else x).strip() for x in t['filter']] == \
        ['', '', '', 'MO004', 'MO005', 'MO006', 'MO007', '', '']
    same_outputs(ref, read_outputs(pk9), 'after narrower overwrite')

    # unusual but legal input forms: other length units for the window, an
    # integer / numpy scalar memory limit, a tiny or zero limit (chunks of
    # one), a trailing slash in the directory name, a relative directory
    clear_convolved(pk7)
    w = pk7.wav
    t = run(pk7, lo=w[1], hi=w[5], chunk=2, unit=u.nm)
    o1 = check_outputs(pk7, t, w[1], w[5], 'nm')
    clear_convolved(pk7)
    t = run(pk7, lo=w[1], hi=0.5 * (w[4] + w[5]), chunk=3, unit=u.cm, model_dir=pk7.dir + '/')
    o2 = check_outputs(pk7, t, w[1], 0.5 * (w[4] + w[5]), 'cm')
    same_outputs(o1, o2, 'nm vs cm')
    for max_ram in (1, np.float32(2.), np.int64(3), 1e-15, 0):
        clear_convolved(pk7)
        t = convolve_model_dir_monochromatic(pk7.dir, False, max_ram, w[1] * u.micron, w[5] * u.micron)
        same_outputs(o1, check_outputs(pk7, t, w[1], w[5], ('max_ram', max_ram)), ('max_ram', max_ram))
    clear_convolved(pk7)
    here = os.getcwd()
    try:
        os.chdir(os.path.dirname(pk7.dir))
        t = convolve_model_dir_monochromatic(os.path.basename(pk7.dir), wav_min=w[1] * u.micron, wav_max=w[5] * u.micron,
                                             max_ram=max_ram_for_chunk(pk7, 3))
    finally:
        os.chdir(here)
    same_outputs(o1, check_outputs(pk7, t, w[1], w[5], 'relative'), 'relative')

    # boundary values: window holding exactly one wavelength at either end of
    # the table, an empty window, window ends equal to the extreme wavelengths
    for lo, hi, n in ((w[0], np.nextafter(w[0], np.inf), 1), (w[-1], np.inf, 1), (-np.inf, w[0], 0),
                      (w[3], w[3], 0), (w[0], w[-1], 6), (np.nextafter(w[0], np.inf), np.nextafter(w[-1], np.inf), 6)):
        for chunk in (1, 2, 7):
            clear_convolved(pk7)
            t = run(pk7, lo, hi, chunk)
            assert len(check_outputs(pk7, t, lo, hi, ('boundary', lo, hi, chunk))) == n

    # the files that were written are what Models reads for named filters
    clear_convolved(pk7)
    run(pk7, chunk=3)
    m = Models.read(pk7.dir, [{'name': 'MO002', 'aperture_arcsec': 1.}, {'name': 'MO007', 'aperture_arcsec': 1.}])
    assert [str(x) for x in m.names] == pk7.par_order
    np.testing.assert_allclose(m.wavelengths.to(u.micron).value, [pk7.wav[-2], pk7.wav[0]], rtol=1e-12)
    np.testing.assert_allclose(m.fluxes.to(u.mJy).value,
                               np.array([[pk7.flux[nm][0, -2], pk7.flux[nm][0, 0]] for nm in pk7.par_order]), rtol=1e-10)
    return pk9, pk7


def build_cube(name, n_wav, n_ap, n_models, rng, wav_unit=u.micron, store_nu=False):
    d = os.path.join(ROOT, name)
    os.makedirs(d)
    pk = Package()
    pk.dir = d
    pk.n_wav, pk.n_ap, pk.n_models = n_wav, n_ap, n_models
    pk.wav = np.round(np.cumsum(rng.uniform(0.7, 6.0, n_wav)), 4)
    pk.apertures = None if n_ap == 1 else np.array([100., 1000., 10000.])[:n_ap]
    pk.names = ['cube_{0:03d}'.format(i) for i in range(n_models)]
    pk.val = np.cumsum(rng.uniform(0.1, 3., (n_models, n_ap, n_wav)), axis=1)
    pk.unc = pk.val * rng.uniform(0.001, 0.1, pk.val.shape)
    cube = SEDCube()
    cube.names = np.array(pk.names)
    cube.distance = 1. * u.kpc
    if store_nu:
        cube.nu = (pk.wav * u.micron).to(u.Hz, equivalencies=u.spectral())
    else:
        cube.wav = (pk.wav * u.micron).to(wav_unit)
    if n_ap > 1:
        cube.apertures = pk.apertures * u.au
    cube.val = pk.val * u.mJy
    cube.unc = pk.unc * u.mJy
    cube.write(os.path.join(d, 'flux.fits'), overwrite=True)
    with open(os.path.join(d, 'models.conf'), 'w') as f:
        f.write("name = demo\nlength_subdir = 0\naperture_dependent = {0}\nlogd_step = 0.02\nversion = 2\n".format(
            'yes' if n_ap > 1 else 'no'))
    t = Table()
    t['MODEL_NAME'] = np.array(pk.names, dtype='S')
    t['par1'] = rng.uniform(0, 1, n_models)
    t.write(os.path.join(d, 'parameters.fits'), overwrite=True)
    return pk, cube


def requests_for(pk):
    w = pk.wav
    req = [w[0] * 0.3, w[-1] * 4.]
    for k in range(pk.n_wav):
        req.append(w[k])
        if k + 1 < pk.n_wav:
            req.append(w[k] + 0.45 * (w[k + 1] - w[k]))
            req.append(w[k] + 0.55 * (w[k + 1] - w[k]))
    return req


def check_cube_read(pk, use_memmap, units, rtol):
    req = requests_for(pk)
    filters = [{'wav': (r * u.micron).to(units[i % len(units)]), 'aperture_arcsec': 1.} for i, r in enumerate(req)]
    nearest = [int(np.argmin([abs(x - r) for x in pk.wav])) for r in req]
    if pk.n_ap == 1:
        m = Models.read(pk.dir, filters, use_memmap=use_memmap)
        got = np.asarray(m.fluxes.to(u.mJy).value, dtype=float)
        want = pk.val[:, 0, :][:, nearest]
    else:
        # one distance; 1 arcsec at 1 kpc is 1000 au, the second tabulated aperture
        m = Models.read(pk.dir, filters, distance_range=[1., 1.] * u.kpc, use_memmap=use_memmap)
        got = np.asarray(m.fluxes.to(u.mJy).value, dtype=float)[:, 0, :]
        want = pk.val[:, 1, :][:, nearest]
    assert [str(x) for x in m.names] == pk.names
    np.testing.assert_allclose(m.wavelengths.to(u.micron).value, req, rtol=1e-12)
    np.testing.assert_allclose(got, want, rtol=rtol, atol=0)
    return m


def part_cube():
    rng = np.random.default_rng(1616)
    units = (u.micron, u.nm, u.cm, u.AA, u.m)
    pk1, cube1 = build_cube('c1', 6, 1, 4, rng)
    check_cube_read(pk1, False, units, 1e-12)
    check_cube_read(pk1, False, (u.micron,), 1e-12)   # second call, same files
    check_cube_read(pk1, True, units, 1e-6)           # single precision store
    pk2, cube2 = build_cube('c2', 9, 3, 5, rng)
    check_cube_read(pk2, False, units, 1e-10)
    pk3, cube3 = build_cube('c3', 2, 2, 1, rng, wav_unit=u.nm)
    check_cube_read(pk3, False, units, 1e-10)
    pk4, cube4 = build_cube('c4', 5, 1, 3, rng, store_nu=True)
    check_cube_read(pk4, False, units, 1e-10)

    # the same directory rewritten with other wavelengths and values
    rng2 = np.random.default_rng(77)
    shutil.rmtree(pk1.dir)
    pk1b, cube1b = build_cube('c1', 6, 1, 4, rng2)
    assert not np.allclose(pk1b.wav, pk1.wav)
    check_cube_read(pk1b, False, units, 1e-12)

    # slices taken directly from a cube object, twice, and after the
    # wavelengths of the same object were replaced
    for cube, pk in ((cube2, pk2), (cube4, pk4)):
        for rep in range(2):
            for k in range(pk.n_wav):
                j = pk.n_wav - 1 - k if cube.wav[0] > cube.wav[-1] else k
                c = MonochromaticFluxes.from_sed_cube(cube, j)
                np.testing.assert_allclose(c.central_wavelength.to(u.micron).value, cube.wav.to(u.micron).value[j], rtol=1e-12)
                assert np.array_equal(c.flux.to(u.mJy).value, cube.val.to(u.mJy).value[:, :, j])
                assert np.array_equal(c.error.to(u.mJy).value, cube.unc.to(u.mJy).value[:, :, j])
                assert c.n_models == pk.n_models and c.n_ap == pk.n_ap
                c2 = pickle.loads(pickle.dumps(c))
                assert c2 == c and copy.deepcopy(c) == c
    w_old = cube4.wav.to(u.micron).value.copy()
    nu_old = cube4.nu.to(u.Hz).value.copy()
    np.testing.assert_allclose(w_old, (nu_old * u.Hz).to(u.micron, equivalencies=u.spectral()).value, rtol=1e-12)
    got = cube4.nu
    got_again = cube4.nu
    assert np.array_equal(got.value, got_again.value)
    cube4.wav = (w_old * 2.) * u.micron
    np.testing.assert_allclose(cube4.nu.to(u.Hz).value, nu_old / 2., rtol=1e-12)
    np.testing.assert_allclose(cube4.wav.to(u.micron).value, w_old * 2., rtol=1e-12)
    cube4.nu = (nu_old * 4.) * u.Hz
    np.testing.assert_allclose(cube4.wav.to(u.micron).value, w_old / 4., rtol=1e-12)
    np.testing.assert_allclose(cube4.nu.to(u.Hz).value, nu_old * 4., rtol=1e-12)
    derived = cube4.wav
    derived_value = derived.value.copy()
    try:
        derived[0] = derived[0] * 3.   # a caller scribbling on what it was handed
    except ValueError:
        pass
    np.testing.assert_allclose(cube4.wav.value, derived_value, rtol=1e-12)

    # the stored axis is handed out as it is: an edit in place must show up
    # in the other axis
    stored = cube2.wav
    nu_before = cube2.nu.to(u.Hz).value.copy()
    nu_again = cube2.nu.to(u.Hz).value.copy()
    assert np.array_equal(nu_before, nu_again)
    stored[1] = stored[1] * 1.25
    np.testing.assert_allclose(cube2.nu.to(u.Hz).value[1], nu_before[1] / 1.25, rtol=1e-12)
    np.testing.assert_allclose(np.delete(cube2.nu.to(u.Hz).value, 1), np.delete(nu_before, 1), rtol=1e-12)
    stored[1] = stored[1] / 1.25
    np.testing.assert_allclose(cube2.nu.to(u.Hz).value, nu_before, rtol=1e-12)
    # an object whose state holds nothing but the documented attributes
    # (e.g. restored from an old pickle)
    bare = SEDCube.__new__(SEDCube)
    bare.__dict__.update({'_valid': None, '_names': np.array(pk2.names), '_distance': 1. * u.kpc,
                          '_wav': None, '_nu': nu_before * u.Hz, '_apertures': cube2.apertures,
                          '_val': cube2.val, '_unc': cube2.unc})
    np.testing.assert_allclose(bare.wav.to(u.micron).value, cube2.wav.to(u.micron).value, rtol=1e-12)
    np.testing.assert_allclose(bare.wav.to(u.micron).value, cube2.wav.to(u.micron).value, rtol=1e-12)
    c = MonochromaticFluxes.from_sed_cube(bare, np.int64(2))
    assert np.array_equal(c.flux.value, cube2.val.value[:, :, 2])

    # a cube package is refused by the monochromatic convolution
    try:
        convolve_model_dir_monochromatic(pk2.dir)
    except ValueError as exc:
        assert 'monochromatic filters are no longer used' in str(exc)
    else:
        raise AssertionError("cube package not refused")
    return pk2


def part_convolved_fluxes_objects():
    """ConvolvedFluxes as used by the convolution: allocation, writing, reading."""
    d = os.path.join(ROOT, 'objects')
    os.makedirs(d)
    names = np.array(['b', 'a', 'c'], dtype='U30')
    ap = np.array([10., 20.]) * u.au
    c = ConvolvedFluxes(model_names=names.copy(), apertures=ap, initialize_arrays=True)
    assert c.n_models == 3 and c.n_ap == 2
    # written before anything was put into it: zeros
    c.central_wavelength = 3. * u.micron
    fn = os.path.join(d, 'zeros.fits')
    c.write(fn)
    z = ConvolvedFluxes.read(fn)
    assert z.flux.shape == (3, 2) and np.all(z.flux.value == 0) and np.all(z.error.value == 0)
    assert z.flux.unit == u.mJy
    assert sorted(os.listdir(d)) == ['zeros.fits']
    # fill, copy, pickle, sort, write, read
    c.flux[1] = [1., 2.] * u.mJy
    c.error[2, :] = [3., 4.] * u.mJy
    c.flux[0, 1] = 5e-3 * u.Jy
    assert c.flux.shape == (3, 2) and c.error.shape == (3, 2)
    want_f = np.array([[0., 5.], [1., 2.], [0., 0.]])
    want_e = np.array([[0., 0.], [0., 0.], [3., 4.]])
    np.testing.assert_allclose(c.flux.value, want_f, rtol=1e-12)
    np.testing.assert_allclose(c.error.value, want_e, rtol=1e-12)
    for other in (copy.deepcopy(c), pickle.loads(pickle.dumps(c)), pickle.loads(pickle.dumps(c, protocol=2))):
        assert other == c
        np.testing.assert_allclose(other.flux.value, want_f, rtol=1e-12)
    untouched = ConvolvedFluxes(model_names=names.copy(), apertures=ap, initialize_arrays=True)
    for other in (copy.deepcopy(untouched), pickle.loads(pickle.dumps(untouched))):
        assert other.flux.shape == (3, 2) and np.all(other.flux.value == 0) and other.error.unit == u.mJy
    c.sort_to_match(np.array(['a ', 'b', 'c  ']))
    assert list(c.model_names) == ['a', 'b', 'c']
    np.testing.assert_allclose(c.flux.value, want_f[[1, 0, 2]], rtol=1e-12)
    fn = os.path.join(d, 'filled.fits')
    c.write(fn)
    try:
        c.write(fn)
    except OSError:
        pass
    else:
        raise AssertionError("overwriting was not refused")
    before = open(fn, 'rb').read()
    c.write(fn, overwrite=True)
    assert open(fn, 'rb').read() == before
    c.write(fn + '.gz')
    open(os.path.join(d, 'empty.fits'), 'w').close()
    c.write(os.path.join(d, 'empty.fits'))  # an empty file is not protected (as for astropy itself)
    assert sorted(os.listdir(d)) == ['empty.fits', 'filled.fits', 'filled.fits.gz', 'zeros.fits']
    for name in ('filled.fits', 'filled.fits.gz', 'empty.fits'):
        for rep in range(2):
            r = ConvolvedFluxes.read(os.path.join(d, name))
            assert [str(x).strip() for x in r.model_names] == ['a', 'b', 'c']
            np.testing.assert_allclose(r.flux.to(u.mJy).value, want_f[[1, 0, 2]], rtol=1e-12)
            np.testing.assert_allclose(r.error.to(u.mJy).value, want_e[[1, 0, 2]], rtol=1e-12)
            np.testing.assert_allclose(r.apertures.to(u.au).value, [10., 20.], rtol=1e-12)
            np.testing.assert_allclose(r.central_wavelength.to(u.micron).value, 3., rtol=1e-12)
    # an object whose state holds nothing but the five documented attributes
    # (e.g. restored from an old pickle)
    bare = ConvolvedFluxes.__new__(ConvolvedFluxes)
    bare.__dict__.update({'_model_names': names.copy(), '_apertures': ap, '_wavelength': 2. * u.micron,
                          '_flux': want_f * u.mJy, '_error': want_e * u.mJy})
    assert np.array_equal(bare.flux.value, want_f) and np.array_equal(bare.error.value, want_e)
    bare.write(os.path.join(d, 'bare.fits'))
    assert ConvolvedFluxes.read(os.path.join(d, 'bare.fits')) == bare
    os.remove(os.path.join(d, 'bare.fits'))
    # the units asked for are checked when the object is made
    for bad in (u.cm, 'mJy', None):
        try:
            ConvolvedFluxes(model_names=names, apertures=ap, initialize_arrays=True, initialize_units=bad)
        except TypeError:
            pass
        else:
            raise AssertionError("bad units accepted")
    j = ConvolvedFluxes(model_names=names, apertures=ap, initialize_arrays=True, initialize_units=u.Jy)
    assert j.error.unit == u.Jy and j.flux.unit == u.Jy and j.flux.shape == (3, 2)
    # the shape is the one at the time the object was made
    k = ConvolvedFluxes(model_names=names, apertures=ap, initialize_arrays=True)
    k.flux = None
    assert k.flux is None and k.error.shape == (3, 2)
    k.flux = want_f * u.mJy
    assert np.array_equal(k.flux.value, want_f)

    # initialize_arrays needs the names; given arrays are used as they are
    try:
        ConvolvedFluxes(initialize_arrays=True)
    except ValueError:
        pass
    else:
        raise AssertionError("missing model names accepted")
    g = ConvolvedFluxes(model_names=names, apertures=ap, flux=want_f * u.mJy, initialize_arrays=True)
    assert np.array_equal(g.flux.value, want_f) and np.all(g.error.value == 0) and g.error.shape == (3, 2)
    n = ConvolvedFluxes(model_names=names, apertures=ap)
    assert n.flux is None and n.error is None
    try:
        ConvolvedFluxes(model_names=names, apertures=ap, flux=np.zeros((2, 2)) * u.mJy)
    except ValueError:
        pass
    else:
        raise AssertionError("wrong shape accepted")


def part_sed_read(pk):
    """SED.read, used for every model and every chunk: repeated reads agree."""
    files = []
    for dirpath, dirnames, filenames in os.walk(os.path.join(pk.dir, 'seds')):
        files += [os.path.join(dirpath, f) for f in filenames]
    assert len(files) == pk.n_models
    for fn in sorted(files):
        a = SED.read(fn, unit_freq=u.Hz, unit_flux=u.mJy, order='nu')
        b = SED.read(fn, unit_freq=u.Hz, unit_flux=u.mJy, order='nu')
        c = SED.read(fn[:-3] if fn.endswith('.gz') else fn, unit_flux=u.mJy)  # name without .gz
        for s in (a, b, c):
            np.testing.assert_allclose(s.wav.to(u.micron).value, pk.wav[::-1], rtol=1e-12)
            np.testing.assert_allclose(s.flux.to(u.mJy).value, pk.flux[s.name][:, ::-1], rtol=1e-10)
            np.testing.assert_allclose(s.error.to(u.mJy).value, pk.error[s.name][:, ::-1], rtol=1e-10)
            np.testing.assert_allclose(s.apertures.to(u.au).value, pk.apertures, rtol=1e-12)
        w = SED.read(fn, order='wav', unit_flux=u.mJy)
        np.testing.assert_allclose(w.flux.to(u.mJy).value, pk.flux[w.name], rtol=1e-10)
    try:
        SED.read(files[0], order='sideways')
    except ValueError:
        pass
    else:
        raise AssertionError("bad order accepted")


def main():
    try:
        pk9, pk7 = part_perfile()
        part_cube()
        part_convolved_fluxes_objects()
        part_sed_read(pk9)
        # nothing but the expected files is left behind in the package
        assert sorted(os.listdir(pk9.dir)) == ['convolved', 'models.conf', 'parameters.fits', 'seds']
        assert all(f.startswith('MO') and f.endswith('.fits') for f in os.listdir(os.path.join(pk9.dir, 'convolved')))
    finally:
        shutil.rmtree(ROOT, ignore_errors=True)
    print("C16 demonstration passed ({0} convolution calls)".format(N_CALLS[0]))


if __name__ == '__main__':
    main()
