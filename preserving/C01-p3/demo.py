import sys, os; sys.path.insert(0, os.getcwd())
# Demonstration for property C01 (best-fit A_V and scale are the constrained
# weighted least-squares optimum; chi^2 = minimum + limit penalties).
# Emphasis of this copy: the ways a (not aperture dependent) model package
# can be stored and read (Models.read, both versions) and Models.log_fluxes_mJy.
import io, contextlib, shutil, tempfile
import numpy as np
from astropy import units as u

import sedfitter
assert os.path.dirname(os.path.abspath(sedfitter.__file__)) == os.path.join(os.getcwd(), 'sedfitter'), sedfitter.__file__

from sedfitter import Fitter
from sedfitter.source import Source
from sedfitter.extinction import Extinction
from sedfitter.convolved_fluxes import ConvolvedFluxes

LN10 = np.log(10.)
N_CHECKED = [0]


def quiet(func, *args, **kwargs):
    with contextlib.redirect_stdout(io.StringIO()):
        return func(*args, **kwargs)


def make_package(directory, wavs_micron, fluxes_mJy):
    """Old-style (version 1) package that is not aperture dependent"""
    os.makedirs(os.path.join(directory, 'convolved'))
    with open(os.path.join(directory, 'models.conf'), 'w') as f:
        f.write("name = demo\nlength_subdir = 0\naperture_dependent = no\nlogd_step = 0.02\n")
    n_models = fluxes_mJy.shape[0]
    names = np.array(['model_%04i' % i for i in range(n_models)])
    filters = []
    for j, w in enumerate(wavs_micron):
        c = ConvolvedFluxes(wavelength=w * u.micron, model_names=names,
                            flux=fluxes_mJy[:, j:j + 1] * u.mJy,
                            error=np.zeros((n_models, 1)) * u.mJy)
        c.write(os.path.join(directory, 'convolved', 'F%i.fits' % j))
        filters.append('F%i' % j)
    return names, filters


def k_lambda(law_wav_micron, law_chi, wavs_micron):
    """Independent extinction coefficients: -0.4 at V, 0 outside the table"""
    def lin(x):
        x = float(x)
        if x < law_wav_micron[0] or x > law_wav_micron[-1]:
            return None
        i = int(np.searchsorted(law_wav_micron, x, side='right')) - 1
        if i >= len(law_wav_micron) - 1:
            return float(law_chi[-1])
        t = (x - law_wav_micron[i]) / (law_wav_micron[i + 1] - law_wav_micron[i])
        return float(law_chi[i] + t * (law_chi[i + 1] - law_chi[i]))
    chi_v = lin(0.55)
    out = []
    for w in wavs_micron:
        c = lin(w)
        out.append(0. if c is None else -0.4 * c / chi_v)
    return np.array(out)


def transform(valid, flux, error):
    """Independent log-space transform: returns y (log10 observed), w, conf"""
    n = len(valid)
    y = np.zeros(n)
    w = np.zeros(n)
    conf = np.zeros(n)
    for j in range(n):
        if valid[j] == 1:
            s = error[j] / flux[j] / LN10
            y[j] = np.log10(flux[j]) - 0.5 * (error[j] / flux[j]) ** 2 / LN10
            w[j] = 1. / s ** 2
        elif valid[j] == 4:
            y[j] = flux[j]
            w[j] = 1. / error[j] ** 2
        elif valid[j] in (2, 3):
            y[j] = np.log10(flux[j])
            conf[j] = error[j]
    return y, w, conf


def objective(valid, y, w, conf, logm, k, a, s):
    pred = logm + a * k - 2. * s
    total = 0.
    for j in range(len(valid)):
        if valid[j] in (1, 4):
            total += w[j] * (y[j] - pred[j]) ** 2
        elif valid[j] == 2 and pred[j] < y[j]:
            total += -2. * np.log(1. - conf[j])
        elif valid[j] == 3 and pred[j] > y[j]:
            total += -2. * np.log(1. - conf[j])
    return total


def reference(valid, y, w, logm, k, lo, hi):
    """Constrained optimum via an orthogonal (QR/SVD) least-squares solve"""
    fit = np.isin(valid, (1, 4))
    sw = np.sqrt(w[fit])
    A = np.column_stack([k[fit], -2. * np.ones(fit.sum())]) * sw[:, None]
    b = (y[fit] - logm[fit]) * sw
    (a, s), _, rank, _ = np.linalg.lstsq(A, b, rcond=None)
    assert rank == 2
    a_c = min(max(a, lo), hi)
    if a_c != a:
        r = y[fit] - logm[fit] - a_c * k[fit]
        s = -0.5 * np.sum(w[fit] * r) / np.sum(w[fit])
    return a_c, s


def check_fit(info, names, logm_all, valid, flux, error, k, lo, hi, label, tol=1e-8):
    av = np.asarray(info.av, float)
    sc = np.asarray(info.sc, float)
    chi2 = np.asarray(info.chi2, float)
    assert len(av) == len(names) == len(sc) == len(chi2), label
    assert np.all(np.diff(chi2) >= 0), label + ': chi2 not sorted'
    assert sorted(str(x) for x in info.model_name) == sorted(str(x) for x in names), label
    y, w, conf = transform(valid, flux, error)
    rng = np.random.RandomState(1)
    for i, name in enumerate(info.model_name):
        m = int(str(name).split('_')[1])
        logm = logm_all[m]
        a_ref, s_ref = reference(valid, y, w, logm, k, lo, hi)
        assert lo <= av[i] <= hi, (label, name, av[i])
        assert abs(av[i] - a_ref) <= tol * (1 + abs(a_ref)), (label, name, av[i], a_ref)
        assert abs(sc[i] - s_ref) <= tol * (1 + abs(s_ref)), (label, name, sc[i], s_ref)
        c_ref = objective(valid, y, w, conf, logm, k, av[i], sc[i])
        assert abs(chi2[i] - c_ref) <= 10 * tol * (1 + abs(c_ref)), (label, name, chi2[i], c_ref)
        # brute force: no feasible neighbour does better on the fitted points
        z = np.zeros(len(valid))
        base = objective(np.where(np.isin(valid, (1, 4)), valid, 0), y, w, z, logm, k, av[i], sc[i])
        for _ in range(6):
            a2 = min(max(av[i] + rng.normal() * 0.3, lo), hi)
            s2 = sc[i] + rng.normal() * 0.05
            other = objective(np.where(np.isin(valid, (1, 4)), valid, 0), y, w, z, logm, k, a2, s2)
            assert other >= base - 1e-9 * (1 + abs(base)), (label, name)
        N_CHECKED[0] += 1


def make_source(valid, flux, error, name='src'):
    s = Source()
    s.name = name
    s.x = 1.
    s.y = 2.
    s.valid = valid
    s.flux = flux
    s.error = error
    return s


def random_source(rng, n_wav, flags=None):
    while True:
        valid = rng.choice([0, 1, 2, 3, 4, 9], size=n_wav) if flags is None else np.array(flags)
        if np.sum(np.isin(valid, (1, 4))) >= 2:
            break
    flux = 10. ** rng.uniform(-1, 2, n_wav)
    error = flux * rng.uniform(0.02, 0.3, n_wav)
    for j in range(n_wav):
        if valid[j] == 4:
            flux[j] = rng.uniform(0.1, 2.)    # already log10; kept positive
            error[j] = rng.uniform(0.02, 0.2)
        elif valid[j] in (2, 3):
            error[j] = rng.uniform(0.5, 0.99)  # confidence
    return valid, flux, error


def main():
    rng = np.random.RandomState(20240917)
    tmp = tempfile.mkdtemp()
    try:
        # filters: one below the table, one exactly on a tabulated node, one
        # beyond the table (k = 0 there)
        law_wav = np.array([0.1, 0.3, 0.5, 0.6, 1.0, 2.2, 3.6, 8.0, 24., 70.])
        law_chi = np.array([900., 500., 260., 200., 90., 30., 14., 9., 5., 0.7])
        wavs = np.array([0.44, 1.25, 2.2, 4.5, 8.0, 24., 160.])
        n_models = 23
        fluxes = 10. ** rng.uniform(-3, 3, (n_models, len(wavs)))
        logm_all = np.log10(fluxes)
        names, filters = make_package(os.path.join(tmp, 'pkg'), wavs, fluxes)
        k = k_lambda(law_wav, law_chi, wavs)

        law_a = Extinction()
        law_a.wav = law_wav * u.micron
        law_a.chi = law_chi * u.cm ** 2 / u.g
        # unusual but legal: wavelengths in Angstrom, opacity in m^2/kg, read from a file
        lawfile = os.path.join(tmp, 'law.txt')
        np.savetxt(lawfile, np.column_stack([law_wav * 1e4, law_chi * 0.1]))
        law_b = Extinction.from_file(lawfile, wav_unit=u.AA, chi_unit=u.m ** 2 / u.kg)

        apertures = np.ones(len(wavs)) * 3. * u.arcsec
        sources = [random_source(rng, len(wavs)) for _ in range(6)]
        sources.append(random_source(rng, len(wavs), flags=[1, 0, 0, 4, 0, 9, 0]))   # exactly 2 fitted points
        sources.append(random_source(rng, len(wavs), flags=[1, 1, 1, 1, 1, 1, 1]))
        sources.append(random_source(rng, len(wavs), flags=[2, 3, 1, 4, 3, 2, 1]))
        sources.append(random_source(rng, len(wavs), flags=(4, 4, 4, 2, 2, 3, 3)))

        for law, lawname in ((law_a, 'micron'), (law_b, 'angstrom-file')):
            for lo, hi in ((0., 10.), (2., 2.), (-3., 40.), (0., 0.01), (25., 30.), (-1000., 1000.)):
                fitter = quiet(Fitter, filters, apertures, os.path.join(tmp, 'pkg'),
                               extinction_law=law, av_range=(lo, hi),
                               distance_range=[1., 2.] * u.kpc, use_memmap=False)
                assert np.allclose(np.asarray(fitter.av_law, float), k, rtol=1e-12, atol=1e-14)
                for isrc, (valid, flux, error) in enumerate(sources):
                    label = '%s [%g,%g] src%i' % (lawname, lo, hi, isrc)
                    src = make_source(valid.copy(), flux.copy(), error.copy())
                    info = fitter.fit(src)
                    check_fit(info, names, logm_all, valid, flux, error, k, lo, hi, label)
                    # second call on the same objects: same answer, inputs untouched
                    info2 = fitter.fit(src)
                    for attr in ('av', 'sc', 'chi2'):
                        assert np.array_equal(np.asarray(getattr(info, attr), float),
                                              np.asarray(getattr(info2, attr), float)), label
                    assert np.array_equal(info.model_name, info2.model_name)
                    assert np.array_equal(src.valid, valid) and np.array_equal(src.flux, flux) and np.array_equal(src.error, error)

        # ---- the same grid packaged in other legal ways -------------------
        import gzip, pathlib
        from sedfitter.models import Models
        from sedfitter.sed import SEDCube

        # (1) old-style package: comments and blank lines in models.conf,
        #     one convolved file gzip-compressed, directory given as a Path
        pkg_gz = os.path.join(tmp, 'pkg_gz')
        shutil.copytree(os.path.join(tmp, 'pkg'), pkg_gz)
        with open(os.path.join(pkg_gz, 'models.conf'), 'w') as f:
            f.write("# demo package\n\nname = demo gz\nlength_subdir = 0\n#version = 2\naperture_dependent = no\nlogd_step = 0.02\n")
        plain = os.path.join(pkg_gz, 'convolved', 'F2.fits')
        with open(plain, 'rb') as fin, gzip.open(plain + '.gz', 'wb') as fout:
            fout.write(fin.read())
        os.remove(plain)

        # (2) new-style (version 2) package: flux cube + convolved files
        pkg_v2 = os.path.join(tmp, 'pkg_v2')
        shutil.copytree(os.path.join(tmp, 'pkg'), pkg_v2)
        with open(os.path.join(pkg_v2, 'models.conf'), 'a') as f:
            f.write("version = 2\n")
        cube = SEDCube()
        cube.names = names
        cube.distance = 1 * u.kpc
        cube.wav = np.logspace(-2., 3., 30) * u.micron
        cube.apertures = None
        cube.val = (1 + rng.uniform(size=(n_models, 1, 30))) * u.mJy
        cube.unc = cube.val * 0.01
        cube.write(os.path.join(pkg_v2, 'flux.fits'))

        src_list = [make_source(*sources[i]) for i in (0, 3, 6, 8)]
        lo, hi = 1., 7.5
        cases = (('v1 gz str', pkg_gz, dict(use_memmap=False), 1e-8),
                 ('v1 gz Path', pathlib.Path(pkg_gz), dict(), 1e-8),
                 ('v2 no memmap', pkg_v2, dict(use_memmap=False), 1e-8),
                 ('v2 memmap (single precision storage)', pkg_v2, dict(), 3e-5),
                 ('v2 memmap again', pkg_v2, dict(use_memmap=True), 3e-5))
        for label, directory, kwargs, tol in cases:
            fitter = quiet(Fitter, filters, apertures, directory, extinction_law=law_b,
                           av_range=(lo, hi), distance_range=[1., 2.] * u.kpc, **kwargs)
            assert fitter.models.n_distances is None and fitter.models.fluxes.ndim == 2
            assert np.allclose(fitter.models.wavelengths.to(u.micron).value, wavs)
            assert [str(x) for x in fitter.models.names] == [str(x) for x in names]
            assert np.allclose(fitter.models.fluxes.to(u.mJy).value, fluxes, rtol=2e-7)
            for src in src_list:
                for repeat in range(2):
                    check_fit(fitter.fit(src), names, logm_all, src.valid, src.flux, src.error, k, lo, hi, label, tol=tol)

        # a missing convolved file is still refused
        try:
            quiet(Fitter, filters[:-1] + ['NOPE'], apertures, pkg_gz, extinction_law=law_b,
                  av_range=(lo, hi), distance_range=[1., 2.] * u.kpc)
        except Exception as exc:
            assert 'File not found' in str(exc)
        else:
            raise AssertionError("missing filter accepted")

        # (3) Models.read called directly, twice, filters in another order
        order = [4, 0, 6, 2, 1]
        filt = [{'name': filters[j], 'aperture_arcsec': 3.} for j in order]
        for directory in (pkg_gz, pkg_v2):
            for repeat in range(2):
                m = quiet(Models.read, directory, filt, use_memmap=False)
                assert m.distances is None and m.logd is None
                for src_full in src_list[:2]:
                    src = make_source(src_full.valid[order], src_full.flux[order], src_full.error[order])
                    if np.sum(np.isin(src.valid, (1, 4))) < 2 or np.ptp(k[order][np.isin(src.valid, (1, 4))]) == 0:
                        continue
                    info = m.fit(src, law_a.get_av(m.wavelengths), -2. * np.ones(len(order)), lo, hi)
                    check_fit(info, names, logm_all[:, order], src.valid, src.flux, src.error, k[order], lo, hi, 'Models.read direct')

        # (4) a grid held in memory, fluxes given in Jy (converted to mJy by
        #     the library) and a grid of a single model
        for sel in (slice(None), slice(5, 6)):
            m = Models()
            m.names = names[sel]
            m.wavelengths = wavs * 1e-4 * u.cm
            m.fluxes = fluxes[sel] * 1e-3 * u.Jy
            assert np.allclose(m.log_fluxes_mJy, logm_all[sel], rtol=0, atol=1e-12)
            assert np.array_equal(m.log_fluxes_mJy, m.log_fluxes_mJy) and m.log_fluxes_mJy is not m.log_fluxes_mJy
            for src in src_list:
                for repeat in range(2):
                    info = m.fit(src, law_b.get_av(m.wavelengths), -2. * np.ones(len(wavs)), lo, hi)
                    check_fit(info, names[sel], logm_all, src.valid, src.flux, src.error, k, lo, hi, 'in-memory Jy')
    finally:
        shutil.rmtree(tmp, ignore_errors=True)
    assert N_CHECKED[0] > 2 * 6 * 10 * 23 + 5 * 4 * 2 * 23, N_CHECKED[0]
    print("C01 demo p3 OK: %i (source, model) fits verified" % N_CHECKED[0])


if __name__ == '__main__':
    main()
