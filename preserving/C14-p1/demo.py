import sys, os; sys.path.insert(0, os.getcwd())
# Demonstration for change p1 (get_av evaluated on bare arrays, ratio taken
# before the factor -0.4).  Checks property C14 against a pure-Python
# reference that never touches numpy.interp or astropy unit conversion.
import pickle
import warnings

warnings.simplefilter('ignore')

import numpy as np
from astropy import units as u

import sedfitter
from sedfitter.extinction import Extinction

assert os.path.dirname(os.path.dirname(os.path.abspath(sedfitter.__file__))) == os.getcwd(), sedfitter.__file__

# conversion factors to micron / to cm^2/g, written down by hand
LEN = {'micron': 1.0, 'nm': 1e-3, 'Angstrom': 1e-4, 'mm': 1e3, 'cm': 1e4, 'm': 1e6}
OPA = {'cm2/g': 1.0, 'm2/kg': 10.0}
LEN_U = {'micron': u.micron, 'nm': u.nm, 'Angstrom': u.AA, 'mm': u.mm, 'cm': u.cm, 'm': u.m}
OPA_U = {'cm2/g': u.cm ** 2 / u.g, 'm2/kg': u.m ** 2 / u.kg}

RTOL = 1e-9
ATOL = 1e-12
failures = []


def check(cond, msg):
    if not cond:
        failures.append(msg)
        print('FAIL:', msg)


def lin(tw, tc, x):
    """Piecewise-linear interpolation, pure python; x must be inside."""
    n = len(tw)
    for j in range(n - 1):
        if tw[j] <= x <= tw[j + 1]:
            if x == tw[j]:
                return tc[j]
            if x == tw[j + 1]:
                return tc[j + 1]
            t = (x - tw[j]) / (tw[j + 1] - tw[j])
            return tc[j] + t * (tc[j + 1] - tc[j])
    raise ValueError(x)


def reference(tw_um, tc, q_um):
    """-0.4 chi(lambda)/chi(0.55) with zero outside, everything in micron."""
    tw_um = [float(v) for v in tw_um]
    tc = [float(v) for v in tc]
    cv = lin(tw_um, tc, 0.55)
    out = []
    for x in q_um:
        x = float(x)
        if x < tw_um[0] or x > tw_um[-1]:
            out.append(0.0)
        else:
            out.append(-0.4 * lin(tw_um, tc, x) / cv)
    return out


def close(a, b):
    a = np.asarray(a, float).ravel()
    b = np.asarray(b, float).ravel()
    return a.shape == b.shape and bool(np.all(np.abs(a - b) <= ATOL + RTOL * np.abs(b)))


def make_law(tw_um, tc_cgs, lu, ou):
    e = Extinction()
    e.wav = (np.asarray(tw_um, float) / LEN[lu]) * LEN_U[lu]
    e.chi = (np.asarray(tc_cgs, float) / OPA[ou]) * OPA_U[ou]
    return e


def random_table(rng, n):
    """Increasing wavelengths (micron) covering 0.55 with a margin."""
    lo = 10 ** rng.uniform(-2.5, -0.5)       # < 0.32
    hi = 10 ** rng.uniform(0.0, 3.0)         # > 1
    if n == 2:
        tw = np.array([lo, hi])
    else:
        inner = np.sort(10 ** rng.uniform(np.log10(lo), np.log10(hi), n - 2))
        tw = np.concatenate([[lo], inner, [hi]])
        # keep the nodes well separated so that unit round-off is not amplified
        keep = np.concatenate([[True], np.diff(tw) > 1e-4 * tw[1:]])
        tw = tw[keep]
        tw[-1] = hi
    tc = 10 ** rng.uniform(-2, 4, tw.size)
    return tw, tc


def queries(rng, tw, margin=1e-7):
    """Query wavelengths (micron): inside, outside, on nodes, near V."""
    lo, hi = tw[0], tw[-1]
    inside = 10 ** rng.uniform(np.log10(lo * (1 + margin)), np.log10(hi * (1 - margin)), 25)
    outside = np.array([lo * 0.5, lo * (1 - 1e-6), hi * (1 + 1e-6), hi * 7.0, 1e-4, 1e5])
    mid = 0.5 * (tw[:-1] + tw[1:])
    return np.concatenate([inside, outside, mid[:10], [0.55]])


rng = np.random.default_rng(20140)

# ---------------------------------------------------------------------------
# 1. random tables, all combinations of units for table, opacities and query
# ---------------------------------------------------------------------------
sizes = [2, 3, 4, 5, 7, 10, 33, 64, 128, 199, 200]
ncase = 0
for n in sizes:
    for rep in range(3):
        tw, tc = random_table(rng, n)
        q = queries(rng, tw)
        ref = reference(tw, tc, q)
        for lu in LEN:
            for ou in OPA:
                e = make_law(tw, tc, lu, ou)
                for qu in ('micron', 'nm', 'cm', 'm', 'Angstrom'):
                    got = e.get_av((q / LEN[qu]) * LEN_U[qu])
                    ncase += 1
                    check(isinstance(got, u.Quantity), 'result is not a Quantity')
                    check(got.unit.is_equivalent(u.dimensionless_unscaled), 'result is not unit-free')
                    check(close(got.to_value(u.dimensionless_unscaled), ref),
                          'values n=%d table in %s, %s, query in %s' % (n, lu, ou, qu))
                    # second call on the same object gives the same answer
                    again = e.get_av((q / LEN[qu]) * LEN_U[qu])
                    check(np.array_equal(np.asarray(got), np.asarray(again)), 'second call differs')
print('random tables:', ncase, 'evaluations')

# ---------------------------------------------------------------------------
# 2. exact statements: on the nodes, on the two ends, at V (same unit as table
#    so that no conversion is involved), and strictly zero outside
# ---------------------------------------------------------------------------
for n in (2, 3, 17, 200):
    tw, tc = random_table(rng, n)
    if n > 2:
        # make 0.55 micron a node of the table
        tw = np.sort(np.concatenate([tw[:1], tw[1:-1][:n - 3], [0.55], tw[-1:]]))
        tc = 10 ** rng.uniform(-2, 4, tw.size)
    check(2 <= tw.size <= 200 and np.all(np.diff(tw) > 0), 'bad test table')
    e = make_law(tw, tc, 'micron', 'cm2/g')
    ref_nodes = reference(tw, tc, tw)
    got = e.get_av(tw * u.micron)
    check(close(got, ref_nodes), 'nodes n=%d' % n)
    v = np.asarray(e.get_av([0.55] * u.micron), float)
    check(v.shape == (1,) and abs(v[0] + 0.4) <= 2e-16, 'V band is not -0.4: %r' % v)
    ends = np.asarray(e.get_av([tw[0], tw[-1]] * u.micron), float)
    check(close(ends, [ref_nodes[0], ref_nodes[-1]]) and np.all(ends != 0), 'ends are inside the table')
    out = np.asarray(e.get_av([np.nextafter(tw[0], 0), np.nextafter(tw[-1], np.inf), 1e-30, 1e30] * u.micron), float)
    check(np.all(out == 0.0), 'outside is not exactly zero: %r' % out)

# ---------------------------------------------------------------------------
# 3. invariance under a constant factor on chi and under a change of units of
#    the stored table (same object modified through its setters)
# ---------------------------------------------------------------------------
tw, tc = random_table(rng, 40)
q = queries(rng, tw)
ref = reference(tw, tc, q)
e = make_law(tw, tc, 'micron', 'cm2/g')
base = np.asarray(e.get_av(q * u.micron), float)
check(close(base, ref), 'base')
for k in (1e-30, 3.0, 0.1, 1e25, 2.0 ** 40):
    e.chi = e.chi * k
    check(close(e.get_av(q * u.micron), ref), 'scaled chi by %g' % k)
    e.chi = e.chi / k
e.chi = e.chi.to(u.m ** 2 / u.kg)
check(close(e.get_av(q * u.micron), ref), 'chi converted to m2/kg')
e2 = Extinction()
e2.wav = e.wav.to(u.cm)
e2.chi = e.chi
check(close(e2.get_av((q * 1e3) * u.nm), ref), 'wav converted to cm, query in nm')

# ---------------------------------------------------------------------------
# 4. unusual but legal query forms: scalar, 2-d, integer dtype, float32,
#    empty, non-contiguous view, reversed order
# ---------------------------------------------------------------------------
tw = np.array([0.1, 0.5, 0.6, 2.0, 1000.0])
tc = np.array([5.0, 3.0, 2.0, 1.0, 0.25])
e = make_law(tw, tc, 'micron', 'cm2/g')
s = e.get_av(1.0 * u.micron)
check(np.asarray(s).size == 1 and close(s, reference(tw, tc, [1.0])), 'scalar query')
q2 = np.array([[0.05, 0.1, 0.55], [1.3, 2.0, 2000.0]])
g2 = e.get_av(q2 * u.micron)
check(np.asarray(g2).shape == (2, 3) and close(g2, reference(tw, tc, q2.ravel())), '2-d query')
qi = np.array([50, 100, 550, 1000, 2000, 999999, 1000000, 1000001], dtype=np.int64)
check(close(e.get_av(qi * u.nm), reference(tw, tc, [v / 1000. for v in qi])), 'integer nm query')
q32 = np.array([0.25, 0.5, 1.0, 4.0, 2048.0], dtype=np.float32)  # exactly representable
check(close(e.get_av(q32 * u.micron), reference(tw, tc, q32)), 'float32 query')
check(np.asarray(e.get_av(np.array([]) * u.micron)).shape == (0,), 'empty query')
big = np.linspace(0.05, 3.0, 101)
check(close(e.get_av((big * u.micron)[::-2]), reference(tw, tc, big[::-2])), 'strided reversed query')
for bad in (np.array([1.0, 2.0]), [1.0, 2.0] * u.Hz, [1.0] * u.s, 3.0):
    try:
        e.get_av(bad)
    except TypeError:
        pass
    else:
        check(False, 'no TypeError for %r' % (bad,))

# the query and the table are not modified by the call
qq = np.array([0.3, 0.55, 5.0]) * u.nm * 1000
qq0 = qq.copy()
w0, c0 = e.wav.copy(), e.chi.copy()
e.get_av(qq)
check(np.array_equal(qq.value, qq0.value) and qq.unit == qq0.unit, 'query modified')
check(np.array_equal(e.wav.value, w0.value) and np.array_equal(e.chi.value, c0.value), 'table modified')

# ---------------------------------------------------------------------------
# 5. pickling and table round trip keep the pattern
# ---------------------------------------------------------------------------
tw, tc = random_table(rng, 60)
q = queries(rng, tw)
ref = reference(tw, tc, q)
e = make_law(tw, tc, 'Angstrom', 'm2/kg')
for proto in range(0, pickle.HIGHEST_PROTOCOL + 1):
    e3 = pickle.loads(pickle.dumps(e, protocol=proto))
    check(close(e3.get_av(q * u.micron), ref), 'pickle protocol %d' % proto)
e4 = Extinction.from_table(e.to_table())
check(close(e4.get_av(q * u.micron), ref), 'table round trip')

if failures:
    print('%d FAILURES' % len(failures))
    sys.exit(1)
print('demo p1: all checks passed')
