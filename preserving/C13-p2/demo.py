import sys, os; sys.path.insert(0, os.getcwd())
# Demonstration for C13 (SED.interpolate / SED.interpolate_variable): exact at
# tabulated radii, linear in between, clamped above, refused below, single
# aperture repeated; the variable-aperture variant equals, at every filter
# wavelength, the linear interpolant at that filter's aperture.  Repeated calls
# and every way of changing the apertures in between are exercised.

import tempfile
import warnings
warnings.filterwarnings('ignore')

import numpy as np
from astropy import units as u

import sedfitter
assert os.path.abspath(sedfitter.__file__).startswith(os.getcwd()), sedfitter.__file__
from sedfitter.sed import SED

N_CHECKS = [0]
AU = {u.au: 1., u.pc: u.pc.to(u.au), u.cm: u.cm.to(u.au), u.km: u.km.to(u.au)}


def ref_interp(xs, ys, x):
    """Independent scalar reference: xs increasing python floats"""
    if x >= xs[-1]:
        return ys[-1]
    assert x >= xs[0], (x, xs[0])
    for k in range(len(xs) - 1):
        if xs[k] <= x <= xs[k + 1]:
            if x == xs[k]:
                return ys[k]
            if x == xs[k + 1]:
                return ys[k + 1]
            t = (x - xs[k]) / (xs[k + 1] - xs[k])
            return ys[k] + t * (ys[k + 1] - ys[k])
    raise AssertionError("unreachable")


def close(a, b, rtol=1e-9):
    a = np.asarray(a, dtype=float)
    b = np.asarray(b, dtype=float)
    scale = max(np.max(np.abs(b)), 1e-300) if b.size else 1.
    return a.shape == b.shape and np.all(np.abs(a - b) <= rtol * np.abs(b) + 1e-12 * scale)


def table_au(sed):
    """tabulated apertures in AU, computed independently of astropy's .to()"""
    return [float(v) * AU[sed.apertures.unit] for v in sed.apertures.value]


def check_fixed(sed, req, label):
    """req: bare array (AU) or Quantity, all >= smallest tabulated aperture"""

    xs = table_au(sed)
    if isinstance(req, u.Quantity):
        req_au = [float(v) * AU[req.unit] for v in req.value]
    else:
        req_au = [float(v) for v in req]

    wav_before = sed.wav.copy()
    ap_before = sed.apertures.copy()
    flux_before = sed.flux.copy()
    name_before = sed.name

    res = sed.interpolate(req.copy())

    assert np.all(sed.wav == wav_before), label
    assert np.all(sed.apertures == ap_before) and sed.apertures.unit == ap_before.unit, label
    assert np.all(sed.flux == flux_before), label
    assert sed.name == name_before, label

    res = np.asarray(getattr(res, 'value', res))
    assert res.shape == (sed.n_wav, len(req_au)), (label, res.shape)

    for iw in range(sed.n_wav):
        ys = [float(v) for v in sed.flux.value[:, iw]]
        exp = [ref_interp(xs, ys, min(v, xs[-1])) for v in req_au]
        assert close(res[iw], exp), (label, iw, res[iw], exp)
    N_CHECKS[0] += 1
    return res


def check_variable(sed, filt_wav, filt_ap, label):
    """
    filt_wav: filter wavelengths (micron, bare, any order), filt_ap: apertures
    (AU, bare) inside the table.  Checked at every SED wavelength; the filter
    wavelengths are SED wavelengths.
    """

    xs = table_au(sed)
    sed_wav = [float(v) for v in sed.wav.to(u.micron).value]

    res = sed.interpolate_variable(filt_wav.copy(), filt_ap.copy())
    res = np.asarray(getattr(res, 'value', res))
    assert res.shape == (sed.n_wav,), (label, res.shape)

    order = sorted(range(len(filt_wav)), key=lambda i: filt_wav[i])
    fw = [float(filt_wav[i]) for i in order]
    fa = [float(filt_ap[i]) for i in order]

    n_at_filter = 0
    for iw, w in enumerate(sed_wav):
        ys = [float(v) for v in sed.flux.value[:, iw]]
        if w in fw:
            a = fa[fw.index(w)]
            n_at_filter += 1
        elif w < fw[0]:
            a = fa[0]
        elif w > fw[-1]:
            a = fa[-1]
        else:
            k = max(i for i in range(len(fw)) if fw[i] <= w)
            t = (np.log10(w) - np.log10(fw[k])) / (np.log10(fw[k + 1]) - np.log10(fw[k]))
            a = 10. ** (np.log10(fa[k]) + t * (np.log10(fa[k + 1]) - np.log10(fa[k])))
        a = min(max(a, xs[0]), xs[-1])
        exp = ref_interp(xs, ys, a)
        assert close(res[iw], exp, rtol=1e-8), (label, iw, w, a, res[iw], exp)
    assert n_at_filter == len(fw), label
    N_CHECKS[0] += 1
    return res


def refused(func, *args):
    try:
        func(*args)
    except Exception:
        return True
    return False


def make_sed(rng, n_ap, n_wav, ap_unit, dtype=np.float64):
    sed = SED()
    sed.name = 'model_%i_%i' % (n_ap, n_wav)
    sed.distance = 1. * u.kpc
    sed.wav = np.logspace(-1., 3., n_wav)[::-1] * u.micron
    ap_au = np.cumsum(10. ** rng.uniform(0., 3., n_ap))
    sed.apertures = (ap_au / AU[ap_unit]).astype(dtype) * ap_unit
    sed.flux = (10. ** rng.uniform(-3, 3, (n_ap, n_wav))).astype(dtype) * u.mJy
    sed.error = sed.flux * 0.1
    return sed


rng = np.random.RandomState(1313)

for n_ap in range(2, 9):
    for ap_unit in (u.au, u.pc, u.cm):
        for n_wav in (1, 7, 20):

            sed = make_sed(rng, n_ap, n_wav, ap_unit)
            xs = np.array(table_au(sed))
            lo, hi = xs[0], xs[-1]

            inside = rng.uniform(lo, hi, 4)
            mid = 0.5 * (xs[:-1] + xs[1:])
            req_au = np.hstack([inside, mid, xs[1:-1], [hi], [hi * (1 + 1e-9), 2 * hi, 1e3 * hi]])
            rng.shuffle(req_au)

            # bare numbers (AU)
            r_a = check_fixed(sed, req_au, 'bare')
            # second call on the same object
            r_b = check_fixed(sed, req_au, 'bare-again')
            assert np.array_equal(r_a, r_b)
            # quantities in several units (keep clear of the lower edge because of conversion round-off)
            for req_unit in (u.au, u.pc, u.km):
                sel = req_au[req_au > lo * (1 + 1e-9)]
                check_fixed(sed, (sel / AU[req_unit]) * req_unit, 'quantity-%s' % req_unit)

            # on the tabulated radii themselves, in the table's own unit: exact values
            r_n = check_fixed(sed, sed.apertures.copy(), 'nodes')
            if ap_unit is u.au:
                assert close(r_n, sed.flux.value.T, rtol=1e-13)
            r_n = check_fixed(sed, xs.copy(), 'nodes-bare')
            assert close(r_n[:, 1:], sed.flux.value.T[:, 1:], rtol=1e-12)

            # boundary: exactly the smallest and largest aperture, and one ulp above the largest
            r_e = check_fixed(sed, np.array([lo, hi, np.nextafter(hi, np.inf)]), 'edges')
            assert close(r_e[:, 1], sed.flux.value[-1, :], rtol=1e-13)
            assert close(r_e[:, 2], sed.flux.value[-1, :], rtol=1e-13)

            # below the table: refused
            assert refused(sed.interpolate, np.array([lo * 0.5]))
            assert refused(sed.interpolate, np.array([hi, lo * 0.999, 0.5 * (lo + hi)]))
            assert refused(sed.interpolate, np.array([lo * 0.9]) * u.au)
            assert refused(sed.interpolate, (np.array([lo * 0.9]) / AU[u.pc]) * u.pc)
            # still fine afterwards
            check_fixed(sed, req_au, 'after-refusal')

            # variable apertures: filters at SED wavelengths, apertures inside, on the edges
            if n_wav >= 7:
                idx = rng.choice(np.arange(1, n_wav - 1), 4, replace=False)
                filt_wav = sed.wav.to(u.micron).value[idx].copy()
                filt_ap = rng.uniform(lo, hi, 4)
                check_variable(sed, filt_wav, filt_ap, 'variable')
                check_variable(sed, filt_wav, filt_ap, 'variable-again')
                filt_ap[0] = lo
                filt_ap[1] = hi
                check_variable(sed, filt_wav, filt_ap, 'variable-edges')
                # a filter with an aperture beyond the table: the largest aperture (to 0.1%)
                filt_ap2 = filt_ap.copy()
                filt_ap2[:] = 5 * hi
                r_v = sed.interpolate_variable(filt_wav.copy(), filt_ap2)
                r_v = np.asarray(getattr(r_v, 'value', r_v))
                a, b = sed.flux.value[-1, :], sed.flux.value[-2, :]
                assert np.all(np.abs(r_v - a) <= 0.002 * np.abs(a - b) * hi / (hi - xs[-2]) + 1e-12 * np.abs(a))
                # too small: refused
                filt_ap3 = filt_ap.copy()
                filt_ap3[2] = lo * 0.5
                assert refused(sed.interpolate_variable, filt_wav.copy(), filt_ap3)

            # Now change the table in every possible way and ask again
            # (a) new apertures through the setter (same length, other values)
            sed.apertures = sed.apertures * 3.
            xs = np.array(table_au(sed))
            req2 = np.hstack([xs, 0.5 * (xs[:-1] + xs[1:]), [xs[-1] * 4]])
            check_fixed(sed, req2, 'setter-values')
            # (b) same numbers, other unit
            new_unit = u.pc if ap_unit is not u.pc else u.au
            sed.apertures = sed.apertures.value * new_unit
            xs = np.array(table_au(sed))
            req3 = np.hstack([xs, 0.5 * (xs[:-1] + xs[1:]), [xs[-1] * 4]])
            check_fixed(sed, req3, 'setter-unit')
            assert refused(sed.interpolate, np.array([xs[0] * 0.9]))
            # (c) in place, not going through the setter
            sed.apertures[-1] = sed.apertures[-1] * 2.
            sed.apertures[0] = sed.apertures[0] * 0.5
            xs = np.array(table_au(sed))
            req4 = np.hstack([xs, 0.5 * (xs[:-1] + xs[1:]), [xs[-1] * 4]])
            check_fixed(sed, req4, 'in-place')
            assert refused(sed.interpolate, np.array([xs[0] * 0.9]))
            # (d) fluxes changed through the setter and in place
            sed.flux = sed.flux * 2.
            sed.flux[0, :] = sed.flux[0, :] * 5.
            check_fixed(sed, req4, 'flux-changed')
            # (e) copies and scaled copies
            s2 = sed.copy()
            check_fixed(s2, req4, 'copy')
            s2.apertures = s2.apertures * 2.
            xs2 = np.array(table_au(s2))
            check_fixed(s2, np.hstack([xs2, [1.5 * xs2[0]]]), 'copy-changed')
            check_fixed(sed, req4, 'original-after-copy-changed')
            s3 = sed.scale_to_distance(3.e21)
            check_fixed(s3, req4, 'scaled')
            if n_wav >= 7:
                filt_ap = rng.uniform(xs[0], xs[-1], 4)
                check_variable(sed, filt_wav, filt_ap, 'variable-after-changes')
                check_variable(s3, filt_wav, filt_ap, 'variable-scaled')

# single-precision tables (as read from single-precision files)
for n_ap in (2, 5, 8):
    sed = make_sed(rng, n_ap, 5, u.au, dtype=np.float32)
    xs = np.array(table_au(sed))
    req = np.hstack([xs[1:], 0.5 * (xs[:-1] + xs[1:]), [xs[-1] * 4]])
    for repeat in range(2):
        res = sed.interpolate(req.copy())
        for iw in range(sed.n_wav):
            ys = [float(v) for v in sed.flux.value[:, iw]]
            exp = [ref_interp(list(xs), ys, min(v, xs[-1])) for v in req]
            assert close(res[iw], exp, rtol=1e-5)
        N_CHECKS[0] += 1

# Single aperture: repeated
for with_ap in (False, True):
    sed = SED()
    sed.name = 'single'
    sed.distance = 1. * u.kpc
    sed.wav = np.logspace(-1., 3., 6) * u.micron
    if with_ap:
        sed.apertures = np.array([1000.]) * u.au
    sed.flux = rng.uniform(1, 2, (1, 6)) * u.mJy
    sed.error = sed.flux * 0.1
    for req in (np.array([1., 1000., 1e6]), np.array([3.]) * u.pc):
        for repeat in range(2):
            res = sed.interpolate(req)
            res = np.asarray(getattr(res, 'value', res))
            assert res.shape == (6, len(req))
            for j in range(len(req)):
                assert np.array_equal(res[:, j], sed.flux.value[0, :])
            N_CHECKS[0] += 1
    res = sed.interpolate_variable(np.array([1., 10.]), np.array([5., 50.]))
    assert np.array_equal(np.asarray(getattr(res, 'value', res)), sed.flux.value[0, :])

# Unusual but legal: SED written to / read from a FITS file, interpolated, then
# the apertures of the SED that was read replaced
tmpdir = tempfile.mkdtemp()
sed = make_sed(rng, 6, 12, u.au)
sed.nu = sed.wav.to(u.Hz, equivalencies=u.spectral())
sed.write(os.path.join(tmpdir, 'x_sed.fits'))
s = SED.read(os.path.join(tmpdir, 'x_sed.fits'), unit_flux=u.mJy)
xs = np.array(table_au(s))
req = np.hstack([xs[1:], 0.5 * (xs[:-1] + xs[1:]), [xs[-1] * 4]])
check_fixed(s, req, 'file')
check_fixed(s, req, 'file-again')
s.apertures = s.apertures.to(u.pc)
check_fixed(s, req[req > xs[0] * (1 + 1e-9)], 'file-unit-changed')

print("C13 demo p2: all %i checks passed" % N_CHECKS[0])
