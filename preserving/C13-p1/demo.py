import sys, os; sys.path.insert(0, os.getcwd())
# Demonstration for C13 (ConvolvedFluxes.interpolate): exact at tabulated
# radii, linear in between, clamped above, refused below; names, order and
# wavelength untouched; single-aperture table repeated.

import tempfile
import warnings
warnings.filterwarnings('ignore')

import numpy as np
from astropy import units as u

import sedfitter
assert os.path.abspath(sedfitter.__file__).startswith(os.getcwd()), sedfitter.__file__
from sedfitter.convolved_fluxes import ConvolvedFluxes

N_CHECKS = [0]


def ref_interp(xs, ys, x):
    """Independent scalar reference: xs increasing python floats, ys values"""
    if x >= xs[-1]:
        return ys[-1]
    assert x >= xs[0]
    for k in range(len(xs) - 1):
        if xs[k] <= x <= xs[k + 1]:
            if x == xs[k]:
                return ys[k]
            if x == xs[k + 1]:
                return ys[k + 1]
            t = (x - xs[k]) / (xs[k + 1] - xs[k])
            return ys[k] + t * (ys[k + 1] - ys[k])
    raise AssertionError("unreachable")


RTOL = [1e-10]


def close(a, b, rtol=None):
    # single-precision tables are only required to be right to single precision
    rtol = RTOL[0] if rtol is None else max(rtol, RTOL[0] if RTOL[0] > 1e-9 else 0.)
    a = np.asarray(a, dtype=float)
    b = np.asarray(b, dtype=float)
    scale = max(np.max(np.abs(b)), 1e-300) if b.size else 1.
    return a.shape == b.shape and np.all(np.abs(a - b) <= rtol * np.abs(b) + 1e-13 * scale)


def check_table(c, requests, label):
    """
    c: ConvolvedFluxes (tabulated); requests: Quantity of radii all >= min
    """
    tab_unit = c.apertures.unit
    xs = [float(v) for v in c.apertures.value]
    names_before = np.array(c.model_names).copy()
    wav_before = c.central_wavelength
    flux_before = c.flux.copy()
    error_before = c.error.copy()
    ap_before = c.apertures.copy()
    req_before = requests.copy()

    r = c.interpolate(requests)

    # inputs are left alone
    assert np.all(c.flux == flux_before) and np.all(c.error == error_before), label
    assert np.all(c.apertures == ap_before), label
    assert np.all(requests == req_before) and requests.unit == req_before.unit, label
    assert np.all(c.model_names == names_before), label

    # meta-data carried over
    assert np.all(r.model_names == names_before), label
    assert r.model_names.shape == names_before.shape, label
    assert r.central_wavelength == wav_before, label
    assert r.n_models == c.n_models and r.n_ap == len(requests), label
    assert r.flux.shape == (c.n_models, len(requests)), label
    assert r.error.shape == (c.n_models, len(requests)), label
    assert r.flux.unit == c.flux.unit and r.error.unit == c.error.unit, label

    req_tab = [float(v) for v in requests.to(tab_unit).value]

    # apertures of the result: the request (clamped to the largest tabulated one)
    expected_ap = [min(v, xs[-1]) for v in req_tab]
    assert close(r.apertures.to(tab_unit).value, expected_ap), label

    for im in range(c.n_models):
        for name, tab, res in (('flux', c.flux, r.flux), ('error', c.error, r.error)):
            ys = [float(v) for v in tab.value[im]]
            exp = [ref_interp(xs, ys, v) for v in req_tab]
            assert close(res.value[im], exp), (label, name, im, res.value[im], exp)
            # exactly between the neighbours / at the tabulated value
            for j, v in enumerate(req_tab):
                if v in xs:
                    assert close(res.value[im, j], ys[xs.index(v)], rtol=1e-13), (label, name, 'node')
                if v >= xs[-1]:
                    assert close(res.value[im, j], ys[-1], rtol=1e-13), (label, name, 'clamp')
    N_CHECKS[0] += 1
    return r


def refused(c, requests):
    try:
        c.interpolate(requests)
    except Exception:
        return True
    return False


rng = np.random.RandomState(13013)

for n_ap in range(2, 9):
    for n_models in range(1, 7):
        for dtype in (np.float64, np.float32):
            for tab_unit, req_unit in ((u.au, u.au), (u.au, u.pc), (u.pc, u.au), (u.cm, u.km), (u.au, u.cm)):

                RTOL[0] = 1e-10 if dtype is np.float64 else 1e-6

                # increasing apertures spanning a few decades (values exactly representable in the dtype)
                ap_au = np.cumsum(10. ** rng.uniform(0., 3., n_ap)).astype(dtype)
                apertures = (ap_au * u.au).to(tab_unit).astype(dtype)
                assert np.all(np.diff(apertures.value) > 0)
                names = np.array(['model_%02i_%i' % (n_ap, i) for i in range(n_models)][::-1])
                flux = (10. ** rng.uniform(-3, 3, (n_models, n_ap))).astype(dtype) * u.mJy
                error = (flux.value * rng.uniform(0.01, 0.2, (n_models, n_ap))).astype(dtype) * u.Jy

                c = ConvolvedFluxes(wavelength=3.6 * u.micron, model_names=names,
                                    apertures=apertures, flux=flux, error=error)

                xs = apertures.value.astype(float)
                lo, hi = xs[0], xs[-1]

                # 1. on the tabulated radii, given in the table's unit (exact values)
                r = check_table(c, apertures.copy(), 'on-nodes')
                assert close(r.flux.value, flux.value, rtol=1e-13)
                assert close(r.error.value, error.value, rtol=1e-13)

                # 2. inside (random, mid-points), on, above, in another unit
                inside = rng.uniform(lo, hi, 5)
                mid = 0.5 * (xs[:-1] + xs[1:])
                above = np.array([hi * (1 + 1e-12), hi * 1.5, hi * 1e4])
                req_tab = np.hstack([inside, mid, xs[1:-1], above, [hi]])
                rng.shuffle(req_tab)
                requests = (req_tab * tab_unit).to(req_unit)
                # unit conversion round-off may not push a request below the minimum
                requests = requests[requests.to(tab_unit).value >= lo]
                check_table(c, requests, 'mixed')

                # 3. second call on the same object gives the same answer
                r1 = c.interpolate(requests)
                r2 = c.interpolate(requests)
                assert np.all(r1.flux == r2.flux) and np.all(r1.error == r2.error)
                assert np.all(r1.apertures == r2.apertures)

                # 4. boundary values: exactly the smallest / largest radius, one ulp above the largest
                b = np.array([lo, hi, np.nextafter(hi, np.inf)]) * tab_unit
                rb = check_table(c, b, 'boundary')
                assert close(rb.flux.value[:, 0], flux.value[:, 0], rtol=1e-13)
                assert close(rb.flux.value[:, 1], flux.value[:, -1], rtol=1e-13)
                assert close(rb.flux.value[:, 2], flux.value[:, -1], rtol=1e-13)

                # 5. below the table: refused, also when only one of many is too small
                assert refused(c, np.array([lo * 0.5]) * tab_unit)
                assert refused(c, np.array([np.nextafter(lo, -np.inf)]) * tab_unit)
                assert refused(c, np.array([hi, 0.5 * (lo + hi), lo * 0.999]) * tab_unit)
                assert refused(c, (np.array([lo * 0.9]) * tab_unit).to(req_unit))
                # bare numbers are not accepted by this API
                assert refused(c, np.array([0.5 * (lo + hi)]))

                # 6. change the table through the setters, then ask again
                c.flux = flux * 3.
                c.error = error * 0.5
                check_table(c, requests, 'after-setters')
                c.sort_to_match(names[::-1])
                r3 = check_table(c, requests, 'after-sort')
                assert np.all(r3.model_names == names[::-1])
                # and in place
                c.flux[0, :] = c.flux[0, :] * 2.
                c.apertures[-1] = c.apertures[-1] * 2.
                requests2 = (np.array([lo, 0.5 * (lo + hi), hi, 1.5 * hi, 2 * hi, 3 * hi]) * tab_unit)
                check_table(c, requests2, 'after-inplace')

RTOL[0] = 1e-10

# Single-aperture tables: simply repeated
for n_models in range(1, 7):
    for apertures in (None, np.array([100.]) * u.au):
        names = np.array(['m%i' % i for i in range(n_models)])
        flux = rng.uniform(1, 2, (n_models, 1)) * u.mJy
        error = rng.uniform(0.1, 0.2, (n_models, 1)) * u.mJy
        c = ConvolvedFluxes(wavelength=1. * u.micron, model_names=names, apertures=apertures, flux=flux, error=error)
        for req in (np.array([1., 100., 1.e5]) * u.au, np.array([2.]) * u.pc):
            for repeat in range(2):
                r = c.interpolate(req)
                assert r.flux.shape == (n_models, len(req))
                for j in range(len(req)):
                    assert np.all(r.flux[:, j] == flux[:, 0])
                    assert np.all(r.error[:, j] == error[:, 0])
                assert np.all(r.model_names == names)
                assert r.central_wavelength == 1. * u.micron
                N_CHECKS[0] += 1

# Unusual but legal form: table written to and read from a FITS file, requests
# computed as the library does (arcsec x distance in pc -> AU)
tmpdir = tempfile.mkdtemp()
names = np.array(['a', 'b', 'c'])
apertures = np.logspace(1., 5., 8) * u.au
flux = rng.uniform(1, 100, (3, 8)) * u.mJy
error = rng.uniform(0.1, 1, (3, 8)) * u.mJy
c = ConvolvedFluxes(wavelength=4.5 * u.micron, model_names=names, apertures=apertures, flux=flux, error=error)
c.write(os.path.join(tmpdir, 'c.fits'))
c2 = ConvolvedFluxes.read(os.path.join(tmpdir, 'c.fits'))
distances = np.logspace(-1., 1., 7) * u.kpc
apertures_au = 3. * distances.to(u.pc).value * u.au
check_table(c2, apertures_au, 'fits')
check_table(c2, apertures_au, 'fits-again')

print("C13 demo p1: all %i checks passed" % N_CHECKS[0])
