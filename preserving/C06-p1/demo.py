import sys, os; sys.path.insert(0, os.getcwd())

# Demonstration for property C06: broadband convolution is the binned integral
# of F_nu * R_nu.  Everything is checked against an independent computation
# (segment-by-segment exact integration of the piecewise-linear response).

import copy
import pickle
import shutil
import tempfile
import pathlib

import numpy as np
from astropy import units as u
from astropy.table import Table
from astropy.io import fits

import sedfitter
assert os.path.dirname(os.path.abspath(sedfitter.__file__)) == os.path.join(os.getcwd(), 'sedfitter'), sedfitter.__file__

from sedfitter.filter import Filter
from sedfitter.sed import SED, SEDCube
from sedfitter.convolve import convolve_model_dir
from sedfitter.convolved_fluxes import ConvolvedFluxes

C_LIGHT = 299792458.
N_CHECKS = [0]


def ok(cond, msg):
    N_CHECKS[0] += 1
    if not cond:
        print("DEMO FAILURE:", msg)
        sys.exit(1)


def close(a, b, rtol, atol, msg):
    a = np.asarray(a, float)
    b = np.asarray(b, float)
    good = a.shape == b.shape and np.all(np.abs(a - b) <= atol + rtol * np.abs(b))
    if not good:
        print(a)
        print(b)
    ok(good, msg)


# ---------------------------------------------------------------------------
# Independent reference
# ---------------------------------------------------------------------------

def ref_integral(fx, fy, lo, hi):
    """Exact integral of the piecewise-linear curve (fx, fy) over [lo, hi]
    (restricted to the range of fx). Plain loops, long double accumulation."""
    fx = np.asarray(fx, float)
    fy = np.asarray(fy, float)
    if fx[0] > fx[-1]:
        fx = fx[::-1]
        fy = fy[::-1]
    if lo > hi:
        lo, hi = hi, lo
    total = np.longdouble(0.)
    for k in range(len(fx) - 1):
        a = max(lo, fx[k])
        b = min(hi, fx[k + 1])
        if b <= a:
            continue
        slope = (np.longdouble(fy[k + 1]) - fy[k]) / (np.longdouble(fx[k + 1]) - fx[k])
        ya = fy[k] + slope * (np.longdouble(a) - fx[k])
        yb = fy[k] + slope * (np.longdouble(b) - fx[k])
        total += (np.longdouble(b) - a) * (ya + yb) / 2
    return float(total)


def ref_weights(fx, fy, snu):
    """R_i: integral of the response over the bin of snu[i] (mid-point bins,
    outer bins stop at the first/last SED frequency)."""
    snu = np.asarray(snu, float)
    n = len(snu)
    r = np.zeros(n)
    for i in range(n):
        e1 = snu[0] if i == 0 else (snu[i - 1] + snu[i]) / 2
        e2 = snu[-1] if i == n - 1 else (snu[i] + snu[i + 1]) / 2
        r[i] = ref_integral(fx, fy, e1, e2)
    return r


def make_filter(fx, fy, name='ff', wav=1.0):
    return Filter(name=name, central_wavelength=wav * u.micron, nu=np.array(fx) * u.Hz, response=np.array(fy))


def check_rebin(f, fx, fy, snu, label, unit=u.Hz):
    snu = np.asarray(snu, float)
    expected = ref_weights(fx, fy, snu)
    scale = max(np.max(np.abs(expected)), 1e-300)
    nu_q = (snu * u.Hz).to(unit)
    b1 = f.rebin(nu_q)
    close(b1.response, expected, 1e-9, 1e-12 * scale, label + ': R_i against the exact bin integrals')
    # second call on the same objects
    b2 = f.rebin(nu_q)
    ok(np.array_equal(b1.response, b2.response), label + ': second call gives the same R_i')
    ok(b1 is not b2 and b1.response is not b2.response, label + ': separate result objects')
    ok(b1.name == f.name and b1.central_wavelength == f.central_wavelength, label + ': name/wavelength carried over')
    ok(b1.nu.unit == nu_q.unit and np.array_equal(b1.nu.value, nu_q.value), label + ': nu of the result is the grid given')
    ok(np.all(b1.response >= 0), label + ': non-negative')
    # sum R_i = integral of the filter over the overlap
    tot = ref_integral(fx, fy, snu.min(), snu.max())
    close(np.sum(b1.response), tot, 1e-9, 1e-12 * scale, label + ': sum R_i = integral over the overlap')
    # the original filter was not altered
    ok(np.array_equal(f.nu.to(u.Hz).value, np.asarray(fx, float)) and np.array_equal(np.asarray(f.response, float), np.asarray(fy, float)),
       label + ': filter itself unchanged by rebin')
    return b1


rng = np.random.default_rng(20240606)

# --- A. random filters and grids, either order, all overlap types ----------

for trial in range(250):
    nf = int(rng.integers(2, 61))
    ns = int(rng.integers(2, 81))
    f_lo, f_hi = np.sort(rng.uniform(1e13, 9e13, 2))
    if f_hi - f_lo < 1e12:
        f_hi = f_lo + 1e12
    fx = np.sort(np.concatenate([[f_lo, f_hi], rng.uniform(f_lo, f_hi, nf - 2)]))
    fx = np.unique(fx)
    nf = len(fx)
    fy = rng.random(nf) * 10 ** rng.uniform(-3, 3)
    if trial % 2 == 0:
        fy[0] = 0.
        fy[-1] = 0.
    if trial % 7 == 0:
        fy[rng.integers(0, nf)] = 0.
    kind = trial % 5
    if kind == 0:      # SED range contains filter
        s_lo, s_hi = f_lo * 0.5, f_hi * 1.7
    elif kind == 1:    # partial overlap at low nu
        s_lo, s_hi = f_lo * 0.5, 0.5 * (f_lo + f_hi)
    elif kind == 2:    # partial at high nu
        s_lo, s_hi = 0.4 * f_lo + 0.6 * f_hi, f_hi * 1.5
    elif kind == 3:    # SED inside filter
        s_lo, s_hi = 0.8 * f_lo + 0.2 * f_hi, 0.1 * f_lo + 0.9 * f_hi
    else:              # ends coincide exactly with the filter ends
        s_lo, s_hi = f_lo, f_hi
    snu = np.unique(np.concatenate([[s_lo, s_hi], rng.uniform(s_lo, s_hi, ns - 2)]))
    if trial % 3 == 0 and nf > 2:
        # some SED frequencies exactly on filter samples
        snu = np.unique(np.concatenate([snu, fx[(fx >= s_lo) & (fx <= s_hi)][:3]]))[:80]
    if trial % 4 < 2:
        fx, fy = fx[::-1].copy(), fy[::-1].copy()
    if trial % 4 in (1, 3):
        snu = snu[::-1].copy()
    f = make_filter(fx, fy)
    check_rebin(f, fx, fy, snu, 'random %d' % trial, unit=u.GHz if trial % 6 == 0 else u.Hz)

# --- B. boundary cases -----------------------------------------------------

fx = [2e13, 4e13]
fy = [1., 3.]
f = make_filter(fx, fy)
b = check_rebin(f, fx, fy, [1e13, 5e13], 'two-point filter, two-point grid')
close(b.response, [1.5e13, 2.5e13], 1e-12, 0, 'hand value: split at 3e13')
b = check_rebin(f, fx, fy, [5e13, 1e13], 'two-point filter, reversed two-point grid')
close(b.response, [2.5e13, 1.5e13], 1e-12, 0, 'hand value reversed')
b = check_rebin(f, fx, fy, [4.5e13, 6e13, 9e13], 'filter entirely outside the grid')
ok(np.all(b.response == 0), 'no overlap -> all zero')
b = check_rebin(f, fx, fy, [1e12, 4e13 - 1e9, 1e15], 'filter inside one bin')
b = check_rebin(f, fx, fy, [2e13, 4e13], 'grid ends on the filter ends')
close(b.response.sum(), 4e13, 1e-12, 0, 'full integral')
b = check_rebin(f, fx, fy, [1e13, 2e13], 'grid touches the filter at one point')
ok(np.all(b.response == 0), 'touching only -> zero')

# integer-valued response given as a list (unusual but legal form)
f = Filter(name='int', central_wavelength=2 * u.micron, nu=[3, 2, 1] * u.THz, response=[1, 2, 1])
b = check_rebin(f, [3e12, 2e12, 1e12], [1., 2., 1.], [0.5e12, 1.5e12, 2.5e12, 3.5e12], 'integer response, THz')
close(b.response, [0., 1.5e12, 1.5e12, 0.], 1e-12, 0, 'hand values (THz filter)')

# --- C. normalised filter inside the SED range: flat spectrum gives c -------

for trial in range(40):
    nf = int(rng.integers(2, 61))
    fx = np.unique(rng.uniform(2e13, 5e13, nf))
    if len(fx) < 2:
        continue
    fy = rng.random(len(fx)) + (0. if trial % 2 else 0.1)
    if trial % 3 == 0:
        fx = fx[::-1].copy()
    f = make_filter(fx, fy)
    total = ref_integral(fx, fy, 0., 1e20)
    f.normalize()
    close(f.response, np.asarray(fy) / total, 1e-10, 0, 'normalize divides by |integral over nu|')
    snu = np.unique(np.concatenate([[1e13, 8e13], rng.uniform(1e13, 8e13, int(rng.integers(0, 79)))]))
    if trial % 2:
        snu = snu[::-1].copy()
    b = f.rebin(snu * u.Hz)
    cval = 3.25
    close(np.sum(cval * b.response), cval, 1e-9, 0, 'flat spectrum through a normalised filter gives c')
    # linear in the SED
    f1 = rng.random(len(snu))
    f2 = rng.random(len(snu))
    close(np.sum((2 * f1 - 0.5 * f2) * b.response), 2 * np.sum(f1 * b.response) - 0.5 * np.sum(f2 * b.response), 1e-9, 1e-12, 'linear in the SED')
    # in-place change of the response of the filter, then a further call
    f.response[:] = f.response * 2.
    b2 = f.rebin(snu * u.Hz)
    close(b2.response, 2 * b.response, 1e-12, 0, 'in-place change of the response is honoured')
    # setter
    f.response = np.asarray(fy)
    b3 = f.rebin(snu * u.Hz)
    close(b3.response, ref_weights(fx, fy, snu), 1e-9, 1e-14 * np.max(fy) * 1e13, 'response setter is honoured')
    # changing the result does not leak anywhere
    b3.response[:] = -1.
    b4 = f.rebin(snu * u.Hz)
    close(b4.response, ref_weights(fx, fy, snu), 1e-9, 1e-14 * np.max(fy) * 1e13, 'result objects are independent')
    # nu setter (same length, shifted)
    f.nu = np.asarray(fx) * 1.01 * u.Hz
    b5 = f.rebin(snu * u.Hz)
    close(b5.response, ref_weights(np.asarray(fx) * 1.01, fy, snu), 1e-9, 1e-14 * np.max(fy) * 1e13, 'nu setter is honoured')
    # copies and pickles behave like the original
    for g in (copy.deepcopy(f), pickle.loads(pickle.dumps(f, protocol=2))):
        close(g.rebin(snu * u.Hz).response, b5.response, 0, 0, 'copy/pickle of a filter rebins identically')

# --- C2. one filter, many grids, interleaved and repeated ---------------------

fx = np.unique(rng.uniform(2e13, 5e13, 30))
fy = rng.random(len(fx))
f = make_filter(fx, fy)
grids = []
for k in range(12):
    g = np.unique(rng.uniform(1e13, 8e13, 2 + 6 * k))
    if k % 2:
        g = g[::-1].copy()
    grids.append(g)
# grids that differ from grids[3] in one interior element only / in length only
g = grids[3].copy(); g[len(g) // 2] *= (1 + 1e-12); grids.append(g)
grids.append(grids[3][:-1].copy())
grids.append(grids[3].astype('>f8'))       # same values, other byte order
for rounds in range(3):
    for k in list(range(len(grids))) + [0, 0, 3, 12, 3, 13]:
        unit = [u.Hz, u.kHz, u.THz][(k + rounds) % 3]
        r = f.rebin((grids[k] * u.Hz).to(unit)).response
        close(r, ref_weights(fx, fy, np.asarray(grids[k], float)), 1e-9, 1e-14 * 3e13, 'many grids: grid %d round %d' % (k, rounds))
    # change one response value in place between the rounds
    fy = fy.copy()
    fy[rounds + 1] += 0.25
    f.response[rounds + 1] += 0.25
    # and one frequency (through the quantity held by the filter)
    fx = fx.copy()
    fx[5 + rounds] *= 1.0001
    f.nu.value[5 + rounds] *= 1.0001
g = pickle.loads(pickle.dumps(f, protocol=pickle.HIGHEST_PROTOCOL))
f.response[0] += 1.
close(g.rebin(grids[2] * u.Hz).response, ref_weights(fx, fy, grids[2]), 1e-9, 1e-14 * 3e13, 'pickled filter independent of the original')
fy[0] += 1.
close(f.rebin(grids[2] * u.Hz).response, ref_weights(fx, fy, grids[2]), 1e-9, 1e-14 * 3e13, 'original after pickling')
# a filter object made without __init__ and filled afterwards (as unpickling does)
h = Filter.__new__(Filter)
h.__dict__.update(dict((k, v) for k, v in f.__dict__.items() if k in ('name', '_wavelength', '_nu', '_r')))
close(h.rebin(grids[2] * u.Hz).response, ref_weights(fx, fy, grids[2]), 1e-9, 1e-14 * 3e13, 'bare object with only the documented state')

# --- D. filters read from text files ---------------------------------------

tmp = tempfile.mkdtemp()
try:

    def write_filter_file(path, wav, resp, central):
        with open(path, 'w') as fh:
            fh.write("# wav = %.6e\n" % central)
            for w, r in zip(wav, resp):
                fh.write("%.17e %.17e\n" % (w, r))

    file_filters = []
    for k, order in enumerate(['up', 'down', 'up']):
        n = [2, 17, 60][k]
        wav = np.unique(rng.uniform(1.0 + k, 3.0 + 2 * k, n))
        resp = rng.random(len(wav))
        if k == 1:
            resp[0] = resp[-1] = 0.
        if order == 'down':
            wav, resp = wav[::-1].copy(), resp[::-1].copy()
        path = os.path.join(tmp, 'F%d.txt' % k)
        write_filter_file(path, wav, resp, np.mean(wav))
        forms = [path, pathlib.Path(path)]
        for form in forms:
            try:
                f = Filter.read(form)
            except (TypeError, AttributeError):
                ok(not isinstance(form, str), 'a plain str file name must be readable')
                continue
            ok(f.name == 'F%d' % k, 'filter name from file name')
            close(f.central_wavelength.to(u.micron).value, float("%.6e" % np.mean(wav)), 1e-12, 0, 'central wavelength from header')
            fx = C_LIGHT / (wav * 1e-6)
            close(f.nu.to(u.Hz).value, fx, 1e-12, 0, 'frequencies from wavelengths, file order kept')
            close(f.response, resp, 0, 0, 'responses as in file')
            close(f.wav.to(u.micron).value, wav, 0, 0, 'wav attribute')
            snu = np.sort(rng.uniform(0.5 * fx.min(), 1.5 * fx.max(), 50))
            check_rebin(f, f.nu.to(u.Hz).value, resp, snu, 'file filter %d' % k)
            check_rebin(f, f.nu.to(u.Hz).value, resp, snu[::-1], 'file filter %d reversed grid' % k)
        # reading the same file a second time gives an equal, independent object
        g1 = Filter.read(path)
        g1.response[:] = 0.
        g2 = Filter.read(path)
        close(g2.response, resp, 0, 0, 'second read unaffected by changes to first object')
        # file rewritten with other content (same name) -> new content is read
        write_filter_file(path, wav, resp * 2, np.mean(wav))
        g3 = Filter.read(path)
        close(g3.response, resp * 2, 0, 0, 're-written file is re-read')
        write_filter_file(path, wav, resp, np.mean(wav))
        g = Filter.read(path)
        g.normalize()
        file_filters.append((g, g.nu.to(u.Hz).value.copy(), np.array(g.response)))

    # a file without the '=' in the header, or without '#', is refused
    bad = os.path.join(tmp, 'bad1.txt')
    with open(bad, 'w') as fh:
        fh.write("# wavelength 3\n1.0 1.0\n2.0 1.0\n")
    try:
        Filter.read(bad)
        ok(False, 'header without "=" must be refused')
    except Exception:
        ok(True, '')
    bad = os.path.join(tmp, 'bad2.txt')
    with open(bad, 'w') as fh:
        fh.write("wav = 3\n1.0 1.0\n2.0 1.0\n")
    try:
        Filter.read(bad)
        ok(False, 'header that is not a comment must be refused')
    except Exception:
        ok(True, '')
    try:
        Filter.read(os.path.join(tmp, 'does_not_exist.txt'))
        ok(False, 'missing file must be refused')
    except (IOError, OSError):
        ok(True, '')

    # --- E. convolve_model_dir, both package layouts ------------------------

    def build_v1(models_dir, n_ap, wavs):
        os.makedirs(os.path.join(models_dir, 'seds'))
        seds = {}
        names = []
        for i, wav in enumerate(wavs):
            sed = SED()
            sed.name = 'model_%04d' % i
            sed.distance = 1 * u.kpc
            sed.wav = wav * u.micron
            sed.nu = sed.wav.to(u.Hz, equivalencies=u.spectral())
            if n_ap > 1:
                sed.apertures = np.logspace(1., 4., n_ap) * u.au
            else:
                sed.apertures = None
            flux = 1 + rng.random((n_ap, len(wav)))
            if i == 0:
                flux[:] = 2.5   # flat spectrum
            sed.flux = flux * u.mJy
            sed.error = sed.flux * (0.01 + 0.1 * rng.random((n_ap, len(wav))))
            sed.write(os.path.join(models_dir, 'seds', sed.name + '_sed.fits'))
            seds[sed.name] = (sed.nu.to(u.Hz).value.copy(), sed.flux.value.copy(), sed.error.value.copy())
            names.append(sed.name)
        with open(os.path.join(models_dir, 'models.conf'), 'w') as fh:
            fh.write("name = test\nlength_subdir = 0\naperture_dependent = %s\nlogd_step = 0.02\n" % ('yes' if n_ap > 1 else 'no'))
        t = Table()
        t['MODEL_NAME'] = np.array(names, dtype='S30')
        t['par1'] = rng.random(len(names))
        order = rng.permutation(len(names))
        t = t[order]
        t.write(os.path.join(models_dir, 'parameters.fits'))
        return seds, [names[j] for j in order]

    def build_v2(models_dir, n_ap, wav, n_models=6):
        os.makedirs(models_dir)
        cube = SEDCube()
        cube.names = np.array(['model_%04d' % i for i in range(n_models)])
        cube.distance = 1 * u.kpc
        cube.wav = wav * u.micron
        cube.apertures = np.logspace(1., 4., n_ap) * u.au if n_ap > 1 else None
        val = 1 + rng.random((n_models, n_ap, len(wav)))
        val[0] = 2.5
        cube.val = val * u.mJy
        cube.unc = cube.val * (0.01 + 0.1 * rng.random(val.shape))
        cube.write(os.path.join(models_dir, 'flux.fits'))
        with open(os.path.join(models_dir, 'models.conf'), 'w') as fh:
            fh.write("name = test\nlength_subdir = 0\naperture_dependent = %s\nlogd_step = 0.02\nversion = 2\n" % ('yes' if n_ap > 1 else 'no'))
        t = Table()
        t['MODEL_NAME'] = np.array(cube.names, dtype='S')
        t['par1'] = rng.random(n_models)
        t.write(os.path.join(models_dir, 'parameters.fits'))
        nu = cube.nu.to(u.Hz).value.copy()
        seds = dict((cube.names[i], (nu, val[i], cube.unc.value[i])) for i in range(n_models))
        return seds, list(cube.names)

    def check_dir(models_dir, seds, names, filters, label):
        for (g, fx, fy) in filters:
            cf = ConvolvedFluxes.read(os.path.join(str(models_dir), 'convolved', g.name + '.fits'))
            got_names = [str(x).strip() for x in cf.model_names]
            ok(got_names == [str(x) for x in names], label + ': model order follows the parameter table')
            close(cf.central_wavelength.to(u.micron).value, g.central_wavelength.to(u.micron).value, 1e-6, 0, label + ': central wavelength')
            for im, name in enumerate(got_names):
                nu, flux, err = seds[name]
                r = ref_weights(fx, fy, nu)
                expected_flux = np.sum(flux * r, axis=1)
                expected_err = np.sqrt(np.sum((err * r) ** 2, axis=1))
                close(cf.flux[im].to(u.mJy).value, expected_flux, 2e-5, 0, label + ': flux = sum F_i R_i (%s, %s)' % (g.name, name))
                close(cf.error[im].to(u.mJy).value, expected_err, 2e-5, 0, label + ': error in quadrature with the same R_i')
                if name == 'model_0000' and fx.min() >= nu.min() and fx.max() <= nu.max():
                    close(cf.flux[im].to(u.mJy).value, np.full(cf.flux[im].shape, 2.5), 2e-5, 0, label + ': flat spectrum, normalised filter inside the range -> c')

    wav_a = np.logspace(-1., 2., 70)
    wav_b = np.logspace(-1., 2., 80) * 1.003       # other grid: filters must be re-binned
    wav_c = wav_a * (1 + 1e-9)                      # nearly the same end points and length as a, not the same grid
    wav_c[1:-1] = wav_a[1:-1] * 1.004
    wav_d = np.array([0.5, 4.2])                    # two-point grid
    for n_ap in (1, 3):
        d1 = os.path.join(tmp, 'v1_%d' % n_ap)
        seds, names = build_v1(d1, n_ap, [wav_a, wav_a, wav_b, wav_a, wav_c, wav_a[::-1].copy(), wav_d])
        filters = [x[0] for x in file_filters]
        convolve_model_dir(d1, filters)
        check_dir(d1, seds, names, file_filters, 'v1 n_ap=%d' % n_ap)
        # second run on the same directory and the same filter objects
        convolve_model_dir(d1, filters, overwrite=True)
        check_dir(d1, seds, names, file_filters, 'v1 n_ap=%d (second run)' % n_ap)
        for (g, fx, fy) in file_filters:
            close(g.response, fy, 0, 0, 'filters not altered by convolve_model_dir')

        for memmap in (True, False):
            for wlabel, wav in (('up', wav_a), ('down', wav_b[::-1].copy()), ('two', wav_d)):
                d2 = os.path.join(tmp, 'v2_%d_%s_%s' % (n_ap, memmap, wlabel))
                seds, names = build_v2(d2, n_ap, wav)
                convolve_model_dir(d2, filters, memmap=memmap)
                check_dir(d2, seds, names, file_filters, 'v2 n_ap=%d memmap=%s %s' % (n_ap, memmap, wlabel))
                convolve_model_dir(d2, filters, overwrite=True, memmap=memmap)
                check_dir(d2, seds, names, file_filters, 'v2 n_ap=%d memmap=%s %s (second run)' % (n_ap, memmap, wlabel))

    # existing output is not overwritten unless asked
    try:
        convolve_model_dir(d2, filters)
        ok(False, 'existing output must be refused without overwrite')
    except Exception:
        ok(True, '')

    # unnamed filter is refused
    try:
        convolve_model_dir(d2, [Filter(nu=[1, 2] * u.Hz, response=[1, 1])], overwrite=True)
        ok(False, 'unnamed filter must be refused')
    except Exception:
        ok(True, '')

    # path-like model directory: either refused with a TypeError (as the
    # str-only code does) or handled with the same results
    d3 = pathlib.Path(tmp) / 'v2_pathlike'
    seds, names = build_v2(str(d3), 1, wav_a)
    try:
        convolve_model_dir(d3, filters)
        worked = True
    except TypeError:
        worked = False
    if worked:
        check_dir(d3, seds, names, file_filters, 'v2 path-like directory')
    d4 = pathlib.Path(tmp) / 'v1_pathlike'
    seds, names = build_v1(str(d4), 1, [wav_a, wav_b])
    try:
        convolve_model_dir(d4, filters)
        worked = True
    except TypeError:
        worked = False
    if worked:
        check_dir(d4, seds, names, file_filters, 'v1 path-like directory')

finally:
    shutil.rmtree(tmp, ignore_errors=True)

print("demo OK: %d checks" % N_CHECKS[0])
