#!/venv/bin/python
"""Entry point: run_check.py <Cxx> [--tier quick|thorough] [--replay <file>].

Must run under /venv/bin/python (the only interpreter with numpy / astropy /
scipy / matplotlib).  Re-executes itself with PYTHONHASHSEED=0 so that no
observation depends on hash randomisation.
"""
import os
import sys

VENV_PY = '/venv/bin/python'

if __name__ == '__main__':
    need_reexec = os.environ.get('PYTHONHASHSEED') != '0'
    try:
        import numpy  # noqa
    except ImportError:
        need_reexec = True
    if need_reexec and os.environ.get('_VERIF_REEXEC') != '1':
        e = dict(os.environ)
        e['PYTHONHASHSEED'] = '0'
        e['_VERIF_REEXEC'] = '1'
        py = VENV_PY if os.path.exists(VENV_PY) else sys.executable
        os.execve(py, [py, os.path.abspath(__file__)] + sys.argv[1:], e)
    sys.path.insert(0, os.path.dirname(os.path.abspath(__file__)))
    from mc.runner import main
    sys.exit(main(sys.argv[1:]))
